"""Regenerate /verif/MANIFEST.json from driver/props.py so that the claimed
checks, engines and not_applicable list never drift apart."""
import json
import os

from .props import PROPS

VERIF = os.path.dirname(os.path.dirname(os.path.abspath(__file__)))

TECHNIQUE = "runtime monitoring: deterministic oracles (inverse laws, reference models, invariants) over generated and hostile executions of the real code in journalled child processes with a CPU work bound"


def main():
    props = [json.loads(l) for l in open(os.path.join(VERIF, "properties.jsonl"))]
    checks = []
    na = []
    for p in props:
        pid = p["id"]
        cfg = PROPS.get(pid)
        if cfg is None or "level_text" not in cfg:
            na.append({"property_id": pid, "reason": (cfg or {}).get("na_reason", "monitor not built yet in this round; runtime monitoring applies in principle (DESIGN.md §4)")})
            continue
        checks.append({
            "property_id": pid,
            "quick_cmd": "./check %s --tier quick" % pid,
            "thorough_cmd": "./check %s --tier thorough" % pid,
            "evidence_file": "/verif/evidence/%s.json" % pid,
            "replay_cmd_template": "./check %s --replay {path}" % pid,
            "engine": "verif-worker",
            "level_claimed": {"category": "exploration", "text": cfg["level_text"], "design_ref": "DESIGN.md §4 " + pid},
            "level_note": cfg["level_note"],
            "technique": cfg.get("technique", TECHNIQUE),
        })
    m = {
        "version": 1,
        "setup_cmd": "python3 -m driver.build --race",
        "hooks": {
            "guard": "verif",
            "enable": "cd /repo && go build -tags verif -overlay /verif/build/repo/overlay.json -modfile /verif/build/repo/go.mod ./internal/verifh/worker  (the overlay only ADDS //go:build verif files from /verif/harness; no repository file is edited, so there are no hook commits)",
            "baseline_off_cmd": "cd /repo && GOFLAGS=-mod=mod GOPROXY=off go test -vet=off -count=1 ./...",
            "source_commits": [],
            "add_only": True,
        },
        "engines": [{
            "name": "verif-worker",
            "path": "/verif/harness",
            "serves_properties": [c["property_id"] for c in checks],
            "kind_free_text": "Go generators + monitors injected into the repository build by overlay (tag verif); python3 driver (/verif/driver) supervising journalled child processes, merging event summaries, matching known findings, writing evidence",
        }],
        "checks": checks,
        "not_applicable": na,
        "notes": "Exit codes of ./check: 0 held on everything explored (KNOWN-FINDING lines possible), 1 VIOLATION, 2 inconclusive (watchdog / coverage floor / harness bug; never reported as a violation), 3 the tree does not build.",
    }
    with open(os.path.join(VERIF, "MANIFEST.json"), "w") as fh:
        json.dump(m, fh, indent=1)
        fh.write("\n")


if __name__ == "__main__":
    main()
