"""python3 -m driver.seeded [--only NAME] [--tier quick] [--all-checks]

Runs the registered checks against every seeded change kept under /verif/seeded/<name>/ (patch.diff, meta.json):
the patch is applied to /repo's working tree with `git apply`, the check of the property the change aims at is run
(with --all-checks: every check), and the tree is restored with `git checkout -- .`. Evidence and replay files of
these runs go to /verif/runs/seeded/<name>/ so that /verif/evidence keeps describing the unchanged tree.
Results are written to /verif/seeded/RESULTS.json.
"""
import argparse
import json
import os
import subprocess
import sys

VERIF = os.path.dirname(os.path.dirname(os.path.abspath(__file__)))
SEEDED = os.path.join(VERIF, "seeded")


def sh(cmd, **kw):
    return subprocess.run(cmd, shell=True, text=True, stdout=subprocess.PIPE, stderr=subprocess.STDOUT, **kw)


def repo_clean():
    return sh("git -C /repo status --porcelain").stdout.strip() == ""


def main():
    ap = argparse.ArgumentParser()
    ap.add_argument("--only")
    ap.add_argument("--tier", default="quick")
    ap.add_argument("--seed", default="1")
    ap.add_argument("--all-checks", action="store_true")
    a = ap.parse_args()
    if not repo_clean():
        print("/repo has uncommitted changes; refusing to run")
        return 2
    from driver.props import PROPS
    results_path = os.path.join(SEEDED, "RESULTS.json")
    results = {}
    if os.path.exists(results_path):
        results = json.load(open(results_path))
    names = sorted(d for d in os.listdir(SEEDED) if os.path.isdir(os.path.join(SEEDED, d)))
    for name in names:
        if a.only and a.only not in name:
            continue
        d = os.path.join(SEEDED, name)
        meta = json.load(open(os.path.join(d, "meta.json")))
        prop = meta["property"]
        r = sh("git -C /repo apply --check %s" % os.path.join(d, "patch.diff"))
        if r.returncode != 0:
            print("%s: patch does not apply: %s" % (name, r.stdout.strip()[:300]))
            results[name] = {"property": prop, "applies": False}
            continue
        sh("git -C /repo apply %s" % os.path.join(d, "patch.diff"))
        try:
            props = sorted(PROPS) if a.all_checks else [prop]
            out = {}
            for pid in props:
                env = dict(os.environ, VERIF_EVIDENCE_DIR=os.path.join(VERIF, "runs", "seeded", name), VERIF_SEED=a.seed)
                rr = sh("%s %s --tier %s" % (os.path.join(VERIF, "check"), pid, a.tier), env=env, cwd=VERIF)
                sigs = [ln.split("signature:", 1)[1].strip() for ln in rr.stdout.splitlines() if "signature:" in ln]
                out[pid] = {"exit": rr.returncode, "signatures": sigs[:12]}
                print("%-28s %s exit=%d %s" % (name, pid, rr.returncode, "; ".join(sigs[:3])[:200]))
            entry = results.get(name, {})
            entry.update({"property": prop, "applies": True, "summary": meta.get("summary", ""), "tier": a.tier})
            entry.setdefault("checks", {}).update(out)
            entry["detected_by_own_check"] = entry["checks"].get(prop, {}).get("exit") == 1
            entry["detected_by"] = sorted(k for k, v in entry["checks"].items() if v["exit"] == 1)
            results[name] = entry
        finally:
            sh("git -C /repo checkout -- .")
            if not repo_clean():
                print("WARNING: /repo not clean after restoring; stopping")
                return 2
        with open(results_path, "w") as fh:
            json.dump(results, fh, indent=1, sort_keys=True)
    return 0


if __name__ == "__main__":
    sys.exit(main())
