"""Build the verification worker from the repository's *current working tree*.

The harness sources under /verif/harness mirror /repo's layout and are injected
with a `go build -overlay` that only ADDS files (every harness file carries
`//go:build verif`), plus a -modfile copy of the repo's go.mod/go.sum extended
with porcupine. /repo itself is never written to.
"""
import json
import os
import shutil
import subprocess
import sys

VERIF = os.path.dirname(os.path.dirname(os.path.abspath(__file__)))
HARNESS = os.path.join(VERIF, "harness")
BUILD = os.path.join(VERIF, "build")

EXTRA_REQUIRES = [
    ("github.com/anishathalye/porcupine", "v1.3.0"),
]


def repo_dir():
    return os.environ.get("VERIF_REPO", "/repo")


def go_env():
    env = dict(os.environ)
    env["GOFLAGS"] = "-mod=mod"
    env["GOPROXY"] = "off"
    env["GONOSUMDB"] = "*"
    env["GONOSUMCHECK"] = "1"
    env["GONOSUMDB"] = "*"
    env["GOFLAGS"] = "-mod=mod"
    env.pop("GOTOOLCHAIN", None)
    env.pop("GOSUMDB", None)
    env["CGO_ENABLED"] = env.get("CGO_ENABLED", "1")
    return env


def _tag(repo):
    # one build dir per repo path so that scratch copies do not clobber /repo's binaries
    if repo == "/repo":
        return "repo"
    return "alt_" + repo.strip("/").replace("/", "_")


def write_overlay(repo, bdir):
    replace = {}
    for root, _dirs, files in os.walk(HARNESS):
        for f in files:
            if not f.endswith(".go"):
                continue
            src = os.path.join(root, f)
            rel = os.path.relpath(src, HARNESS)
            dst = os.path.join(repo, rel)
            if os.path.exists(dst):
                raise SystemExit("harness file would shadow a repository file: %s" % dst)
            replace[dst] = src
    path = os.path.join(bdir, "overlay.json")
    with open(path, "w") as fh:
        json.dump({"Replace": replace}, fh, indent=1, sort_keys=True)
    return path


def write_modfile(repo, bdir):
    gomod = open(os.path.join(repo, "go.mod")).read()
    extra = "\nrequire (\n" + "".join("\t%s %s\n" % (m, v) for m, v in EXTRA_REQUIRES) + ")\n"
    with open(os.path.join(bdir, "go.mod"), "w") as fh:
        fh.write(gomod + extra)
    # keep a previously completed go.sum if the repo's one has not changed (go adds lines for porcupine)
    sum_src = open(os.path.join(repo, "go.sum")).read()
    sum_dst = os.path.join(bdir, "go.sum")
    base_marker = os.path.join(bdir, "go.sum.base")
    if not (os.path.exists(sum_dst) and os.path.exists(base_marker) and open(base_marker).read() == sum_src):
        with open(sum_dst, "w") as fh:
            fh.write(sum_src)
        with open(base_marker, "w") as fh:
            fh.write(sum_src)
    return os.path.join(bdir, "go.mod")


def build(race=False, quiet=False):
    repo = repo_dir()
    bdir = os.path.join(BUILD, _tag(repo))
    os.makedirs(bdir, exist_ok=True)
    overlay = write_overlay(repo, bdir)
    modfile = write_modfile(repo, bdir)
    out = os.path.join(bdir, "worker-race" if race else "worker")
    cmd = ["go", "build", "-tags", "verif", "-overlay", overlay, "-modfile", modfile, "-o", out]
    if race:
        cmd.append("-race")
    cmd.append("./internal/verifh/worker")
    p = subprocess.run(cmd, cwd=repo, env=go_env(), stdout=subprocess.PIPE, stderr=subprocess.STDOUT, text=True)
    if p.returncode != 0:
        sys.stdout.write(p.stdout)
        print("BUILD-FAILED: the worker does not build against %s (exit %d)" % (repo, p.returncode))
        # A tree that does not compile is not a verdict about any property.
        sys.exit(3)
    if not quiet and p.stdout.strip():
        sys.stderr.write(p.stdout)
    return out


def build_cli(quiet=False):
    """the repository's own `j5` command (no harness code, no tag): C09 drives `j5 j5s fmt --write` with it"""
    repo = repo_dir()
    bdir = os.path.join(BUILD, _tag(repo))
    os.makedirs(bdir, exist_ok=True)
    out = os.path.join(bdir, "j5")
    p = subprocess.run(["go", "build", "-o", out, "./cmd/j5"], cwd=repo, env=go_env(), stdout=subprocess.PIPE, stderr=subprocess.STDOUT, text=True)
    if p.returncode != 0:
        sys.stdout.write(p.stdout)
        print("BUILD-FAILED: cmd/j5 does not build in %s (exit %d)" % (repo, p.returncode))
        sys.exit(3)
    return out


if __name__ == "__main__":
    print(build(race=False))
    print(build_cli())
    if "--race" in sys.argv:
        print(build(race=True))
