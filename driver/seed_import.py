"""python3 -m driver.seed_import /tmp/seed_out/<ID>/<X> [name]

Confirms a seeded change produced by a sub-agent before it is kept under /verif/seeded/:
in a scratch worktree of /repo (under /tmp, removed afterwards) the patch must apply and build, the repository's
own test suite must pass with it, the demonstration must FAIL with the change and PASS without it.
"""
import json
import os
import shutil
import subprocess
import sys

VERIF = os.path.dirname(os.path.dirname(os.path.abspath(__file__)))
ENV = dict(os.environ, GOFLAGS="-mod=mod", GOPROXY="off")
ENV.pop("GOTOOLCHAIN", None)
ENV.pop("GOSUMDB", None)


def sh(cmd, cwd=None):
    return subprocess.run(cmd, shell=True, text=True, stdout=subprocess.PIPE, stderr=subprocess.STDOUT, cwd=cwd, env=ENV)


def main():
    src = sys.argv[1].rstrip("/")
    meta = json.load(open(os.path.join(src, "meta.json")))
    prop = meta["property"]
    name = sys.argv[2] if len(sys.argv) > 2 else "%s-%s" % (prop, os.path.basename(src))
    wt = "/tmp/wt_import_%d" % os.getpid()
    r = sh("git -C /repo worktree add --detach %s HEAD" % wt)
    if r.returncode != 0:
        print(r.stdout)
        return 2
    ok = False
    try:
        patch = os.path.join(src, "patch.diff")
        r = sh("git apply %s" % patch, cwd=wt)
        if r.returncode != 0:
            print("patch does not apply:", r.stdout[:500])
            return 1
        r = sh("go build ./... ", cwd=wt)
        if r.returncode != 0:
            print("does not build:", r.stdout[:800])
            return 1
        r = sh("go test -vet=off -count=1 ./... 2>&1 | grep -v '^ok\\|no test files'", cwd=wt)
        if r.stdout.strip():
            print("suite does not pass with the change:\n", r.stdout[:1500])
            return 1
        ddir = os.path.join(wt, meta["demo_dir"].lstrip("./"))
        shutil.copy(os.path.join(src, "demo_test.go"), os.path.join(ddir, "zz_seed_demo_test.go"))
        run = meta.get("demo_run") or "go test -vet=off -count=1 -run TestSeedDemo ./%s/" % meta["demo_dir"]
        run = run.split("   ")[0].split(" (")[0].split(" #")[0].strip()  # some metas append prose to the command
        meta["demo_run"] = run
        r1 = sh(run, cwd=wt)
        if r1.returncode == 0:
            print("demonstration PASSES with the change (should fail):\n", r1.stdout[-800:])
            return 1
        sh("git apply -R %s" % patch, cwd=wt)
        r2 = sh(run, cwd=wt)
        if r2.returncode != 0:
            print("demonstration FAILS without the change (should pass):\n", r2.stdout[-1500:])
            return 1
        ok = True
        dst = os.path.join(VERIF, "seeded", name)
        os.makedirs(dst, exist_ok=True)
        shutil.copy(patch, os.path.join(dst, "patch.diff"))
        shutil.copy(os.path.join(src, "demo_test.go"), os.path.join(dst, "demo_test.go"))
        meta["confirmed"] = {"suite_passes_with_change": True, "demo_fails_with_change": True, "demo_passes_without_change": True,
                             "demo_failure_excerpt": r1.stdout[-600:]}
        json.dump(meta, open(os.path.join(dst, "meta.json"), "w"), indent=1)
        print("kept as", dst)
        return 0
    finally:
        sh("git -C /repo worktree remove --force %s" % wt)
        shutil.rmtree(wt, ignore_errors=True)
        if not ok:
            print("NOT kept:", src)


if __name__ == "__main__":
    sys.exit(main())
