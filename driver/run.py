"""Child supervision, crash attribution, merge of shard summaries, known-findings
matching, replay files, evidence. See /verif/DESIGN.md §2."""
import fnmatch
import hashlib
import json
import os
import re
import shutil
import struct
import subprocess
import sys
import threading
import time

from . import build as B
from .props import PROPS

VERIF = B.VERIF
BITMAP_BITS = 1 << 26

EXIT_CPU = 97
EXIT_HARNESS = 98


def load_known():
    out = []
    p = os.path.join(VERIF, "known_findings.jsonl")
    if os.path.exists(p):
        for line in open(p):
            line = line.strip()
            if not line or line.startswith("#"):
                continue
            if line.startswith("fixed:"):
                out.append({"kind": "fixed", "line": line})
                continue
            out.append(json.loads(line))
    return out


def read_journal(path):
    try:
        data = open(path, "rb").read()
    except OSError:
        return None
    if len(data) < 8:
        return None
    (ln,) = struct.unpack("<Q", data[:8])
    body = data[8:8 + ln]
    try:
        n, rest = body.split(b"\n", 1)
        cid, rest = rest.split(b"\n", 1)
        ilen, rest = rest.split(b"\n", 1)
        inp = rest[: int(ilen)]
        return {"n": int(n), "id": cid.decode("utf-8", "replace"), "input": inp}
    except Exception:
        return None


def death_signature(rc, stderr_text):
    """Stable description of why a child died: kind + first repo frame."""
    kind = "exit-%s" % rc
    if rc == EXIT_CPU or "VERIF-CPU-BUDGET-EXCEEDED" in stderr_text:
        kind = "cpu-budget"
    if rc == 95 or "VERIF-BLOCKED" in stderr_text:
        kind = "blocked"
    m = re.search(r"fatal error: ([^\n]+)", stderr_text)
    if m:
        kind = "fatal:" + m.group(1).strip()
    elif re.search(r"^panic: ", stderr_text, re.M):
        m2 = re.search(r"^panic: ([^\n]+)", stderr_text, re.M)
        kind = "panic:" + re.sub(r"0x[0-9a-f]+", "0x?", m2.group(1).strip())[:80]
    elif "WARNING: DATA RACE" in stderr_text and kind.startswith("exit-"):
        kind = "race-exit"
    frame = "unknown"
    # for the cpu budget the interesting goroutine is the one running the case: first repo frame after "goroutine 1"
    for line in stderr_text.split("\n"):
        line = line.strip()
        if line.startswith("github.com/pentops/j5/") and "/internal/verifh/" not in line and ".Verif" not in line:
            name = re.sub(r"\([^()]*\)$", "", line)  # drop the argument list only
            name = re.sub(r"\.func\d+(\.\d+)*$", "", name)
            name = name.replace("github.com/pentops/j5/", "").replace("(*", "").replace(")", "")
            name = re.sub(r"\[\.\.\.\]", "", name)
            frame = name
            break
    if rc is not None and rc < 0:
        kind = kind if kind.startswith("fatal:") else "signal-%d" % (-rc)
    return "death/%s/%s" % (kind, frame)


class ShardResult:
    def __init__(self):
        self.summaries = []
        self.deaths = []
        self.inconclusive = []
        self.stopped_early = []
        self.bitmaps = []


def run_shard(binary, prop, tier, seed, shard, nshards, outdir, extra_args, only, wall_timeout, env, res):
    start_after = 0
    skips = []
    attempt = 0
    while True:
        attempt += 1
        sdir = os.path.join(outdir, "s%d-a%d" % (shard, attempt))
        os.makedirs(sdir, exist_ok=True)
        cmd = [binary, "-prop", prop, "-seed", str(seed), "-tier", tier, "-shard", str(shard), "-nshards", str(nshards),
               "-out", sdir, "-start-after", str(start_after)]
        if skips:
            cmd += ["-skip", ",".join(str(s) for s in skips)]
        if only:
            cmd += ["-only", only]
        if extra_args:
            cmd += ["-args", ",".join("%s=%s" % kv for kv in sorted(extra_args.items()))]
        errpath = os.path.join(sdir, "stderr.txt")
        with open(errpath, "wb") as errf, open(os.path.join(sdir, "stdout.txt"), "wb") as outf:
            try:
                p = subprocess.run(cmd, stdout=outf, stderr=errf, env=env, timeout=wall_timeout,
                                   preexec_fn=_limits)
                rc = p.returncode
            except subprocess.TimeoutExpired:
                res.inconclusive.append("shard %d: wall-clock watchdog (%ds) fired" % (shard, wall_timeout))
                return
        summ = None
        sp = os.path.join(sdir, "shard-%d.json" % shard)
        if os.path.exists(sp):
            try:
                summ = json.load(open(sp))
            except Exception:
                summ = None
        bm = os.path.join(sdir, "bitmap-%d.bin" % shard)
        if summ is not None:
            res.summaries.append(summ)
            if os.path.exists(bm):
                res.bitmaps.append(bm)
        stderr_text = open(errpath, "rb").read().decode("utf-8", "replace")
        if rc == 0 and summ is not None and summ.get("finished"):
            if "WARNING: DATA RACE" in stderr_text:
                res.deaths.append({"kind": "race-report", "stderr_path": errpath})
            return
        if rc == 96:
            res.inconclusive.append("shard %d: trial watchdog fired (inconclusive), see %s" % (shard, errpath))
            return
        if rc == EXIT_HARNESS or "VERIF-HARNESS-BUG" in stderr_text and rc == EXIT_HARNESS:
            res.inconclusive.append("shard %d: harness bug, see %s" % (shard, errpath))
            return
        j = read_journal(os.path.join(sdir, "journal-%d" % shard))
        if j is None:
            res.inconclusive.append("shard %d: child died (rc=%s) before journalling a case, see %s" % (shard, rc, errpath))
            return
        sig = death_signature(rc, stderr_text)
        res.deaths.append({"kind": "death", "sig": sig, "rc": rc, "case_n": j["n"], "case_id": j["id"],
                           "input": j["input"], "stderr_path": errpath,
                           "stderr_head": stderr_text[:6000]})
        done = summ["done_upto"] if summ is not None else start_after
        start_after = max(start_after, done)
        skips.append(j["n"])
        if only:
            return
        same = sum(1 for d in res.deaths if d.get("sig") == sig and d.get("shard") == shard)
        res.deaths[-1]["shard"] = shard
        if sig.startswith("death/blocked/") and same >= 2:
            # every occurrence costs half a minute of waiting; the violation is established, the remaining
            # cases of this shard are not explored (said in the evidence, the run exits 1 anyway)
            res.stopped_early.append("shard %d stopped after %d deaths with signature %s" % (shard, same + 1, sig))
            return
        if len(skips) > 200:
            res.inconclusive.append("shard %d: more than 200 child deaths" % shard)
            return


def _repo_frame(block_lines):
    """innermost repository frame (function name) of one stack of a race report"""
    for ln in block_lines:
        ln = ln.strip()
        if ln.startswith("github.com/pentops/j5/") and "/internal/verifh/" not in ln and ".Verif" not in ln:
            name = ln.split("(")[0] if not ln.startswith("github.com/pentops/j5/lib") or True else ln
            name = re.sub(r"\(\)$", "", ln)
            name = re.sub(r"\.func\d+(\.\d+)*", "", name)
            name = name.replace("github.com/pentops/j5/", "").replace("(*", "").replace(")", "")
            name = re.sub(r"\(.*$", "", name)
            return name
    return "unknown"


def collect_race_reports(outdir, merged):
    """Parse the GORACE log files of all children; every report is a violation,
    deduplicated by the (sorted) pair of innermost repository frames."""
    import glob
    total = 0
    for path in sorted(glob.glob(os.path.join(outdir, "race.*"))):
        text = open(path, "rb").read().decode("utf-8", "replace")
        for rep in text.split("WARNING: DATA RACE")[1:]:
            total += 1
            rep = rep.split("==================")[0]
            # stacks are separated by blank lines; the first two are the conflicting accesses
            blocks = [b for b in re.split(r"\n\s*\n", rep.strip()) if b.strip()]
            frames = []
            for b in blocks[:2]:
                frames.append(_repo_frame(b.split("\n")[1:]))
            while len(frames) < 2:
                frames.append("unknown")
            sig = "race/" + "|".join(sorted(frames))
            if sig in merged["violations"]:
                merged["violations"][sig]["count"] += 1
            else:
                merged["violations"][sig] = {"sig": sig, "what": "the Go race detector reported a data race between %s and %s" % (frames[0], frames[1]),
                                             "case_id": "", "case_n": 0, "count": 1, "detail": {"report": rep[:6000], "log": path}}
    merged["monitor_events"]["race_reports"] = total


def _limits():
    import resource
    try:
        resource.setrlimit(resource.RLIMIT_AS, (24 << 30, 24 << 30))
    except Exception:
        pass
    try:
        resource.setrlimit(resource.RLIMIT_CORE, (0, 0))
    except Exception:
        pass


def merge_bitmaps(paths):
    acc = 0
    raw_acc = None
    for p in paths:
        data = open(p, "rb").read()
        if not data:
            continue
        if data[:1] == b"R":
            v = int.from_bytes(data[1:], "little")
            acc |= v
        else:
            body = data[1:]
            n = len(body) // 4
            if n == 0:
                continue
            idxs = struct.unpack("<%dI" % n, body[: n * 4])
            ba = bytearray(BITMAP_BITS // 8)
            for i in idxs:
                ba[i >> 3] |= 1 << (i & 7)
            acc |= int.from_bytes(bytes(ba), "little")
    return bin(acc).count("1")


def sanitize(s):
    s = re.sub(r"[^A-Za-z0-9_.-]+", "_", s)
    if len(s) > 120:
        s = s[:100] + "_" + hashlib.sha1(s.encode()).hexdigest()[:12]
    return s


def match_known(known, prop, sig):
    for k in known:
        if k.get("kind") != "finding" or k.get("property") != prop:
            continue
        pat = k.get("signature", "")
        if pat == sig or (("*" in pat) and fnmatch.fnmatchcase(sig, pat)):
            return k
    return None


def run_property(prop, tier, seed, only=None, replay_meta=None):
    t0 = time.time()
    cfg = PROPS[prop]
    repo = B.repo_dir()
    race = cfg.get("race", False)
    binary = B.build(race=race, quiet=True)
    nshards = 1 if only else cfg.get("shards", 16)
    outdir = os.path.join(VERIF, "runs", B._tag(repo), prop)
    shutil.rmtree(outdir, ignore_errors=True)
    os.makedirs(outdir, exist_ok=True)
    env = dict(os.environ)
    env["GOTRACEBACK"] = "all"
    env["VERIF_REPO_DIR"] = repo
    if cfg.get("needs_cli"):
        env["VERIF_J5_BIN"] = B.build_cli(quiet=True)
    env["GOMAXPROCS"] = str(cfg.get("gomaxprocs", 2))
    if race:
        env["GORACE"] = "halt_on_error=0 exitcode=0 log_path=%s/race" % outdir
    extra_args = dict(cfg.get("args", {}))
    wall = cfg.get("wall_timeout", {"quick": 900, "thorough": 7200})[tier]
    results = [ShardResult() for _ in range(nshards)]
    threads = []
    for i in range(nshards):
        th = threading.Thread(target=run_shard, args=(binary, prop, tier, seed, i, nshards, outdir, extra_args, only,
                                                      wall, env, results[i]))
        th.start()
        threads.append(th)
    for th in threads:
        th.join()

    # ---- merge ------------------------------------------------------------------
    merged = {"cases": 0, "evaluations": 0, "nontrivial": 0, "features": {}, "monitor_events": {}, "samples": [],
              "violations": {}, "overflow": 0, "harness_bugs": [], "notes": {}, "exhaustive": {}}
    inconclusive = []
    bitmaps = []
    xproc = {}
    for r in results:
        inconclusive += r.inconclusive
        for note in r.stopped_early:
            merged["monitor_events"]["shards_stopped_early"] = merged["monitor_events"].get("shards_stopped_early", 0) + 1
            merged["notes"].setdefault("stopped_early", []).append(note)
        bitmaps += r.bitmaps
        for s in r.summaries:
            merged["cases"] += s["cases"]
            merged["evaluations"] += s["evaluations"]
            merged["nontrivial"] += s["nontrivial"]
            for k, v in (s.get("features") or {}).items():
                merged["features"][k] = merged["features"].get(k, 0) + v
            for k, v in (s.get("monitor_events") or {}).items():
                merged["monitor_events"][k] = merged["monitor_events"].get(k, 0) + v
            for smp in (s.get("samples") or []):
                if len(merged["samples"]) < 6:
                    merged["samples"].append(smp)
            for sig, v in (s.get("violations") or {}).items():
                if sig in merged["violations"]:
                    merged["violations"][sig]["count"] += v["count"]
                else:
                    merged["violations"][sig] = v
            merged["overflow"] += s.get("violation_overflow", 0)
            merged["harness_bugs"] += (s.get("harness_bugs") or [])
            for k, v in (s.get("notes") or {}).items():
                if k.startswith("xproc:"):
                    xproc.setdefault(k, {}).setdefault(json.dumps(v, sort_keys=True), []).append(s["shard"])
                else:
                    merged["notes"][k] = v
            for k, v in (s.get("exhaustive") or {}).items():
                merged["exhaustive"][k] = v
        for d in r.deaths:
            if d["kind"] == "death":
                sig = d["sig"]
                merged["monitor_events"]["child_deaths"] = merged["monitor_events"].get("child_deaths", 0) + 1
                if sig in merged["violations"]:
                    merged["violations"][sig]["count"] += 1
                else:
                    merged["violations"][sig] = {
                        "sig": sig, "what": "child process died while running the case (%s)" % sig,
                        "case_id": d["case_id"], "case_n": d["case_n"], "count": 1,
                        "detail": {"input": d["input"].decode("utf-8", "replace")[:20000], "stderr_head": d["stderr_head"],
                                   "rc": d["rc"]}}
    # cross-process agreement of recorded digests
    for k, vals in xproc.items():
        merged["monitor_events"]["xproc_keys"] = merged["monitor_events"].get("xproc_keys", 0) + 1
        if len(vals) > 1:
            sig = "xproc-differs/" + k[len("xproc:"):]
            merged["violations"][sig] = {"sig": sig, "what": "value recorded for %s differs between worker processes: %s" % (
                k, {v: sh for v, sh in vals.items()}), "case_id": cfg.get("xproc_case", {}).get(k, ""), "case_n": 0, "count": 1,
                "detail": {"values": {v: sh for v, sh in vals.items()}}}
    if race:
        collect_race_reports(outdir, merged)
    hook = cfg.get("post")
    if hook:
        hook(merged, outdir, results, inconclusive)

    distinct = merge_bitmaps(bitmaps)
    if merged["harness_bugs"]:
        inconclusive.append("harness bug(s): " + merged["harness_bugs"][0][:300])
    # coverage floors
    if not only:
        for f in cfg.get("floors", []):
            if merged["features"].get(f, 0) == 0:
                inconclusive.append("coverage floor missed: feature %s never observed" % f)

    # ---- verdict --------------------------------------------------------------------
    known = load_known()
    new_viol = []
    known_seen = {}
    for sig, v in sorted(merged["violations"].items()):
        k = match_known(known, prop, sig)
        if k is not None:
            e = known_seen.setdefault(k["signature"], {"what": k.get("what", ""), "count": 0, "signatures": []})
            e["count"] += v["count"]
            e["signatures"].append(sig)
        else:
            new_viol.append(v)
    lines = []
    for ksig, e in sorted(known_seen.items()):
        lines.append("KNOWN-FINDING: property=%s %s [%s] (observed %d×)" % (prop, e["what"], ksig, e["count"]))
    rdir = os.path.join(VERIF, "replay", prop)
    if os.environ.get("VERIF_EVIDENCE_DIR"):
        rdir = os.path.join(os.environ["VERIF_EVIDENCE_DIR"], "replay", prop)
    if replay_meta is None and repo == "/repo":
        shutil.rmtree(rdir, ignore_errors=True)  # replay files describe the latest run only
    for v in new_viol:
        os.makedirs(rdir, exist_ok=True)
        path = os.path.join(rdir, sanitize(v["sig"]) + ".json")
        if replay_meta is None:
            with open(path, "w") as fh:
                json.dump({"property": prop, "seed": seed, "tier": tier, "case_id": v["case_id"], "signature": v["sig"],
                           "what": v["what"], "count": v["count"], "detail": v.get("detail"),
                           "repo": repo}, fh, indent=1, default=str)
        else:
            path = replay_meta
        lines.append("VIOLATION property=%s replay=%s" % (prop, path))
        lines.append("  signature: %s" % v["sig"])
        lines.append("  what: %s" % v["what"][:600].replace("\n", "\n        "))
    if merged["overflow"]:
        lines.append("  (+%d violations beyond the per-shard signature cap)" % merged["overflow"])
    for why in inconclusive:
        lines.append("INCONCLUSIVE property=%s %s" % (prop, why))

    wall_s = time.time() - t0
    if not only:
        write_evidence(prop, cfg, tier, seed, merged, distinct, known_seen, new_viol, inconclusive, wall_s, nshards)
    for ln in lines:
        print(ln)
    print("%s: %d cases, %d evaluations, %d distinct non-trivial (lower bound), %d new violation signature(s), %d known finding(s), %.1fs" % (
        prop, merged["cases"], merged["evaluations"], distinct, len(new_viol), len(known_seen), wall_s))
    if new_viol:
        return 1
    if inconclusive:
        return 2
    return 0


def write_evidence(prop, cfg, tier, seed, merged, distinct, known_seen, new_viol, inconclusive, wall_s, nshards):
    cov = {
        "evaluations": int(merged["evaluations"]),
        "distinct_nontrivial": int(min(distinct, merged["nontrivial"])),
        "nontrivial_evaluations": int(merged["nontrivial"]),
        "rule": cfg["rule"] + " distinct_nontrivial is a lower bound: number of distinct 26-bit buckets of the structural hash of the non-trivial cases, OR-ed over all worker processes.",
        "samples": merged["samples"] or ["(no sample recorded)"],
        "cases": int(merged["cases"]),
        "worker_processes": nshards,
        "features": dict(sorted(merged["features"].items())),
        "monitor_events": dict(sorted(merged["monitor_events"].items())),
        "known_findings_seen": {k: {"count": v["count"], "what": v["what"]} for k, v in known_seen.items()},
        "new_violation_signatures": [v["sig"] for v in new_viol],
        "inconclusive": inconclusive,
        "verdict": "violated" if new_viol else ("inconclusive" if inconclusive else "held on what was observed"),
    }
    if merged["notes"]:
        cov["notes"] = merged["notes"]
    if merged["exhaustive"]:
        cov["exhaustive_subspaces"] = sorted(merged["exhaustive"].keys())
    ev = {
        "property_id": prop,
        "tier": tier,
        "seed": int(seed),
        "level": "exploration",
        "coverage": cov,
        "assumptions": cfg.get("assumptions", []),
        "wall_s": round(wall_s, 2),
        "violations": len(new_viol),
    }
    os.makedirs(os.path.join(VERIF, "evidence"), exist_ok=True)
    path = os.path.join(VERIF, "evidence", prop + ".json")
    if B.repo_dir() != "/repo":
        # runs against scratch copies (mutant validation) must not overwrite the evidence of /repo
        path = os.path.join(VERIF, "runs", B._tag(B.repo_dir()), prop + ".evidence.json")
    if os.environ.get("VERIF_EVIDENCE_DIR"):
        # runs against /repo with a seeded change applied (driver.seeded): the committed evidence describes the unchanged tree only
        os.makedirs(os.environ["VERIF_EVIDENCE_DIR"], exist_ok=True)
        path = os.path.join(os.environ["VERIF_EVIDENCE_DIR"], prop + ".json")
    with open(path + ".tmp", "w") as fh:
        json.dump(ev, fh, indent=1, sort_keys=False, default=str)
    os.replace(path + ".tmp", path)
