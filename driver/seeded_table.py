"""python3 -m driver.seeded_table : markdown table of /verif/seeded/RESULTS.json for DESIGN.md §7"""
import json
import os

VERIF = os.path.dirname(os.path.dirname(os.path.abspath(__file__)))


def main():
    import io
    import sys
    res = json.load(open(os.path.join(VERIF, "seeded", "RESULTS.json")))
    buf = io.StringIO()
    _stdout = sys.stdout
    sys.stdout = buf
    print("| seeded change | what it breaks (trigger) | own check | signatures (first) |")
    print("|---|---|---|---|")
    for name in sorted(res):
        r = res[name]
        meta = json.load(open(os.path.join(VERIF, "seeded", name, "meta.json")))
        own = r.get("checks", {}).get(r["property"], {})
        sigs = "; ".join(own.get("signatures", [])[:2])
        others = [k for k in r.get("detected_by", []) if k != r["property"]]
        summ = (meta.get("summary", "") or "").replace("|", "/").replace("\n", " ")
        if len(summ) > 230:
            summ = summ[:227] + "…"
        verdict = {1: "**fires**", 0: "silent", 2: "inconclusive", 3: "no build"}.get(own.get("exit"), "?")
        print("| %s | %s | %s | `%s` |" % (name, summ, verdict, sigs[:140]))
    sys.stdout = _stdout
    table = buf.getvalue()
    fired = sum(1 for r in res.values() if r.get("checks", {}).get(r["property"], {}).get("exit") == 1)
    table = "%d seeded changes, %d reported by the check of their property.\n\n" % (len(res), fired) + table
    if "--write" in sys.argv:
        p = os.path.join(VERIF, "DESIGN.md")
        s = open(p).read()
        a, b = "<!-- seeded-table:begin -->", "<!-- seeded-table:end -->"
        i, j = s.index(a) + len(a), s.index(b)
        s = s[:i] + "\n" + table + s[j:]
        open(p, "w").write(s)
        print("DESIGN.md updated: %d changes, %d fired" % (len(res), fired))
    else:
        print(table)


if __name__ == "__main__":
    main()
