"""python3 -m driver.seeded_table : markdown table of /verif/seeded/RESULTS.json for DESIGN.md §7"""
import json
import os

VERIF = os.path.dirname(os.path.dirname(os.path.abspath(__file__)))


def main():
    res = json.load(open(os.path.join(VERIF, "seeded", "RESULTS.json")))
    print("| seeded change | what it breaks (trigger) | own check | signatures (first) | other checks that fire |")
    print("|---|---|---|---|---|")
    for name in sorted(res):
        r = res[name]
        meta = json.load(open(os.path.join(VERIF, "seeded", name, "meta.json")))
        own = r.get("checks", {}).get(r["property"], {})
        sigs = "; ".join(own.get("signatures", [])[:2])
        others = [k for k in r.get("detected_by", []) if k != r["property"]]
        summ = (meta.get("summary", "") or "").replace("|", "/").replace("\n", " ")
        if len(summ) > 230:
            summ = summ[:227] + "…"
        verdict = {1: "**fires**", 0: "silent", 2: "inconclusive", 3: "no build"}.get(own.get("exit"), "?")
        print("| %s | %s | %s | `%s` | %s |" % (name, summ, verdict, sigs[:140], ", ".join(others) or "—"))


if __name__ == "__main__":
    main()
