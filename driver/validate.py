"""Validate MANIFEST.json and evidence files against the schemas (needs jsonschema: python3-vt)."""
import json, sys, glob
import jsonschema
ok = True
m = json.load(open('/verif/MANIFEST.json'))
jsonschema.validate(m, json.load(open('/root/.vp/MANIFEST.schema.json')))
es = json.load(open('/root/.vp/EVIDENCE.schema.json'))
for f in sorted(glob.glob('/verif/evidence/*.json')):
    try:
        jsonschema.validate(json.load(open(f)), es)
    except Exception as e:
        ok = False
        print("INVALID", f, str(e)[:300])
print("valid" if ok else "invalid")
sys.exit(0 if ok else 1)
