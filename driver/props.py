"""Per-property configuration of the driver: worker count, race build, coverage
floors (features that a run must have observed, otherwise it is inconclusive),
the non-triviality rule written into the evidence, assumptions."""

COMMON_ASSUMPTIONS = [
    "the go toolchain, the Go race detector and the protobuf/protovalidate/protocompile libraries behave as documented",
    "the worker is built from the repository's current working tree with harness files ADDED through a go build overlay (tag verif); no repository file is replaced",
    "verdict is about the executions observed in this run only",
]

_SCALARS = ["string", "key", "bool", "int32", "sint32", "int64", "sint64", "uint32", "uint64", "float", "double", "bytes", "timestamp", "date", "decimal"]
CODEC_FLOORS = ["v:%s@%s" % (k, p) for k in _SCALARS for p in ["singular", "optional", "array", "map", "oneof-arm", "flattened", "depth3"]]

PROPS = {
    "C20": {
        "level_text": 'The real id62 package is executed on boundary identifiers (all-zero, all-one, single bits, leading-zero-byte counts, 62^k±2, 2^128-1), 10^6 (quick) / 10^8 (thorough) PRNG-uniform identifiers and systematic + random strings; oracles: length 22, published pattern, Parse(String(id)) == id, positional base-62 reference for Parse, rejection of values >= 2^128, no panic, NewHash equal across calls, goroutines and worker processes.',
        "level_note": 'Sampling of a 2^128 space plus boundaries; trusts math/big as positional reference with digit values derived from single-character parses.',
        "shards": 8,
        "rule": "cases: boundary identifiers (all-zero, all-one, each single bit and its complement, every leading-zero-byte count, 62^k±2, digit boundaries, 2^128-1..-4), PRNG-uniform identifiers, systematic and random strings offered to Parse, NewHash argument lists; every case is non-trivial; distinct by hash of the identifier bytes / the string.",
        "floors": ["id:compiled-positions", "id:all-zero", "id:all-one", "id:single-bit", "id:leading-zero-bytes", "id:power-of-62", "id:max",
                   "id:uniform", "str:systematic", "str:random", "str:too-large", "str:fits", "hash:pure"],
        "assumptions": COMMON_ASSUMPTIONS + [
            "the digit value of each alphanumeric character is taken from the implementation (Parse of a 1-character string) and required to be a bijection onto 0..61; positional evaluation with math/big is the reference",
        ],
        "xproc_case": {"xproc:newhash-digest": "hash/pure"},
    },
    "C11": {
        "level_text": 'Bounded-exhaustive token strings (<=4 quick, <=5 thorough lexemes over a 32-symbol alphabet), repository files with token-level mutations/truncations, grammar-directed and random Unicode inputs, each parsed in fail-fast and collect-all mode inside a journalled child; oracles: no panic/death, CPU work bound, exactly one of tree / non-empty diagnostics, every tree node and diagnostic position inside the input with start <= end, first diagnostic equal in both modes, HumanString(0..3) renders.',
        "level_note": 'Exhaustive only for the stated token-string sub-space; everything else is sampled. Termination is judged by a CPU work bound, not proven.',
        "shards": 16,
        "rule": "cases: every string of <=4 (quick) / <=5 (thorough) lexemes over a 32-symbol alphabet (one or two lexemes per token kind plus error-prone fragments), joined by single spaces (every 10th also unseparated); every .j5s/.bcl file of the repository with token-level mutations and truncations; grammar-directed generated files with mutations and truncations; random Unicode incl. invalid UTF-8; hand-written edge cases. Each input is parsed in both modes. Every input counts as non-trivial; distinct by hash of the input text.",
        "floors": ["c11:exhaustive", "c11:repo-file", "c11:generated", "c11:random", "c11:edge", "c11:long-file", "c11:accepted", "c11:rejected", "c11:multi-diagnostic"],
        "assumptions": COMMON_ASSUMPTIONS + [
            "'inside the input' means: line index < number of '\\n'-separated lines and column <= number of characters of that line (the slot after the last character is where EOL/EOF diagnostics point)",
            "termination is judged by a CPU work bound of 2s + 50us per input byte per call; a wall-clock watchdog only yields 'inconclusive'",
        ],
    },
    "C09": {
        "level_text": "Every input the parser accepts from a systematic product of token kinds x grammatical positions, the repository's .j5s/.bcl files and grammar-directed random files is formatted; oracles: Fmt succeeds, output re-parses, position-free tree and comment sequence equal, Fmt(Fmt(x)) == Fmt(x).",
        "level_note": "Equality of documents is judged on the parser's own tree (projection listed in the evidence assumptions); inputs are generated, not all texts.",
        "needs_cli": True,
        "shards": 16,
        "rule": "cases: systematic products (every value/literal kind x key x operator x trailing comment; every tag/mark/qualifier form x every header ending; description, comment and blank-line layouts), every .j5s/.bcl file of the repository, grammar-directed generated files (strings with every escapable and non-ASCII character, regexes with slashes, nested arrays, block comments, multi-line descriptions, arbitrary indentation) and token-level mutations of them; only inputs the parser accepts are evaluated. Non-trivial = the accepted document has at least one statement; distinct by hash of the input text.",
        "floors": ["c09:cli-write", "fmt:systematic", "fmt:repo-file", "fmt:generated", "c09:accepted", "c09:string-escape", "c09:escaped-newline", "c09:non-ascii", "c09:block-comment", "c09:description", "c09:array", "c09:blank-lines", "c09:comments"],
        "assumptions": COMMON_ASSUMPTIONS + [
            "document equality is judged on the parser's own tree projected to: block type, tags with marks, qualifiers, nesting, assignment key/operator/literal kind+value (arrays recursively), descriptions as words and paragraph breaks; comments are compared as the re-lexed sequence of comment tokens (trailing blanks of line comments ignored)",
            "whether a block was written with an empty body or without a body is not judged",
        ],
    },
    "C19": {
        "level_text": "Same input space as C09; for every input the formatter accepts FmtDiffs must return, edits must be ascending, non-overlapping, within 0 <= from <= to <= #lines, and the harness's own line-edit applier must reproduce Fmt(x) up to trailing blank lines. The same document is then sent through the language server's formatter (genlsp, via an export shim) and its LSP text edits are applied with protocol semantics (a position past the last line is the end of the document); the result must again equal Fmt(x). A quarter of the multi-line inputs is run a second time with CRLF line ends.",
        "level_note": 'The edit applier is harness code modelled on internal/bcl/genlsp/format.go; inputs are generated, not all texts.',
        "shards": 16,
        "rule": "same input space as C09; only inputs the formatter accepts are evaluated. Non-trivial = input is not blank; distinct by hash of the input text.",
        "floors": ["fmt:systematic", "fmt:repo-file", "fmt:generated", "c19:accepted", "c19:class:crlf", "c19:has-edits", "c19:multi-edit", "c19:escaped-newline", "c19:block-comment", "c19:description", "c19:blank-lines"],
        "assumptions": COMMON_ASSUMPTIONS + [
            "edits are applied the way the LSP server hands them to editors (internal/bcl/genlsp/format.go): an edit replaces the text from the start of line From to the start of line To, positions past the last line clamp to the end of the document, all edits refer to the original document; number of lines = number of '\\n' + 1",
        ],
    },
    "C01": {
        "level_text": "The real codec (through lib/j5codec) encodes and decodes generated messages of generated types: a systematic type holding every scalar format in every container position populated from boundary-value tables, random messages, random J5-subset .proto files compiled through the repository's protosrc; oracle: encode succeeds, decode of the output succeeds, decode(encode(m)) == m under the statement's normalisation (decimals numerically, empty flattened object == absent, Any by decoded content).",
        "level_note": "Generated types and values, not all; value generator and normaliser are harness code driven by the harness's own type model.",
        "shards": 16,
        "rule": "cases: (1) the systematic 'sink' type (every scalar format in singular/optional/array/map/oneof-arm/flattened/depth>=3 position, enums, objects, three kinds of oneof wrapper, exposed oneof, both Any kinds, recursion) populated from per-kind boundary value tables at every table index; (2) random messages of the sink types; (3) random J5-subset .proto files compiled through protosrc with systematic + random messages of every message type; (4) types compiled from generated j5s (in-memory and printed-text path). Non-trivial = message with >=1 set field; distinct by hash of (type, deterministic serialisation).",
        "floors": CODEC_FLOORS + ["codec:random-model"],
        "assumptions": COMMON_ASSUMPTIONS + [
            "equality is proto.Equal after the normalisation the statement allows: decimals compared numerically, set-but-empty flattened sub-message == absent, Any compared by type name + decoded inner message",
            "messages are populated through dynamicpb from descriptors linked with protodesc.NewFiles",
        ],
    },
    "C08": {
        "level_text": "On the same executions every encoder output is parsed with the harness's strict RFC 8259 parser (single document, escapes, number grammar, no duplicate keys) and compared with a reference rendering of the documented wire format computed from the type model by harness code; out-of-domain values (NaN/Inf, out-of-range dates/timestamps, malformed decimals, invalid UTF-8, undefined enum numbers) are judged for well-formedness only.",
        "level_note": 'Reference renderer is harness code following the README table; member order and the number of fraction digits of timestamps are not judged.',
        "shards": 16,
        "rule": "same executions as C01 (encode side); every encoder output is re-read with the harness's strict RFC 8259 parser and compared, member order aside, with a reference rendering computed from the type model and the message by harness code. Non-trivial = message with >=1 set field; distinct by hash of (type, deterministic serialisation).",
        "floors": CODEC_FLOORS + ["codec:random-model", "c08:nonfinite", "c08:date-range"],
        "assumptions": COMMON_ASSUMPTIONS + [
            "reference rendering follows README 'Scalar Types', 'Oneof', 'Enum': 32-bit ints/floats/bools bare, 64-bit ints and decimals quoted, bytes padded std base64, timestamps RFC 3339 ending in Z denoting the same instant (fraction digits not judged), dates zero-padded YYYY-MM-DD, enums short name; floats judged by 'bare literal parsing back to the same value'",
        ],
    },
    "C03": {
        "shards": 16,
        "level_text": "For generated messages of the C01 type space the canonical encoding is re-spelled with every documented variation (quoted/bare numbers incl. 64-bit and decimal, std/URL base64 with/without padding, enum names with prefix, RFC 3339 timestamps at other offsets and fraction widths, member order, whitespace, explicit null for absent members, scalars as URL query parameters) alone and in random combinations - each must decode without error to the same message - and with exactly one fault of each listed class at every position kind - each must be rejected with an error.",
        "level_note": "Only the spellings and fault classes the statement lists are judged; the typed walk that finds the sites and the expected equality are harness code over the harness's type model.",
        "rule": "cases: messages of the systematic sink type, random sink messages, random J5-subset models, a digit-free 'query' type; per message: every applicable (variation x site) alone (sampled after 3 repetitions per (variation, kind, position) per worker), 3 random combinations, every applicable (fault x site). Non-trivial = message with >=1 set field; distinct by hash of (type, deterministic serialisation).",
        "floors": ["c03:systematic", "c03:random-model", "c03:query-single", "c03:query-random", "c03:reorder", "c03:whitespace", "c03:explicit-null"]
            + ["c03:variant:" + v for v in ["number-quoted", "number-bare", "base64-std-nopad", "base64-url-pad", "base64-url-nopad", "enum-prefixed", "timestamp-offset", "timestamp-fraction", "query"]]
            + ["c03:variant-pos:" + p for p in ["top", "nested", "array", "map", "oneof-arm"]]
            + ["c03:fault:" + f for f in ["wrong-json-type", "out-of-range-number", "unparsable-number", "invalid-base64", "invalid-date", "invalid-decimal", "invalid-timestamp", "unknown-enum-name", "unknown-key", "two-keys-in-oneof", "type-contradicts-key"]]
            + ["c03:fault-pos:" + p for p in ["top", "nested", "array", "map", "oneof-arm"]],
        "assumptions": COMMON_ASSUMPTIONS + [
            "the canonical document is the encoder's output (checked by C08); variations and faults are applied on its parsed tree along the harness's type model",
            "explicit nulls are added for absent members of objects (incl. flattened members and exposed oneofs), not inside oneof bodies",
            "query parameters are built from the canonical document: top-level scalars, dotted paths into nested objects, repeated values for arrays of scalars, spelled as a query string and re-parsed with net/url",
        ],
    },
    "C06": {
        "shards": 16,
        "level_text": "JSONToProto and QueryToProto are called in journalled child processes on hostile inputs for every modelled type (incl. self-recursive ones): every value site of canonical documents replaced by null/true/0/\"\"/[]/{}/[null]/{\"a\":null}/..., !type-only and odd oneof and Any bodies, duplicate keys, every prefix truncation, 400-digit and huge-exponent numbers, nesting 10..20000 deep, malformed JSON, random bytes, random JSON of the wrong shape; url.Values with empty keys, dotted paths into every field kind, repeated values. Oracle: the call returns success or an error - no panic, no fatal error, CPU time under 2s + 50us/byte.",
        "level_note": "Totality is observed on generated inputs, not proven; 'no hang' is a CPU work bound; deep (input-proportional) recursion is allowed up to a 768 MiB stack.",
        "rule": "every (type, input) pair counts as non-trivial unless it is the canonical encoding; distinct by hash of (type, input bytes).",
        "floors": ["c06:canonical", "c06:replace-value", "c06:null:top", "c06:null:nested", "c06:null:array", "c06:null:map", "c06:null:oneof-arm", "c06:type-only-oneof", "c06:odd-any", "c06:huge-number", "c06:duplicate-key", "c06:truncated", "c06:malformed", "c06:deep-nesting", "c06:random-bytes", "c06:random-json", "c06:wrong-shape", "c06:query-single", "c06:query-repeated", "c06:query-random"],
        "assumptions": COMMON_ASSUMPTIONS + [
            "termination is judged by a CPU work bound of 2s + 50us per input byte per call (measured with getrusage in the child); a wall-clock watchdog only yields 'inconclusive'",
        ],
    },
    "C10": {
        "shards": 8,
        "race": True,
        "gomaxprocs": 16,
        "level_text": "The worker is built with -race. Hundreds (quick) / tens of thousands (thorough) of short trials: a fresh codec (or, in every worker process, the package-level Global codec on its very first use; or a warm codec) is shared by 2-32 goroutines released by a barrier, each running a PRNG-determined sequence of encode / decode / query-decode / schema-lookup calls over a type pool built to collide in the schema cache (types sharing sub-schemas, self- and mutually recursive types, disjoint types, generated Go types and dynamicpb types), GOMAXPROCS in {2,4,16}, random yields. Monitors: race-detector reports (any report = violation), child death (concurrent map writes, deadlock), per-call result equal to the same call run alone, porcupine linearizability check of the recorded history (codec = pure function, schema cache = write-once register per type name).",
        "level_note": "The race detector only sees the interleavings that happened; schedules are sampled, not enumerated. Checker timeouts and the trial watchdog are inconclusive, never violations.",
        "technique": "runtime monitoring: Go race detector + recorded call histories checked offline (sequential-equivalence per call, porcupine linearizability) over stress trials in journalled child processes",
        "rule": "one evaluation per trial; non-trivial = at least one pair of calls by different goroutines overlapped in real time; distinct by hash of (mode, goroutine count, completion order of all calls) - i.e. distinct observed interleavings.",
        "floors": ["c10:churn", "c10:mode:fresh", "c10:mode:warm", "c10:mode:global", "c10:gomaxprocs:2", "c10:gomaxprocs:16", "c10:goroutines:2", "c10:goroutines:32"],
        "assumptions": COMMON_ASSUMPTIONS + [
            "race reports are read from the GORACE log files of every child and deduplicated by the pair of innermost repository frames",
            "results are compared as digests of canonical JSON (members sorted: map iteration order is not a property of the codec) and of deterministic proto serialisations",
        ],
        "wall_timeout": {"quick": 1200, "thorough": 7200},
    },
    "C18": {
        "shards": 16,
        "level_text": "Arbitrary proto3 files are generated as text and linked through protocompile: a systematic matrix (every scalar kind incl. fixed/sfixed, every well-known and j5 type, enums with and without _UNSPECIFIED, in singular/optional/repeated/map/oneof/exposed-oneof position; every (j5.ext.v1.*)/(buf.validate.field)/(j5.list.v1.field) option snippet on fields of 15 kinds x 3 cardinalities whether or not it fits; recursion, flatten and wrapper shapes incl. self- and mutually-flattening messages) plus random files. SchemaSetFromFiles, SchemaCache.Schema and Reflector.NewRoot run in journalled children. Oracle: schema or error (never panic / fatal stack overflow / CPU overrun / nil,nil); on success every recorded proto path resolves to a field of the matching kind, member names are unique, and the codec encodes and decodes an empty and a populated message of the type.",
        "level_note": "Files the generator writes but protocompile rejects are outside the quantified space and only counted. Kind matching is the harness's table from J5 schema type to proto kinds.",
        "rule": "one evaluation per generated file that links; every file is non-trivial; distinct by hash of the source text.",
        "floors": ["c18:systematic-type", "c18:systematic-option", "c18:systematic-shape", "c18:random"],
        "assumptions": COMMON_ASSUMPTIONS + [
            "populated messages hold representable values only (valid dates, decimals, finite floats, defined enum numbers); Any fields are left empty",
        ],
    },
    "C07": {
        "shards": 16,
        "level_text": "CompilePackage, LintFile and LintAll run in journalled children over in-memory bundles: (1) an isolation matrix of several hundred single-feature packages (every field type x qualifier form x array/map, every rule kind on every field type, every list rule, references, inline types, declarations, services with every HTTP method, topics, entities, import forms, multi-file and proto<->j5s packages), each in a package that contains nothing else - every one must compile and link; (2) random multi-package bundles of the documented language - must compile; (3) semantic-fault files, token-level mutations, truncations and random text - no panic, no fatal error, CPU work bound; every diagnostic that names a source file of the bundle must point inside that file.",
        "level_note": "'Documented language' is what README.md, internal/j5s/README.md, J5SchemaSpec + the j5.schema.v1/j5.sourcedef.v1 protos and the repository's tests show; generator productions were calibrated against the repository's own parser. Diagnostics about generated .j5s.proto files (protobuf linker) are counted, not judged.",
        "rule": "one evaluation per bundle; every bundle is non-trivial; distinct by hash of the concatenated sources.",
        "floors": ["c07:isolation", "c07:random-valid", "c07:random-ruled", "c07:random-entity", "c07:random-api", "c07:semantic-fault", "c07:token-mutation", "c07:truncation", "c07:random-text"],
        "assumptions": COMMON_ASSUMPTIONS + ["bundles are served through an in-memory LocalFileSource and an empty DependencySet, the interfaces the j5 CLI uses"],
    },
    "C14": {
        "shards": 16,
        "level_text": "Each bundle (isolation matrix + random multi-file multi-package bundles biased to map-valued options, many imports and dependencies) is compiled and printed under 12 configurations - repeated runs, fresh vs reused PackageSet, reversed / shuffled order of CompilePackage calls, reversed / shuffled file and package listings, compiled twice on one set, after an unrelated bundle - and the SHA-256 of the deterministic serialisation of every FileDescriptorProto and of every printed text must be the same in all of them; in addition every worker process (16 processes, each with its own map iteration seeds) compiles the same fixed bundles and the recorded digests are compared across processes by the driver.",
        "level_note": "Determinism is observed over the configurations listed, in 16 processes per run; Go's map iteration order differs per range statement, so repetition inside a process already exposes most order dependence.",
        "rule": "one evaluation per bundle (12 configurations each); non-trivial = bundle with more than one source file; distinct by hash of the concatenated sources.",
        "floors": ["c14:cross-process", "c14:earlier-compiles", "c14:isolation", "c14:random"] + ["c14:config:" + c for c in ["baseline", "repeat", "reused-packageset", "reused-reverse-package-order", "reused-shuffled-package-order", "reversed-file-listing", "shuffled-file-listing", "compiled-twice-on-one-set", "after-unrelated-bundle"]],
        "assumptions": COMMON_ASSUMPTIONS,
    },
    "C13": {
        "shards": 16,
        "level_text": "Histories P0 -> e1 -> P1 ... (1-6 append edits: field appended to an object / oneof / request / response / topic message / entity data / event, enum option or entity status appended, method appended to a service, event appended to an entity, top-level declaration appended to a file, file appended to a package) are generated over random bundles and entity bundles; every version is compiled by the real compiler and recorded as an identity table (message, field name/number/type/label/JSON name/proto3-optional, enum value name/number, service, method input/output/HTTP rule); an offline checker over the recorded history requires identity(P_i) to be contained unchanged in identity(P_j) for all i < j, and every intermediate version to compile.",
        "level_note": "Edits are drawn from the statement's list only; comparison is on descriptors as the compiler returns them.",
        "rule": "one evaluation per history; non-trivial = the first version has at least one element; distinct by hash of (first version sources, edit sequence).",
        "floors": ["c13:edit:" + e for e in ["object-field", "oneof-option", "enum-option", "request-field", "response-field", "topic-field", "entity-data", "entity-status", "event-field", "top-level-declaration", "new-file"]],
        "assumptions": COMMON_ASSUMPTIONS,
    },
    "C05": {
        "shards": 16,
        "level_text": "Every file compiled from the isolation matrix (all annotations one at a time), from option-value and name-scoping stress bundles, from random decorated bundles (descriptions with quotes, backslashes, unicode, paragraphs) and every hand-written .proto under the repository's proto/ tree is printed with protoprint.PrintFile, all printed files of a bundle are parsed and linked together through protosrc/protocompile, and the result is compared element by element with the original descriptor after the projection the statement lists (synthetic oneofs dropped, default JSON names filled in, empty options == absent, options compared by content, leading comments by element path); the re-parsed file is printed again and must reproduce the text byte for byte.",
        "level_note": "The projection (canonFile) and the element-wise differ are harness code; protocompile is trusted as the parser of record.",
        "rule": "one evaluation per printed file; non-trivial = printed text longer than 60 bytes; distinct by hash of the printed text.",
        "floors": ["c05:synthetic-options", "c05:isolation", "c05:option-values", "c05:scoping", "c05:random", "c05:repo-proto", "c05:comments"],
        "assumptions": COMMON_ASSUMPTIONS,
    },
    "C02": {
        "shards": 16,
        "level_text": "Bundles are generated together with an independent expected contract (harness code: own snake/camel conversion, own numbering, own nesting and naming rules read from the documentation) and compiled in memory by the real compiler; the observed FileDescriptorProtos are compared element by element: file names and packages, required imports, messages / enums / services and their nesting, per field name, JSON name, number (1-based position after implicit leading fields), type, resolved type name, repeated, proto3-optional, oneof membership, map-entry shape, enum values, service / topic names, request / response / message types, HTTP verb, path with :name -> {snake_name}, body, messaging role and topic name.",
        "level_note": "The expected model covers objects, oneofs, enums, services and topics; entity expansion is C17's subject (files holding entities are compared as 'contains at least'). The service name of upsert topics is matched by role because README and statement do not agree on a name.",
        "rule": "one evaluation per bundle; non-trivial = more than one file, a reference / inline type, a service or topic, or an object with >= 8 fields; distinct by hash of the concatenated sources.",
        "floors": ["c02:isolation", "c02:random"],
        "assumptions": COMMON_ASSUMPTIONS + ["identifiers are drawn from word lists whose case conversion is unambiguous (fooId <-> foo_id)"],
    },
    "C12": {
        "shards": 16,
        "level_text": "Single-field objects carrying every rule of the statement's list (systematic: per field type each rule at absent / zero / boundary / typical values, both values of every boolean, plain / required / optional; plus random combinations) are compiled by the real compiler; dynamic messages of the compiled types are populated with candidate values around every boundary the rules induce (below / at / above each bound, shortest / longest strings incl. multi-byte, matching / non-matching patterns, undefined enum numbers, absent vs zero) and validated with bufbuild/protovalidate-go; the verdict must equal the harness's own evaluation of the declared rules.",
        "level_note": "The reference evaluator is harness code implementing JSON-schema style inclusivity and protovalidate's presence semantics (a field without presence holding its zero value is absent for 'required', rules apply to zero values; unset fields with presence skip their rules).",
        "rule": "one evaluation per (declaration, candidate value); non-trivial = the candidate sets the field; distinct by hash of (declaration text, candidate).",
        "floors": ["c12:systematic:" + k for k in ["string", "key", "integer", "bytes", "bool", "enum", "array"]] + ["c12:random:random"],
        "assumptions": COMMON_ASSUMPTIONS,
    },
    "C04": {
        "shards": 16,
        "level_text": "For the isolation matrix (every rule and annotation one at a time), random rule-laden objects (each rule at absent / zero / boundary / typical values, both values of every boolean) and random bundles, the harness builds the j5.schema.v1 schema the source declares (own code) and compares it with RootSchema.ToJ5Root() of what the repository reflects back from the compiled descriptors through three paths: SchemaCache.Schema on the in-memory descriptors, SchemaSetFromFiles, and SchemaCache.Schema on the printed .proto text re-compiled through protosrc.",
        "level_note": "Normalisation (both sides): inline types are refs to the nested name, absent Rules == empty Rules, empty Ext ignored, exclusive/unique flag false == absent, map key schema ignored, descriptions trimmed.",
        "rule": "one evaluation per compiled package; every package with at least one declared schema is non-trivial; distinct by hash of the sources.",
        "floors": ["c04:isolation", "c04:random-rules", "c04:random-bundle"],
        "assumptions": COMMON_ASSUMPTIONS,
    },
    "C15": {
        "shards": 16,
        "level_text": "Descriptor sets from four generators (the j5s isolation matrix, random rule-laden j5s objects and random j5s bundles — both as compiled in memory and as printed .proto text re-read through protosrc — annotated hand-shaped raw .proto over three packages with cross-package references, three-deep nesting, enums reached only through fields, recursion, psm / any_member / enum info / list annotations in random subsets, and the G-PROTO J5-subset models) are pushed through the real entry points structure.APIFromImage -> j5schema.PackageSetFromSourceAPI -> RootSchema.ToJ5Root. The monitor compares the first and the second exported form schema by schema with proto.Equal (naming the first differing path), checks the name sets are equal, that every reference in the exported form points at an exported schema, walks the imported Go schema objects for unlinked or mislinked references, and pushes the second form through import/export once more (fixed point).",
        "level_note": "What the first export carries is judged by C04; C15 judges only what survives export -> import -> export. Features observed in the first export (enum info, entity markers, any-membership, list rules per field kind, cross-package references, recursion, nested types) are recorded so that a run which never exercised them is inconclusive.",
        "rule": "one evaluation per exported API; non-trivial when it holds at least one schema; distinct by hash of the serialised API.",
        "floors": ["c15:j5s-isolation/memory", "c15:j5s-rules/memory", "c15:j5s-bundle/memory", "c15:j5s-bundle/text", "c15:raw-annotated", "c15:raw-model",
                   "c15:saw/enum-info-fields", "c15:saw/enum-option-info", "c15:saw/entity-marker", "c15:saw/any-member", "c15:saw/cross-package-ref",
                   "c15:saw/self-recursive", "c15:saw/nested-type", "c15:saw/list-rules/oneof", "c15:saw/list-rules/any", "c15:saw/list-rules/enum", "c15:saw/key-entity", "c15:saw/flatten"],
        "assumptions": COMMON_ASSUMPTIONS,
    },
    "C16": {
        "shards": 16,
        "level_text": "j5s bundles (the isolation matrix; one service per scalar type with that type in path, query, body and response position; API-shaped bundles of one or two packages with services over every verb and 0-2 path parameters of varying type and position, methods without response, list methods over items that carry every list rule and are self-, array-, mutually or oneof-recursive, topics and 1-2 random entities; random bundles) are compiled and pushed through the entry points `j5 verify` / `j5 schema` / buildlib use: structure.APIFromImage, j5client.APIFromSource, structure.ResolveProse, j5codec ProtoToJSON of the source and the client API, export.BuildSwagger + json.Marshal, export.FromProto + json.Marshal. Each stage runs under recover; a stage error or panic is a violation naming the stage; every rendering is parsed by the harness's own strict JSON parser; a fatal stack overflow kills the worker and is attributed by the driver through the journal. The client API is then compared with the declaration: services and methods (names, order), verb, path, path parameters naming request properties, query/body split by verb, response presence and fields, entities listed with their command services, every reference anywhere in the client API resolving to a schema the client API holds, and every client method present as an operation in the OpenAPI document.",
        "level_note": "List-request contents (which fields the client lists as filterable/sortable/searchable) are recorded as coverage only: the property does not state them.",
        "rule": "one evaluation per bundle that compiles; non-trivial when the bundle declares a service, topic or entity; distinct by hash of the sources.",
        "floors": ["c16:isolation", "c16:positions", "c16:path-positions", "c16:list-methods", "c16:api", "c16:random-bundle", "c16:entity", "c16:split/query", "c16:split/body",
                   "c16:no-response-body", "c16:list-request", "c16:list-request/filterable", "c16:list-request/sortable", "c16:list-request/searchable", "c16:path-params/1", "c16:path-params/2",
                   "c16:path-type/key", "c16:path-type/string", "c16:path-type/integer", "c16:query-type/date", "c16:body-type/decimal", "c16:response-type/timestamp"],
        "assumptions": COMMON_ASSUMPTIONS,
    },
    "C17": {
        "shards": 16,
        "level_text": "Random entity declarations (names of 1-3 words written UpperCamel, lowerCamel or snake; 1-5 keys in shuffled order mixing primary, tenant, foreign, plain and non-key-typed keys and shard flags; 0-4 data fields of any type; 1-4 statuses; 0-3 events with random fields; 0-2 command services, named or default, with and without base path; 0-2 summaries; events-in-get and default status filter) alone in a package and inside API-shaped bundles with other types, services and a second entity, are compiled with CompilePackage. The monitor reads the resulting FileDescriptorProtos and compares them with the plan the generator kept (names derived from its own word list, never through the compiler's case library): the six schemas and their psm annotations, State/Event field shape and flatten flags, one event option per event pointing at the nested message of that name, Keys in declaration order with primary keys marked and required, status numbering, the query service with Get/List/Events (verb, path base, primary keys in declaration order as path parameters, request fields, state-query annotations), command services, publish and summary topics with their entity names, one and the same entity name in every annotation, and no service beyond the declared ones. The same descriptors are then pushed through structure.APIFromImage and j5client.APIFromSource and the StateEntity (name, full name, state schema, primary key, events, query parts and path parameters, command services) is compared with the plan.",
        "level_note": "Shard keys in the Get/Events path are checked for consistency with the documented mechanism (primary or shard keys, declaration order); the statement itself only fixes the primary keys.",
        "rule": "one evaluation per bundle that compiles; non-trivial when it declares at least one entity; distinct by hash of the sources.",
        "floors": ["c17:name-styles", "c17:solo-entity", "c17:entities-in-bundle", "c17:name-case/UpperCamel", "c17:name-case/lowerCamel", "c17:name-case/snake", "c17:name-style/multi-word", "c17:name-style/single-word",
                   "c17:primary-keys/1", "c17:primary-keys/2", "c17:keys/1", "c17:keys/4", "c17:shard-key", "c17:events/0", "c17:events/3", "c17:commands/0", "c17:commands/2", "c17:summaries/0", "c17:summaries/2",
                   "c17:statuses/1", "c17:statuses/4", "c17:data/none", "c17:data/some", "c17:events-in-get"],
        "assumptions": COMMON_ASSUMPTIONS,
    },
}
