"""Per-property configuration of the driver: worker count, race build, coverage
floors (features that a run must have observed, otherwise it is inconclusive),
the non-triviality rule written into the evidence, assumptions."""

COMMON_ASSUMPTIONS = [
    "the go toolchain, the Go race detector and the protobuf/protovalidate/protocompile libraries behave as documented",
    "the worker is built from the repository's current working tree with harness files ADDED through a go build overlay (tag verif); no repository file is replaced",
    "verdict is about the executions observed in this run only",
]

PROPS = {
    "C20": {
        "shards": 8,
        "rule": "cases: boundary identifiers (all-zero, all-one, each single bit and its complement, every leading-zero-byte count, 62^k±2, digit boundaries, 2^128-1..-4), PRNG-uniform identifiers, systematic and random strings offered to Parse, NewHash argument lists; every case is non-trivial; distinct by hash of the identifier bytes / the string.",
        "floors": ["id:all-zero", "id:all-one", "id:single-bit", "id:leading-zero-bytes", "id:power-of-62", "id:max",
                   "id:uniform", "str:systematic", "str:random", "str:too-large", "str:fits", "hash:pure"],
        "assumptions": COMMON_ASSUMPTIONS + [
            "the digit value of each alphanumeric character is taken from the implementation (Parse of a 1-character string) and required to be a bijection onto 0..61; positional evaluation with math/big is the reference",
        ],
        "xproc_case": {"xproc:newhash-digest": "hash/pure"},
    },
}
