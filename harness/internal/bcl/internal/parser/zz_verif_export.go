//go:build verif

package parser

import (
	"fmt"
	"strings"
)

// Verification shim (DESIGN.md §2.1): read-only views of the syntax tree that
// need unexported fields (Value.token, Value.array). No behaviour is changed.

type VerifNode struct {
	Kind       string
	Start, End Position
}

type verifWalker struct {
	nodes []VerifNode
	sk    strings.Builder
}

func (w *verifWalker) node(kind string, sn SourceNode) {
	w.nodes = append(w.nodes, VerifNode{Kind: kind, Start: sn.Start, End: sn.End})
	if sn.Comment != nil {
		w.nodes = append(w.nodes, VerifNode{Kind: kind + ".comment", Start: sn.Comment.Start, End: sn.Comment.End})
	}
}

func (w *verifWalker) tok(kind string, t Token) {
	w.nodes = append(w.nodes, VerifNode{Kind: kind, Start: t.Start, End: t.End})
}

func verifWords(s string) string {
	// words + paragraph breaks; a paragraph break is a line with no words
	var paras []string
	var cur []string
	for _, line := range strings.Split(s, "\n") {
		f := strings.Fields(line)
		if len(f) == 0 {
			if len(cur) > 0 {
				paras = append(paras, strings.Join(cur, " "))
				cur = nil
			}
			continue
		}
		cur = append(cur, f...)
	}
	if len(cur) > 0 {
		paras = append(paras, strings.Join(cur, " "))
	}
	return strings.Join(paras, "¶")
}

func (w *verifWalker) ref(kind string, r Reference) {
	w.node(kind, r.SourceNode)
	for _, id := range r.Idents {
		w.node(kind+".ident", id.SourceNode)
		w.tok(kind+".ident.token", id.Token)
	}
	w.sk.WriteString(r.String())
}

func (w *verifWalker) value(v Value) {
	w.node("value", v.SourceNode)
	if v.array != nil {
		w.sk.WriteString("[")
		for i, e := range v.array {
			if i > 0 {
				w.sk.WriteString(",")
			}
			w.value(e)
		}
		w.sk.WriteString("]")
		return
	}
	w.tok("value.token", v.token)
	fmt.Fprintf(&w.sk, "%s(%q)", v.token.Type, v.token.Lit)
}

func (w *verifWalker) tag(kind string, t TagValue) {
	w.node(kind, t.SourceNode)
	switch t.Mark {
	case TagMarkBang:
		w.sk.WriteString("!")
		w.tok(kind+".mark", t.MarkToken)
	case TagMarkQuestion:
		w.sk.WriteString("?")
		w.tok(kind+".mark", t.MarkToken)
	}
	if t.Reference != nil {
		w.sk.WriteString("ref:")
		w.ref(kind+".ref", *t.Reference)
	}
	if t.Value != nil {
		w.sk.WriteString("val:")
		w.value(*t.Value)
	}
}

func (w *verifWalker) body(b Body) {
	for _, st := range b.Statements {
		switch s := st.(type) {
		case *Block:
			w.node("block", s.SourceNode)
			w.sk.WriteString("block(")
			w.ref("block.type", s.Type)
			for _, t := range s.Tags {
				w.sk.WriteString(" tag:")
				w.tag("block.tag", t)
			}
			for _, t := range s.Qualifiers {
				w.sk.WriteString(" qual:")
				w.tag("block.qualifier", t)
			}
			if s.Description != nil {
				w.node("block.description", s.Description.SourceNode)
				for _, t := range s.Description.Tokens {
					w.tok("block.description.token", t)
				}
				if words := verifWords(s.Description.Value); words != "" {
					fmt.Fprintf(&w.sk, " desc:%q", words)
				}
			}
			w.sk.WriteString("){")
			w.body(s.Body)
			w.sk.WriteString("}")
		case *Assignment:
			w.node("assignment", s.SourceNode)
			w.sk.WriteString("assign(")
			w.ref("assignment.key", s.Key)
			if s.Append {
				w.sk.WriteString(" += ")
			} else {
				w.sk.WriteString(" = ")
			}
			w.value(s.Value)
			w.sk.WriteString(")")
		case *Description:
			w.node("description", s.SourceNode)
			for _, t := range s.Tokens {
				w.tok("description.token", t)
			}
			if words := verifWords(s.Value); words != "" {
				// a description without words denotes nothing (C09 compares words and paragraph breaks)
				fmt.Fprintf(&w.sk, "desc(%q)", words)
			} else {
				continue
			}
		case *Comment:
			w.node("comment", s.SourceNode)
		default:
			fmt.Fprintf(&w.sk, "unknown(%T)", st)
		}
		w.sk.WriteString(";")
	}
}

// VerifTree returns every node of the tree with its positions and the
// position-free skeleton of the document.
func VerifTree(f *File) ([]VerifNode, string) {
	w := &verifWalker{}
	w.body(f.Body)
	return w.nodes, w.sk.String()
}

// VerifComments re-lexes the input and returns the comment tokens (kind and
// text) in order.
func VerifComments(input string) ([]string, bool) {
	l := NewLexer(input)
	toks, ok, err := l.AllTokens(true)
	if err != nil || !ok {
		return nil, false
	}
	var out []string
	for _, t := range toks {
		switch t.Type {
		case COMMENT:
			out = append(out, "//"+strings.TrimRight(t.Lit, " \t"))
		case BLOCK_COMMENT:
			out = append(out, "/*"+t.Lit)
		}
	}
	return out, true
}
