//go:build verif

package genlsp

import (
	"context"

	"go.lsp.dev/protocol"
)

// VerifTextEdit is an LSP text edit as the language server hands it to an editor.
type VerifTextEdit struct {
	StartLine, StartChar, EndLine, EndChar uint32
	NewText                                string
}

// VerifFormat runs the language server's document formatter on a document text.
func VerifFormat(text string) ([]VerifTextEdit, error) {
	edits, err := astFormatter{}.Format(context.Background(), &protocol.TextDocumentItem{Text: text})
	if err != nil {
		return nil, err
	}
	out := make([]VerifTextEdit, 0, len(edits))
	for _, e := range edits {
		out = append(out, VerifTextEdit{StartLine: e.Range.Start.Line, StartChar: e.Range.Start.Character, EndLine: e.Range.End.Line, EndChar: e.Range.End.Character, NewText: e.NewText})
	}
	return out, nil
}
