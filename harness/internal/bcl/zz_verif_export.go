//go:build verif

package bcl

import (
	"github.com/pentops/j5/internal/bcl/internal/parser"
)

// Re-export of the parser entry points for the verification worker, which lives
// outside internal/bcl and therefore cannot import internal/bcl/internal/parser.

type VerifFile = parser.File
type VerifNode = parser.VerifNode
type VerifFmtDiff = parser.FmtDiff

func VerifParseFile(input string, failFast bool) (*VerifFile, error) {
	return parser.ParseFile(input, failFast)
}

func VerifTree(f *VerifFile) ([]VerifNode, string) { return parser.VerifTree(f) }

func VerifComments(input string) ([]string, bool) { return parser.VerifComments(input) }

func VerifFmt(input string) (string, error) { return parser.Fmt(input) }

func VerifFmtDiffs(input string) ([]VerifFmtDiff, error) { return parser.FmtDiffs(input) }
