//go:build verif

package props

import (
	"encoding/base64"
	"fmt"
	"strings"
	"time"
)

// G-JSON: a typed walk of a canonical J5 JSON document along the type model,
// yielding the sites where documented spelling variations and single faults
// apply (DESIGN.md §3, C03).

type jsite struct {
	val          *jVal     // the value at the site
	holder       *jVal     // object or array containing it (nil for the root)
	key          string    // member key when holder is an object
	idx          int       // index when holder is an array
	tf           *tField   // field the value belongs to (nil for the root)
	kind         string    // element kind: scalar kinds, enum, object, oneof, j5any, pbany, "array", "map", "exposed-oneof"
	pos          string    // top | nested | array | map | oneof-arm
	tm           *tMsg     // for object/oneof sites: the modelled type of the body
	arms         []*tField // for oneof bodies (wrapper or exposed): the possible arms
	body         bool      // the site is an object body whose members are J5 properties
	absent       []*tField // for object bodies: properties with no member (candidates for explicit null)
	groupsAbsent []string  // exposed oneof groups with no member
}

type jwalker struct {
	model *tModel
	sites []*jsite
}

func (w *jwalker) set(s *jsite, nv *jVal) {
	if s.holder == nil {
		return
	}
	if s.holder.Kind == jObj {
		for i := range s.holder.Obj {
			if s.holder.Obj[i].Key == s.key {
				s.holder.Obj[i].Val = nv
			}
		}
		return
	}
	s.holder.Arr[s.idx] = nv
}

// fieldsByJSON resolves the members that may appear in the body of an object
// of type tm: direct fields, exposed oneof groups and, recursively, members of
// flattened children.
func (w *jwalker) memberTable(tm *tMsg) (fields map[string]*tField, groups map[string][]*tField) {
	fields = map[string]*tField{}
	groups = map[string][]*tField{}
	exposed := map[string]bool{}
	for _, g := range tm.Groups {
		if g.Exposed {
			exposed[g.Name] = true
		}
	}
	for _, f := range tm.Fields {
		if f.Group != "" && exposed[f.Group] {
			groups[protocJSONName(f.Group)] = append(groups[protocJSONName(f.Group)], f)
			continue
		}
		if f.Flatten {
			cf, cg := w.memberTable(w.model.msg(f.Ref))
			for k, v := range cf {
				fields[k] = v
			}
			for k, v := range cg {
				groups[k] = v
			}
			continue
		}
		fields[f.JSON] = f
	}
	return
}

func (w *jwalker) walkBody(v *jVal, tm *tMsg, holder *jVal, key string, idx int, tf *tField, pos string) {
	if v.Kind != jObj {
		return
	}
	if tm.Wrapper {
		s := &jsite{val: v, holder: holder, key: key, idx: idx, tf: tf, kind: kOneof, pos: pos, tm: tm, arms: tm.Fields}
		w.sites = append(w.sites, s)
		w.walkOneofBody(v, tm.Fields)
		return
	}
	s := &jsite{val: v, holder: holder, key: key, idx: idx, tf: tf, kind: kObject, pos: pos, tm: tm, body: true}
	fields, groups := w.memberTable(tm)
	present := map[string]bool{}
	for _, m := range v.Obj {
		present[m.Key] = true
	}
	for name, f := range fields {
		if !present[name] {
			s.absent = append(s.absent, f)
		}
	}
	for name := range groups {
		if !present[name] {
			s.groupsAbsent = append(s.groupsAbsent, name)
		}
	}
	w.sites = append(w.sites, s)
	childPos := "nested"
	if holder == nil {
		childPos = "top"
	}
	for _, m := range v.Obj {
		if f, ok := fields[m.Key]; ok {
			w.walkField(m.Val, f, v, m.Key, childPos)
			continue
		}
		if arms, ok := groups[m.Key]; ok {
			es := &jsite{val: m.Val, holder: v, key: m.Key, kind: "exposed-oneof", pos: childPos, arms: arms}
			w.sites = append(w.sites, es)
			w.walkOneofBody(m.Val, arms)
		}
	}
}

func (w *jwalker) walkOneofBody(v *jVal, arms []*tField) {
	if v.Kind != jObj {
		return
	}
	for _, m := range v.Obj {
		if m.Key == "!type" {
			continue
		}
		for _, a := range arms {
			if a.JSON == m.Key {
				w.walkElem(m.Val, a, v, m.Key, 0, "oneof-arm")
			}
		}
	}
}

func (w *jwalker) walkField(v *jVal, f *tField, holder *jVal, key string, pos string) {
	switch f.Card {
	case "repeated":
		w.sites = append(w.sites, &jsite{val: v, holder: holder, key: key, tf: f, kind: "array", pos: pos})
		if v.Kind == jArr {
			for i, e := range v.Arr {
				w.walkElem(e, f, v, "", i, "array")
			}
		}
	case "map":
		w.sites = append(w.sites, &jsite{val: v, holder: holder, key: key, tf: f, kind: "map", pos: pos})
		if v.Kind == jObj {
			for _, m := range v.Obj {
				w.walkElem(m.Val, f, v, m.Key, 0, "map")
			}
		}
	default:
		w.walkElem(v, f, holder, key, 0, pos)
	}
}

func (w *jwalker) walkElem(v *jVal, f *tField, holder *jVal, key string, idx int, pos string) {
	switch f.Kind {
	case kObject, kOneof:
		w.walkBody(v, w.model.msg(f.Ref), holder, key, idx, f, pos)
	default:
		w.sites = append(w.sites, &jsite{val: v, holder: holder, key: key, idx: idx, tf: f, kind: f.Kind, pos: pos})
	}
}

func walkDoc(model *tModel, root *jVal, tm *tMsg) *jwalker {
	w := &jwalker{model: model}
	w.walkBody(root, tm, nil, "", 0, nil, "top")
	return w
}

// ---- documented alternate spellings -----------------------------------------------------

func isJSONNumberLiteral(s string) bool {
	v, err := parseStrictJSON([]byte(s))
	return err == nil && v.Kind == jNum
}

// variantsOf returns the alternate spellings of the value at a leaf site, each
// with the name of the variation.
func variantsOf(model *tModel, s *jsite) (names []string, vals []*jVal) {
	add := func(n string, v *jVal) { names = append(names, n); vals = append(vals, v) }
	switch s.kind {
	case kInt32, kSint32, kUint32, kFloat, kDouble:
		if s.val.Kind == jNum {
			add("number-quoted", jS(s.val.Num))
		}
	case kInt64, kSint64, kUint64:
		if s.val.Kind == jStr && isJSONNumberLiteral(s.val.Str) {
			add("number-bare", &jVal{Kind: jNum, Num: s.val.Str})
		}
	case kDecimal:
		if s.val.Kind == jStr && isJSONNumberLiteral(s.val.Str) {
			add("number-bare", &jVal{Kind: jNum, Num: s.val.Str})
		}
	case kBytes:
		if s.val.Kind == jStr {
			raw, err := base64.StdEncoding.DecodeString(s.val.Str)
			if err == nil {
				add("base64-std-nopad", jS(base64.RawStdEncoding.EncodeToString(raw)))
				add("base64-url-pad", jS(base64.URLEncoding.EncodeToString(raw)))
				add("base64-url-nopad", jS(base64.RawURLEncoding.EncodeToString(raw)))
			}
		}
	case kEnum:
		if s.val.Kind == jStr {
			if e := model.enum(s.tf.Ref); e != nil {
				// (not when another option of the enum is literally called <prefix><name>: that spelling is then
				// the canonical name of the other option)
				ambiguous := false
				for _, v := range e.Values {
					if v == e.Prefix+s.val.Str {
						ambiguous = true
					}
				}
				if !ambiguous {
					add("enum-prefixed", jS(e.Prefix+s.val.Str))
				}
			}
		}
	case kTimestamp:
		if s.val.Kind == jStr {
			t, err := time.Parse(time.RFC3339Nano, s.val.Str)
			if err == nil {
				for _, off := range []int{0, 5*3600 + 30*60, -8 * 3600, 14 * 3600, -12 * 3600, 1} {
					if off == 1 {
						// +00:00 spelled numerically
						str := t.UTC().Format("2006-01-02T15:04:05.999999999") + "+00:00"
						add("timestamp-offset", jS(str))
						continue
					}
					tt := t.In(time.FixedZone("", off))
					if tt.Year() < 1 || tt.Year() > 9999 {
						continue
					}
					if off == 0 {
						// same instant, UTC, fraction spelled with full 9 digits when present
						if t.Nanosecond() != 0 {
							add("timestamp-fraction", jS(t.UTC().Format("2006-01-02T15:04:05.000000000Z")))
						}
						continue
					}
					add("timestamp-offset", jS(tt.Format(time.RFC3339Nano)))
				}
			}
		}
	}
	return
}

// ---- single faults --------------------------------------------------------------------------------

type jfault struct {
	class string
	val   *jVal
}

func numLit(s string) *jVal { return &jVal{Kind: jNum, Num: s} }

func wrongTypeValues(kind string) []*jVal {
	obj := &jVal{Kind: jObj}
	arr := &jVal{Kind: jArr, Arr: []*jVal{}}
	tr := &jVal{Kind: jBool, B: true}
	switch kind {
	case kString, kKey, kBytes, kTimestamp, kDate, kEnum:
		return []*jVal{numLit("5"), tr, obj, arr}
	case kBool:
		return []*jVal{jS("true"), numLit("1"), obj, arr}
	case kInt32, kSint32, kUint32, kInt64, kSint64, kUint64, kFloat, kDouble, kDecimal:
		return []*jVal{tr, obj, arr}
	case kObject, kOneof, kJ5Any, kPbAny, "map", "exposed-oneof":
		return []*jVal{jS("x"), numLit("5"), tr, arr}
	case "array":
		return []*jVal{jS("x"), numLit("5"), tr, obj}
	}
	return nil
}

func faultsOf(model *tModel, s *jsite) []jfault {
	var out []jfault
	for _, v := range wrongTypeValues(s.kind) {
		out = append(out, jfault{"wrong-json-type:" + v.Kind.String(), v})
	}
	both := func(class, lit string) {
		if isJSONNumberLiteral(lit) {
			out = append(out, jfault{class + ":bare", numLit(lit)})
		}
		out = append(out, jfault{class + ":quoted", jS(lit)})
	}
	switch s.kind {
	case kInt32, kSint32:
		both("out-of-range-number", "2147483648")
		both("out-of-range-number", "-2147483649")
		both("unparsable-number", "1.5")
		both("unparsable-number", "abc")
		both("unparsable-number", "")
		both("unparsable-number", "12x")
	case kUint32:
		both("out-of-range-number", "4294967296")
		both("out-of-range-number", "-1")
		both("unparsable-number", "abc")
		both("unparsable-number", "0.5")
	case kInt64, kSint64:
		both("out-of-range-number", "9223372036854775808")
		both("out-of-range-number", "-9223372036854775809")
		both("unparsable-number", "abc")
		both("unparsable-number", "1.5")
		both("unparsable-number", "")
	case kUint64:
		both("out-of-range-number", "18446744073709551616")
		both("out-of-range-number", "-1")
		both("unparsable-number", "abc")
		both("unparsable-number", "1.5")
	case kFloat:
		both("out-of-range-number", "1e39")
		both("out-of-range-number", "-3.5e38")
		both("unparsable-number", "abc")
		both("unparsable-number", "1.2.3")
	case kDouble:
		both("out-of-range-number", "1e400")
		both("unparsable-number", "abc")
		both("unparsable-number", "1.2.3")
	case kDecimal:
		for _, b := range []string{"abc", "1.2.3", "--1", "1,5", ""} {
			out = append(out, jfault{"invalid-decimal", jS(b)})
		}
	case kBytes:
		for _, b := range []string{"!!!!", "abc$", "a", "====", "YWJj*"} {
			out = append(out, jfault{"invalid-base64", jS(b)})
		}
	case kDate:
		for _, b := range []string{"2020-13-01", "2020-00-10", "2020-01-32", "2020-02-30", "2020-01-00", "20200101", "abcd-ef-gh", "2020-01", "2020-01-01-01", "", "2020/01/01"} {
			out = append(out, jfault{"invalid-date", jS(b)})
		}
	case kTimestamp:
		for _, b := range []string{"2020-01-01", "not a time", "2020-01-01T25:00:00Z", "2020-13-01T00:00:00Z", "2020-01-01T00:00:00", "", "1600000000"} {
			out = append(out, jfault{"invalid-timestamp", jS(b)})
		}
	case kEnum:
		out = append(out, jfault{"unknown-enum-name", jS("NOT_A_DEFINED_VALUE")})
		if e := model.enum(s.tf.Ref); e != nil && s.val.Kind == jStr {
			out = append(out, jfault{"unknown-enum-name", jS("WRONG_PREFIX_" + s.val.Str)})
			out = append(out, jfault{"unknown-enum-name", jS(strings.ToLower(e.Prefix+s.val.Str) + "x")})
		}
	}
	return out
}

func (s *jsite) describe() string {
	n := ""
	if s.tf != nil {
		n = s.tf.JSON
	}
	return fmt.Sprintf("%s %s at %s", s.kind, n, s.pos)
}
