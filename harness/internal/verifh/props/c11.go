//go:build verif

package props

import (
	"errors"
	"fmt"
	"os"
	"path/filepath"
	"strings"
	"unicode/utf8"

	"github.com/pentops/j5/internal/bcl"
	"github.com/pentops/j5/internal/bcl/errpos"
	"github.com/pentops/j5/internal/verifh/rt"
)

func init() { Registry["C11"] = runC11 }

type c11Lines struct {
	runes []int
}

func c11LinesOf(x string) c11Lines {
	ls := strings.Split(x, "\n")
	out := c11Lines{runes: make([]int, len(ls))}
	for i, l := range ls {
		out.runes[i] = utf8.RuneCountInString(l)
	}
	return out
}

// inside reports whether the point lies within the input: an existing line and
// a column between 0 and the number of characters of that line (the position
// just after the last character is where EOL/EOF tokens sit).
func (l c11Lines) inside(p errpos.Point) bool {
	if p.Line < 0 || p.Column < 0 || p.Line >= len(l.runes) {
		return false
	}
	return p.Column <= l.runes[p.Line]
}

func pointLE(a, b errpos.Point) bool {
	return a.Line < b.Line || (a.Line == b.Line && a.Column <= b.Column)
}

type c11Diag struct {
	start, end errpos.Point
	msg        string
}

type c11Result struct {
	tree  *bcl.VerifFile
	diags []c11Diag
}

// c11ParseOne runs the parser once and applies the per-call clauses.
func c11ParseOne(c *rt.C, x string, failFast bool, lines c11Lines, class string) (res c11Result, usable bool) {
	mode := "collect-all"
	if failFast {
		mode = "fail-fast"
	}
	det := func() map[string]any {
		return map[string]any{"input": x, "fail_fast": failFast, "class": class}
	}
	var tree *bcl.VerifFile
	var err error
	ok, pv, fn, st := rt.Guard(func() { tree, err = bcl.VerifParseFile(x, failFast) })
	if !ok {
		d := det()
		d["stack"] = st
		c.Violate("parse-panic/"+fn, fmt.Sprintf("ParseFile(%q, %s) panicked: %v", rt.Clip(x, 200), mode, pv), d)
		return res, false
	}
	if err == nil {
		if tree == nil {
			c.Violate("result/neither", fmt.Sprintf("ParseFile(%q, %s) returned neither a tree nor an error", rt.Clip(x, 200), mode), det())
			return res, false
		}
		if len(tree.Errors) > 0 {
			c.Violate("result/both", fmt.Sprintf("ParseFile(%q, %s) returned success with %d diagnostics in the tree", rt.Clip(x, 200), mode, len(tree.Errors)), det())
		}
		res.tree = tree
		var nodes []bcl.VerifNode
		ok, pv, fn, _ = rt.Guard(func() { nodes, _ = bcl.VerifTree(tree) })
		if !ok {
			c.Violate("tree-walk-panic/"+fn, fmt.Sprintf("walking the tree of %q panicked: %v", rt.Clip(x, 200), pv), det())
			return res, false
		}
		for _, n := range nodes {
			if !pointLE(n.Start, n.End) {
				d := det()
				d["node"] = fmt.Sprintf("%s %v-%v", n.Kind, n.Start, n.End)
				c.Violate("node/start-after-end/"+n.Kind, fmt.Sprintf("tree node %s of %q has start %d:%d after end %d:%d (0-based)", n.Kind, rt.Clip(x, 200), n.Start.Line, n.Start.Column, n.End.Line, n.End.Column), d)
			}
			if !lines.inside(n.Start) || !lines.inside(n.End) {
				d := det()
				d["node"] = fmt.Sprintf("%s %v-%v", n.Kind, n.Start, n.End)
				c.Violate("node/outside/"+n.Kind, fmt.Sprintf("tree node %s of %q has a position outside the input: %d:%d-%d:%d (0-based)", n.Kind, rt.Clip(x, 200), n.Start.Line, n.Start.Column, n.End.Line, n.End.Column), d)
			}
		}
		c.EventN("tree_nodes_checked", int64(len(nodes)))
		return res, true
	}
	// error path: must be a non-empty list of diagnostics
	var ews *errpos.ErrorsWithSource
	if !errors.As(err, &ews) || ews == nil {
		c.Violate("result/not-diagnostics", fmt.Sprintf("ParseFile(%q, %s) failed with an error that carries no diagnostics: %T %v", rt.Clip(x, 200), mode, err, err), det())
		return res, false
	}
	if len(ews.Errors) == 0 {
		c.Violate("result/empty-diagnostics", fmt.Sprintf("ParseFile(%q, %s) failed with an empty list of diagnostics", rt.Clip(x, 200), mode), det())
		return res, false
	}
	for i, e := range ews.Errors {
		if e == nil || e.Pos == nil {
			c.Violate("diag/no-position", fmt.Sprintf("diagnostic %d of ParseFile(%q, %s) has no position", i, rt.Clip(x, 200), mode), det())
			continue
		}
		msg := ""
		if e.Err != nil {
			msg = e.Err.Error()
		}
		res.diags = append(res.diags, c11Diag{e.Pos.Start, e.Pos.End, msg})
		if !pointLE(e.Pos.Start, e.Pos.End) {
			d := det()
			d["diagnostic"] = e.Error()
			c.Violate("diag/start-after-end", fmt.Sprintf("diagnostic %q of %q has start after end: %d:%d-%d:%d", msg, rt.Clip(x, 200), e.Pos.Start.Line, e.Pos.Start.Column, e.Pos.End.Line, e.Pos.End.Column), d)
		}
		if !lines.inside(e.Pos.Start) || !lines.inside(e.Pos.End) {
			d := det()
			d["diagnostic"] = e.Error()
			c.Violate("diag/outside", fmt.Sprintf("diagnostic %q of %q points outside the input: %d:%d-%d:%d (0-based)", msg, rt.Clip(x, 200), e.Pos.Start.Line, e.Pos.Start.Column, e.Pos.End.Line, e.Pos.End.Column), d)
		}
	}
	c.EventN("diagnostics_checked", int64(len(ews.Errors)))
	for ctx := 0; ctx <= 3; ctx++ {
		var s string
		ok, pv, fn, _ = rt.Guard(func() { s = ews.HumanString(ctx) })
		if !ok {
			c.Violate("render-panic/"+fn, fmt.Sprintf("HumanString(%d) for the diagnostics of %q panicked: %v", ctx, rt.Clip(x, 200), pv), det())
			break
		}
		if s == "" {
			c.Violate("render/empty", fmt.Sprintf("HumanString(%d) for the diagnostics of %q rendered nothing", ctx, rt.Clip(x, 200)), det())
			break
		}
	}
	return res, true
}

// c11Check applies the whole C11 oracle to one input.
func c11Check(c *rt.C, x string, class string) {
	lines := c11LinesOf(x)
	c.Input([]byte(x))
	ff, ok1 := c11ParseOne(c, x, true, lines, class)
	ca, ok2 := c11ParseOne(c, x, false, lines, class)
	c.EndBudget()
	accepted := ok1 && ff.tree != nil
	c.Eval(rt.Hash(x), true)
	if !ok1 || !ok2 {
		return
	}
	if (ff.tree != nil) != (ca.tree != nil) {
		c.Violate("modes/accept-differs", fmt.Sprintf("fail-fast and collect-all disagree on whether %q parses (fail-fast tree=%v, collect-all tree=%v)", rt.Clip(x, 200), ff.tree != nil, ca.tree != nil), map[string]any{"input": x, "class": class})
		return
	}
	if accepted {
		c.Feature("c11:accepted")
		return
	}
	c.Feature("c11:rejected")
	if len(ff.diags) > 0 && len(ca.diags) > 0 {
		a, b := ff.diags[0], ca.diags[0]
		if a != b {
			c.Violate("modes/first-diagnostic-differs", fmt.Sprintf("collect-all mode reports %q at %d:%d first, fail-fast reports %q at %d:%d for %q", b.msg, b.start.Line, b.start.Column, a.msg, a.start.Line, a.start.Column, rt.Clip(x, 200)), map[string]any{"input": x, "class": class})
		}
		if len(ca.diags) > 1 {
			c.Feature("c11:multi-diagnostic")
		}
	}
	if c.WantSample() && len(x) > 3 {
		c.Sample(map[string]any{"input": x, "class": class, "accepted": accepted, "first_diagnostic": fmt.Sprintf("%v", ca.diags)})
	}
}

// repoSourceFiles returns every .j5s / .bcl file of the repository.
func repoSourceFiles() []string {
	root := os.Getenv("VERIF_REPO_DIR")
	if root == "" {
		root = "/repo"
	}
	var out []string
	_ = filepath.Walk(root, func(p string, info os.FileInfo, err error) error {
		if err != nil {
			return nil
		}
		if info.IsDir() {
			if info.Name() == ".git" {
				return filepath.SkipDir
			}
			return nil
		}
		if strings.HasSuffix(p, ".j5s") || strings.HasSuffix(p, ".bcl") {
			out = append(out, p)
		}
		return nil
	})
	return out
}

func runC11(r *rt.Runner) {
	// --- bounded-exhaustive token strings --------------------------------------------
	maxLen := r.Scale(4, 5)
	A := bclAlphabet
	for n := 0; n <= maxLen; n++ {
		if n < 3 {
			// small lengths: one case for the whole length
			r.Do(fmt.Sprintf("exh/len%d", n), func(c *rt.C) {
				idx := make([]int, n)
				for {
					parts := make([]string, n)
					for i, k := range idx {
						parts[i] = A[k]
					}
					c11Check(c, strings.Join(parts, " "), "exhaustive")
					c11Check(c, strings.Join(parts, ""), "exhaustive-nosep")
					i := n - 1
					for ; i >= 0; i-- {
						idx[i]++
						if idx[i] < len(A) {
							break
						}
						idx[i] = 0
					}
					if i < 0 {
						break
					}
				}
				c.Feature("c11:exhaustive")
			})
			continue
		}
		// one case per 2-token prefix
		for p0 := range A {
			for p1 := range A {
				r.Do(fmt.Sprintf("exh/len%d/%d.%d", n, p0, p1), func(c *rt.C) {
					rest := n - 2
					idx := make([]int, rest)
					cnt := 0
					for {
						parts := make([]string, 0, n)
						parts = append(parts, A[p0], A[p1])
						for _, k := range idx {
							parts = append(parts, A[k])
						}
						c11Check(c, strings.Join(parts, " "), "exhaustive")
						cnt++
						if cnt%10 == 0 {
							c11Check(c, strings.Join(parts, ""), "exhaustive-nosep")
						}
						i := rest - 1
						for ; i >= 0; i-- {
							idx[i]++
							if idx[i] < len(A) {
								break
							}
							idx[i] = 0
						}
						if i < 0 {
							break
						}
					}
					c.Feature("c11:exhaustive")
				})
			}
		}
	}
	r.SetExhaustive(fmt.Sprintf("all strings of <= %d lexemes over the %d-symbol alphabet, joined by single spaces, both parser modes", maxLen, len(A)))

	// --- repository fixtures and their mutations ------------------------------------------
	files := repoSourceFiles()
	for _, f := range files {
		data, err := os.ReadFile(f)
		if err != nil {
			continue
		}
		name := strings.TrimPrefix(f, "/")
		r.Do("file/"+filepath.Base(filepath.Dir(f))+"/"+filepath.Base(f), func(c *rt.C) {
			_ = name
			x := string(data)
			c11Check(c, x, "repo-file")
			rng := c.Rand()
			for i := 0; i < r.Scale(60, 600); i++ {
				c11Check(c, mutateBCL(rng, x), "repo-file-mutation")
			}
			// every prefix at line granularity and some byte prefixes
			for i := 0; i < 40; i++ {
				c11Check(c, x[:rng.Intn(len(x)+1)], "repo-file-truncation")
			}
			c.Feature("c11:repo-file")
		})
	}

	// --- grammar-directed files, mutations, random text ------------------------------------
	nb := r.Scale(600, 12000)
	for b := 0; b < nb; b++ {
		r.Do(fmt.Sprintf("gen/%d", b), func(c *rt.C) {
			rng := c.Rand()
			for i := 0; i < 20; i++ {
				x := genBCL(rng, i%2 == 0)
				c11Check(c, x, "generated")
				for j := 0; j < 4; j++ {
					c11Check(c, mutateBCL(rng, x), "generated-mutation")
				}
				if len(x) > 0 {
					c11Check(c, x[:rng.Intn(len(x)+1)], "generated-truncation")
				}
			}
			c.Feature("c11:generated")
			for i := 0; i < 20; i++ {
				c11Check(c, randomUnicode(rng, rng.Intn(40)), "random-unicode")
			}
			c.Feature("c11:random")
		})
	}

	// --- hand-written edge cases ----------------------------------------------------------------
	r.Do("edge", func(c *rt.C) {
		edge := []string{
			"", "\n", "\n\n", " ", "\t", "\r\n", "a", "a\n", "a {", "a {\n", "a {\n}", "a {\n}\n", "}", "}\n", "a = ", "a = \n", "a = [", "a = [1,", "a = [1,\n",
			`a = "`, `a = "x`, "a = \"x\n", `a = "x\`, "a = \"x\\\n", "a = /", "a = /x", "a = /x\n", "/*", "/* x", "/* x *", "a /* x", "|", "| ", "|\n|", "a |", "a | d\n| e",
			"a = \"é", "é = 1\n", "a = \"日本語\"\n", "a 日本 {\n", "😀", "a = 😀", "a = \"😀\" 😀", "日本語 {\n\t| 説明\n}\n", "a = 1 é", "a é😀",
			"a.", "a..b", "a.b.", "a = b.", "a:b:", "a !", "a ? ?", "a ! \"s\"", "a { // c", "a // c", "a // c\n", "a b // c\n", "a = 1 // c", "a { // c\n} // d\n",
			"a {\n} }", "a {\n b {\n }", "a = [[[[[[[[[[1]]]]]]]]]]", "a += [", "a + b", "a +", "a ++= 1", strings.Repeat("a {\n", 200), strings.Repeat("}\n", 50),
			strings.Repeat("[", 500), "a = " + strings.Repeat("[", 300) + strings.Repeat("]", 300), strings.Repeat("a.", 500) + "b = 1", strings.Repeat("x ", 2000),
			"a = 1.2.3", "a = 1.", "a = .5", "a = -1", "a = 1e5", "a = 0x10", "true = false", "true {\n}", "a true false",
			"\xff\xfe", "a = \"\xff\"", "a\x00b", "a = 1\x00", "\ufeffa = 1", "a = 1", "a b", "a = \"x\"\"y\"",
		}
		for _, x := range edge {
			c11Check(c, x, "edge")
		}
		c.Feature("c11:edge")
	})
	// --- long files: diagnostics (and their rendered context lines) at three- and four-digit line numbers ------------
	r.Do("long-files", func(c *rt.C) {
		for _, n := range []int{98, 99, 100, 101, 997, 998, 999, 1000, 1001, 1002, 1100, 9999, 10001} {
			body := strings.Repeat("a = 1\n", n)
			for _, tail := range []string{"a = \n", "a = [\n", "}\n", "a = \"x\n", "b {\n", "a = 1 é é\n", "a.\n"} {
				c11Check(c, body+tail, "long-file")
				c11Check(c, body+tail+strings.Repeat("c = 2\n", 5), "long-file")
			}
			// several errors, far apart
			c11Check(c, "a = \n"+body+"a = \n"+body+"a = \n", "long-file")
		}
		c.Feature("c11:long-file")
	})
}
