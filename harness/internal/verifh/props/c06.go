//go:build verif

package props

import (
	"encoding/json"
	"fmt"
	"github.com/pentops/j5/lib/j5codec"
	"math/rand"
	"net/url"
	"runtime/debug"
	"strings"

	"github.com/pentops/j5/internal/verifh/rt"
	"google.golang.org/protobuf/reflect/protoreflect"
	"google.golang.org/protobuf/types/dynamicpb"
)

func init() { Registry["C06"] = runC06 }

// c06Decode: the monitored call. Outcome must be ok or error; panics are
// recovered into violations, fatal errors / CPU overruns end the child and are
// attributed by the driver through the journal.
func c06Decode(c *rt.C, env *codecEnv, md protoreflect.MessageDescriptor, doc []byte, class string) {
	c.Eval(rt.Hash(string(md.FullName()), string(doc)), true)
	c.Feature("c06:" + class)
	m2 := dynamicpb.NewMessage(md)
	var err error
	c.Input(doc)
	ok, pv, fn, st := rt.Guard(func() { err = env.codec.JSONToProto(doc, m2) })
	c.EndBudget()
	if !ok {
		c.Violate("decode-panic/"+fn, fmt.Sprintf("JSONToProto panicked on %s input for %s: %v; input=%s", class, md.FullName(), pv, rt.Clip(string(doc), 300)),
			map[string]any{"type": string(md.FullName()), "input": rt.Clip(string(doc), 20000), "class": class, "stack": st, "proto_sources": env.ct.Sources})
		return
	}
	if err != nil {
		c.Event("returned_error")
	} else {
		c.Event("returned_ok")
	}
	if c.Runner().Arg("show", "") != "" && strings.HasPrefix(class, c.Runner().Arg("show", "")) {
		fmt.Printf("SHOW %s %s -> %v\n", class, rt.Clip(string(doc), 120), err)
	}
	if c.WantSample() && len(doc) > 10 && len(doc) < 300 && err != nil {
		c.Sample(map[string]any{"type": string(md.FullName()), "input": string(doc), "class": class, "outcome": "error: " + rt.Clip(err.Error(), 120)})
	}
}

func c06Query(c *rt.C, env *codecEnv, md protoreflect.MessageDescriptor, q url.Values, class string) {
	enc := q.Encode()
	c.Eval(rt.Hash("query", string(md.FullName()), enc), true)
	c.Feature("c06:" + class)
	m2 := dynamicpb.NewMessage(md)
	var err error
	c.Input([]byte(enc))
	ok, pv, fn, st := rt.Guard(func() { err = env.codec.QueryToProto(q, m2) })
	c.EndBudget()
	if !ok {
		c.Violate("query-panic/"+fn, fmt.Sprintf("QueryToProto panicked for %s: %v; query=%s", md.FullName(), pv, rt.Clip(enc, 300)),
			map[string]any{"type": string(md.FullName()), "query": enc, "class": class, "stack": st, "proto_sources": env.ct.Sources})
		return
	}
	if err != nil {
		c.Event("returned_error")
	} else {
		c.Event("returned_ok")
	}
}

var c06Replacements = []string{`null`, `true`, `0`, `""`, `[]`, `{}`, `[null]`, `{"a":null}`, `[[]]`, `{"!type":null}`, `-1.5e300`, `"\u0000"`, `[{}]`, `{"":{}}`}

func jRaw(s string) *jVal {
	v, err := parseStrictJSON([]byte(s))
	if err != nil {
		panic("harness: bad replacement " + s)
	}
	return v
}

// c06Structural mutates every site of a canonical document.
func c06Structural(c *rt.C, env *codecEnv, m *dynamicpb.Message, rng *rand.Rand, budget int) {
	md := m.Descriptor()
	var b []byte
	var err error
	ok, _, _, _ := rt.Guard(func() { b, err = env.codec.ProtoToJSON(m) })
	if !ok || err != nil {
		return
	}
	tree, perr := parseStrictJSON(b)
	if perr != nil {
		return
	}
	tm := env.model.msg(string(md.FullName()))
	w := walkDoc(env.model, tree, tm)
	c06Decode(c, env, md, b, "canonical")
	// every mutation re-decodes the whole document: bound the bytes decoded per message (≈ 25 MB), not only the count
	if byBytes := 25_000_000 / (len(b) + 1); budget > byBytes {
		budget = byBytes
	}
	// large documents (long byte strings in every container): the per-site extras below are sampled, 1 site in `thin`
	thin := len(b)/20000 + 1
	for _, s := range w.sites {
		if s.holder == nil {
			continue
		}
		for _, rep := range c06Replacements {
			if budget <= 0 && rng.Intn(20*thin) != 0 {
				continue
			}
			budget--
			old := s.val
			w.set(s, jRaw(rep))
			doc := renderTree(tree, "")
			w.set(s, old)
			class := "replace-value"
			if strings.Contains(rep, "null") {
				class = "null:" + s.pos
			}
			c06Decode(c, env, md, doc, class)
		}
		if thin > 1 && rng.Intn(thin) != 0 {
			continue
		}
		// oneof bodies: "!type" only / odd "!type"
		if s.kind == kOneof || s.kind == "exposed-oneof" {
			arm := "zzNoSuchArm"
			if len(s.arms) > 0 {
				arm = s.arms[0].JSON
			}
			for _, body := range []string{`{"!type":"` + arm + `"}`, `{"!type":"zzNoSuchArm"}`, `{"!type":5}`, `{"!type":null}`, `{"!type":{}}`, `{"!type":"` + arm + `","!type":"` + arm + `"}`, `{"!type":"` + arm + `","` + arm + `":null}`} {
				old := s.val
				w.set(s, jRaw2(body))
				doc := renderTree(tree, "")
				w.set(s, old)
				c06Decode(c, env, md, doc, "type-only-oneof")
			}
		}
		if s.kind == kJ5Any || s.kind == kPbAny {
			// "!type" values that resolve to something which is not a message: an enum, an enum value, a field, a package
			notMessages := []string{"google.protobuf.NullValue", "google.protobuf.FieldDescriptorProto.Type", "google.protobuf.NULL_VALUE", string(md.FullName()) + "." + string(md.Fields().Get(0).Name()), string(md.ParentFile().Package()), "." + string(md.FullName()), string(md.FullName()) + "."}
			for _, e := range env.model.Files[0].Enums {
				notMessages = append(notMessages, e.Full)
			}
			for _, nm := range notMessages {
				for _, val := range []string{`{}`, `"x"`, `1`} {
					old := s.val
					w.set(s, jRaw2(`{"!type":"`+nm+`","value":`+val+`}`))
					doc := renderTree(tree, "")
					w.set(s, old)
					c06Decode(c, env, md, doc, "any-type-not-a-message")
				}
			}
			for _, body := range []string{`{"!type":"google.protobuf.Timestamp","value":"2020-01-01T00:00:00Z"}`, `{"!type":"google.protobuf.Timestamp","value":{}}`, `{"!type":"google.protobuf.Any","value":{"!type":"google.protobuf.Any","value":{}}}`, `{"!type":"google.protobuf.Empty","value":{}}`} {
				old := s.val
				w.set(s, jRaw2(body))
				doc := renderTree(tree, "")
				w.set(s, old)
				c06Decode(c, env, md, doc, "any-well-known-type")
			}
			for _, body := range []string{`{"!type":"x"}`, `{"value":{}}`, `{"!type":"` + string(md.FullName()) + `","value":null}`, `{"!type":"` + string(md.FullName()) + `","value":[]}`, `{"!type":"` + string(md.FullName()) + `","value":{"zz":1}}`, `{"!type":"` + string(md.FullName()) + `","value":{},"value":{}}`, `{"!type":"","value":{}}`} {
				old := s.val
				w.set(s, jRaw2(body))
				doc := renderTree(tree, "")
				w.set(s, old)
				c06Decode(c, env, md, doc, "odd-any")
			}
		}
		// huge numbers at numeric sites
		switch s.kind {
		case kInt32, kSint32, kUint32, kInt64, kSint64, kUint64, kFloat, kDouble, kDecimal:
			for _, lit := range []string{strings.Repeat("9", 400), "-" + strings.Repeat("9", 400), "1e999999999", "1e-999999999", "0." + strings.Repeat("0", 400) + "1", strings.Repeat("9", 400) + "." + strings.Repeat("9", 400)} {
				for _, q := range []bool{false, true} {
					old := s.val
					if q {
						w.set(s, jS(lit))
					} else {
						w.set(s, numLit(lit))
					}
					doc := renderTree(tree, "")
					w.set(s, old)
					c06Decode(c, env, md, doc, "huge-number")
				}
			}
		}
		// duplicate member
		if s.holder.Kind == jObj && rng.Intn(4) == 0 {
			s.holder.Obj = append(s.holder.Obj, jMember{s.key, s.val})
			doc := renderTree(tree, "")
			s.holder.Obj = s.holder.Obj[:len(s.holder.Obj)-1]
			c06Decode(c, env, md, doc, "duplicate-key")
		}
	}
	// truncations
	if len(b) <= 400 {
		for i := 0; i < len(b); i++ {
			c06Decode(c, env, md, b[:i], "truncated")
		}
	} else {
		for i := 0; i < 60; i++ {
			c06Decode(c, env, md, b[:rng.Intn(len(b))], "truncated")
		}
	}
}

// jRaw2 keeps duplicate keys (the strict parser rejects them), built by hand.
func jRaw2(s string) *jVal {
	if v, err := parseStrictJSON([]byte(s)); err == nil {
		return v
	}
	// fall back to a verbatim literal: rendered as a number token, i.e. raw text
	return &jVal{Kind: jNum, Num: s}
}

func randomJSON(rng *rand.Rand, depth int) string {
	switch k := rng.Intn(9); {
	case k == 0:
		return "null"
	case k == 1:
		return []string{"true", "false"}[rng.Intn(2)]
	case k == 2:
		return []string{"0", "-1", "1.5", "1e10", "123456789012345678901234567890"}[rng.Intn(5)]
	case k == 3:
		return jEscape(vStrings[rng.Intn(len(vStrings))])
	case k < 6 && depth < 5:
		n := rng.Intn(4)
		parts := make([]string, n)
		for i := range parts {
			parts[i] = randomJSON(rng, depth+1)
		}
		return "[" + strings.Join(parts, ",") + "]"
	case depth < 5:
		n := rng.Intn(4)
		parts := make([]string, n)
		for i := range parts {
			key := []string{"a", "!type", "value", "", "sString", "child", "0"}[rng.Intn(7)]
			parts[i] = jEscape(key) + ":" + randomJSON(rng, depth+1)
		}
		return "{" + strings.Join(parts, ",") + "}"
	}
	return `"x"`
}

func runC06(r *rt.Runner) {
	// Deep (input-proportional) recursion is legitimate: allow the same stack the
	// Go runtime allows by default for inputs of this size; unbounded recursion
	// still dies quickly because the CPU/stack budget is finite.
	debug.SetMaxStack(768 << 20)

	// --- well-known types with a string form: durations, timestamps, wrappers ----------------------------
	r.Do("wkt/strings", func(c *rt.C) {
		src := map[string]string{"verif/wkt/v1/wkt.proto": `syntax = "proto3";
package verif.wkt.v1;
import "google/protobuf/duration.proto";
import "google/protobuf/timestamp.proto";
import "google/protobuf/wrappers.proto";
message W {
  google.protobuf.Duration d = 1;
  repeated google.protobuf.Duration ds = 2;
  map<string, google.protobuf.Duration> dm = 3;
  google.protobuf.Timestamp t = 4;
  repeated google.protobuf.Timestamp ts = 5;
  W next = 11;
}
message V {
  google.protobuf.StringValue sv = 6;
  google.protobuf.Int64Value iv = 7;
  google.protobuf.BoolValue bv = 8;
  google.protobuf.BytesValue yv = 9;
  google.protobuf.DoubleValue dv = 10;
  oneof pick {
    google.protobuf.StringValue osv = 11;
    google.protobuf.Int64Value oiv = 12;
  }
}
`}
		ct, err := compileProtoText(src)
		if err != nil {
			panic("harness: wkt proto does not compile: " + err.Error())
		}
		env := &codecEnv{name: "wkt", ct: ct, codec: j5codec.NewCodec(j5codec.WithResolver(ct.Types), j5codec.WithProtoToAny())}
		md := ct.message("verif.wkt.v1.W")
		durs := []string{"1s", "1.5s", "1.5000000000s", "1.000000000s", "1.0000000000s", "0.0000000001s", "0.000000001s", "1.s", ".5s", "-1.5s", "+1s", "1e3s", "s", "", "1", "1.5", "315576000000s", "315576000001s", "-315576000001s",
			"9223372036854775807s", "9223372036854775808s", "1.5 s", "1,5s", "１s", "1s ", " 1s", "1." + strings.Repeat("0", 50) + "s", "1." + strings.Repeat("9", 20) + "s", "0.123456789s", "0.1234567890s", "0.12345678900000s", "1.-5s", "--1s", "1.5.5s", "0x10s", "1S", "1m", "1h30m", "NaNs", "Infs"}
		stamps := []string{"2020-01-01T00:00:00Z", "2020-01-01T00:00:00.1234567890Z", "2020-01-01T00:00:00.000000000000Z", "2020-01-01T00:00:00", "2020-01-01", "2020-01-01T00:00:00+25:00", "0000-01-01T00:00:00Z", "10000-01-01T00:00:00Z", "2020-02-30T00:00:00Z", "2020-01-01T24:00:00Z", "2020-01-01t00:00:00z", "", "now", "1577836800"}
		lits := []string{`1.5`, `true`, `null`, `{}`, `[]`, `{"seconds":1}`, `-0`, `1e400`}
		doc := func(field, val string) []byte { return []byte(`{"` + field + `":` + val + `}`) }
		q := func(s string) string { b, _ := json.Marshal(s); return string(b) }
		for _, d := range durs {
			c06Decode(c, env, md, doc("d", q(d)), "wkt-duration")
			c06Decode(c, env, md, doc("ds", "["+q(d)+"]"), "wkt-duration")
			c06Decode(c, env, md, doc("dm", `{"k":`+q(d)+`}`), "wkt-duration")
			c06Decode(c, env, md, doc("next", `{"next":{"d":`+q(d)+`}}`), "wkt-duration")
			c06Query(c, env, md, url.Values{"d": {d}}, "wkt-duration-query")
			c06Query(c, env, md, url.Values{"ds": {d, d}}, "wkt-duration-query")
		}
		for _, t := range stamps {
			c06Decode(c, env, md, doc("t", q(t)), "wkt-timestamp")
			c06Decode(c, env, md, doc("ts", "["+q(t)+"]"), "wkt-timestamp")
			c06Query(c, env, md, url.Values{"t": {t}}, "wkt-timestamp-query")
		}
		mv := ct.message("verif.wkt.v1.V")
		for _, f := range []string{"d", "t", "sv", "iv", "bv", "yv", "dv", "osv", "oiv"} {
			target := mv
			if f == "d" || f == "t" {
				target = md
			}
			for _, l := range lits {
				c06Decode(c, env, target, doc(f, l), "wkt-literal")
			}
			if f == "d" || f == "t" {
				// the same literals as array elements and map values (null among them)
				for _, l := range lits {
					c06Decode(c, env, target, doc(f+"s", `[`+l+`]`), "wkt-literal-in-array")
					c06Decode(c, env, target, doc(f+"s", `["1s",`+l+`]`), "wkt-literal-in-array")
					if f == "d" {
						c06Decode(c, env, target, doc("dm", `{"a":`+l+`}`), "wkt-literal-in-map")
						c06Decode(c, env, target, doc("dm", `{"a":"1s","b":`+l+`}`), "wkt-literal-in-map")
					}
				}
			}
			for _, sv := range []string{"", "x", "1", "-1", "true", "AA==", "not base64!", "9223372036854775808", "1e400", "NaN"} {
				c06Decode(c, env, target, doc(f, q(sv)), "wkt-wrapper-string")
				c06Query(c, env, target, url.Values{f: {sv}}, "wkt-wrapper-query")
			}
		}
	})
	// --- structural mutations of canonical documents -----------------------------------------
	for cur := 0; cur < 10; cur++ {
		r.Do(fmt.Sprintf("sink/struct/%d", cur), func(c *rt.C) {
			env := sinkEnv()
			rng := c.Rand()
			for _, root := range env.roots {
				g := env.gen(rng, cur, nil)
				g.maxDepth = 1
				budget := 3000
				if root == "verif.sink.v1.Sink" {
					budget = 6000
				}
				c06Structural(c, env, g.message(root, 0), rng, budget)
			}
		})
	}
	for b := 0; b < r.Scale(150, 4000); b++ {
		r.Do(fmt.Sprintf("model/struct/%d", b), func(c *rt.C) {
			rng := c.Rand()
			model := randomModel(rng, fmt.Sprintf("verif.gen%d.v1", b))
			env, err := newCodecEnv(fmt.Sprintf("model-%d", b), model)
			if err != nil {
				panic("harness: generated proto does not compile: " + err.Error())
			}
			for _, root := range env.roots {
				g := env.gen(rng, -1, nil)
				g.maxDepth = 3
				c06Structural(c, env, g.message(root, 0), rng, 600)
			}
		})
	}

	// --- the same types through a second instance of their descriptors, on one codec ---------------------------
	// (a registry reloaded beside the first: same full names, different descriptor objects)
	r.Do("sink/second-descriptor-instance", func(c *rt.C) {
		env := sinkEnv()
		rng := c.Rand()
		ct2, err := compileProtoText(env.ct.Sources)
		if err != nil {
			panic("harness: recompiling the sink model: " + err.Error())
		}
		for _, root := range env.roots {
			md1, md2 := env.ct.message(root), ct2.message(root)
			if md1 == nil || md2 == nil || md1 == md2 {
				panic("harness: second descriptor instance of " + root)
			}
			g := env.gen(rng, 0, nil)
			g.maxDepth = 1
			var docs [][]byte
			for i := 0; i < 3; i++ {
				m := g.message(root, 0)
				if b, err := env.codec.ProtoToJSON(m); err == nil {
					docs = append(docs, b)
				}
			}
			docs = append(docs, []byte("{}"), []byte(`{"zzUnknown":1}`))
			for _, doc := range docs {
				for _, md := range []protoreflect.MessageDescriptor{md1, md2, md1, md2} {
					c06Decode(c, env, md, doc, "second-descriptor-instance")
				}
				// encode what the second instance decodes to
				m2 := dynamicpb.NewMessage(md2)
				if ok, _, _, _ := rt.Guard(func() { err = env.codec.JSONToProto(doc, m2) }); ok && err == nil {
					ok, pv, fn, st := rt.Guard(func() { _, err = env.codec.ProtoToJSON(m2) })
					if !ok {
						c.Violate("encode-panic/"+fn, fmt.Sprintf("ProtoToJSON panicked on a %s built from a second instance of its descriptor: %v", root, pv), map[string]any{"type": root, "input": string(doc), "stack": st})
					}
				}
			}
			c06Query(c, env, md1, url.Values{}, "second-descriptor-instance-query")
			c06Query(c, env, md2, url.Values{}, "second-descriptor-instance-query")
			c06Query(c, env, md2, url.Values{"zzUnknown": {"1"}}, "second-descriptor-instance-query")
		}
	})

	// --- call sequences on one codec: a type that cannot be reflected, then the types it is tangled up with ---------
	r.Do("sequence/after-failed-build", func(c *rt.C) {
		src := map[string]string{"verif/seq/v1/seq.proto": `syntax = "proto3";
package verif.seq.v1;
import "google/protobuf/empty.proto";
message Outer { Inner inner = 1; google.protobuf.Empty bad = 2; }
message Inner { Outer outer = 1; string s = 2; repeated Inner more = 3; }
message Side { Inner inner = 1; Third third = 2; }
message Third { Side side = 1; map<int32, string> bad = 2; Inner inner = 3; }
message Fine { string s = 1; Fine next = 2; }
message UsesAll { Fine fine = 1; Inner inner = 2; Side side = 3; }
`}
		ct, err := compileProtoText(src)
		if err != nil {
			panic("harness: sequence proto does not compile: " + err.Error())
		}
		docs := map[string][]string{
			"verif.seq.v1.Outer":   {"{}", `{"inner":{"s":"x"}}`, `{"inner":{"outer":{}}}`},
			"verif.seq.v1.Inner":   {"{}", `{"outer":{}}`, `{"outer":{"inner":{"s":"x"}}}`, `{"s":"x","more":[{"outer":{}}]}`},
			"verif.seq.v1.Side":    {"{}", `{"inner":{"outer":{}}}`, `{"third":{"side":{}}}`},
			"verif.seq.v1.Third":   {"{}", `{"side":{"inner":{}}}`, `{"inner":{"outer":{}}}`},
			"verif.seq.v1.Fine":    {"{}", `{"s":"x","next":{"s":"y"}}`},
			"verif.seq.v1.UsesAll": {"{}", `{"fine":{"s":"x"},"inner":{"outer":{}},"side":{"third":{}}}`},
		}
		types := rt.SortedKeys(docs)
		rng := c.Rand()
		for trial := 0; trial < 40; trial++ {
			// a fresh codec per trial, the types in a different order each time
			env := &codecEnv{name: "sequence", ct: ct, codec: j5codec.NewCodec(j5codec.WithResolver(ct.Types), j5codec.WithProtoToAny())}
			order := append([]string{}, types...)
			rng.Shuffle(len(order), func(i, j int) { order[i], order[j] = order[j], order[i] })
			for _, full := range append(order, order...) {
				md := ct.message(full)
				for _, doc := range docs[full] {
					c06Decode(c, env, md, []byte(doc), "sequence-after-failed-build")
				}
				c06Query(c, env, md, url.Values{"s": {"x"}}, "sequence-after-failed-build-query")
				// and the encoder
				m := dynamicpb.NewMessage(md)
				ok, pv, fn, st := rt.Guard(func() { _, err = env.codec.ProtoToJSON(m) })
				if !ok {
					c.Violate("encode-panic/"+fn, fmt.Sprintf("ProtoToJSON panicked on an empty %s after other types were used on the codec: %v", full, pv), map[string]any{"type": full, "order": order, "stack": st})
				}
			}
		}
	})

	// --- recursion hazards as decode roots: self- and mutually flattening types, declared at top level and nested ---------
	// (the guards of the schema builder compare type names: a nested message has two spellings, Outer.Node and Outer_Node)
	flat := "[(j5.ext.v1.field).message.flatten = true]"
	hazards := map[string]string{
		"self-flatten-top":           "message A { A next = 1 " + flat + "; string x = 2; }",
		"self-flatten-nested":        "message Outer { message Node { Node next = 1 " + flat + "; string x = 2; } Node node = 1; string x = 2; }",
		"self-flatten-nested-deep":   "message Outer { message Mid { message Node { Node next = 1 " + flat + "; string x = 2; } Node node = 1; } Mid mid = 1; }",
		"self-flatten-nested-unused": "message Outer { message Node { Node next = 1 " + flat + "; string x = 2; } string x = 1; }",
		"mutual-flatten-nested":      "message Outer { message A { B b = 1 " + flat + "; } message B { A a = 1 " + flat + "; string x = 2; } A a = 1; }",
		"mutual-flatten-nested-top":  "message Top { message In { Top t = 1 " + flat + "; string x = 2; } In in = 1 " + flat + "; }",
		"plain-then-flatten-mutual":  "message A { B b = 1; B b2 = 2 " + flat + "; }\nmessage B { A a = 1 " + flat + "; string x = 2; }",
		"plain-then-flatten-nested":  "message Outer { message A { B b = 1; B b2 = 2 " + flat + "; } message B { A a = 1 " + flat + "; string x = 2; } A a = 1; }",
		"flatten-three-cycle-nested": "message Outer { message A { B b = 1 " + flat + "; } message B { C c = 1 " + flat + "; } message C { A a = 1 " + flat + "; string x = 2; } }",
		"sibling-same-short-name":    "message P { message Node { Node next = 1 " + flat + "; string x = 2; } }\nmessage Q { message Node { string x = 1; P.Node other = 2; } Node node = 1; }",
		"underscore-twin":            "message Outer { message Node { Outer_Node twin = 1 " + flat + "; string x = 2; } }\nmessage Outer_Node { Outer.Node back = 1 " + flat + "; string y = 2; }",
		"plain-recursion-nested":     "message Outer { message Node { Node next = 1; repeated Node kids = 2; map<string, Node> by = 3; string x = 4; } Node node = 1; }",
		"flatten-acyclic-nested":     "message Outer { message Inner { string x = 1; } message Node { Inner inner = 1 " + flat + "; Node next = 2; } Node node = 1 " + flat + "; }",
		"wrapper-recursion-nested":   "message Outer { message W { option (j5.ext.v1.message).oneof = {}; oneof type { W w = 1; Outer o = 2; string x = 3; } } W w = 1 " + flat + "; }",
	}
	var allMsgs func(ms protoreflect.MessageDescriptors, out *[]protoreflect.MessageDescriptor)
	allMsgs = func(ms protoreflect.MessageDescriptors, out *[]protoreflect.MessageDescriptor) {
		for i := 0; i < ms.Len(); i++ {
			if ms.Get(i).IsMapEntry() {
				continue
			}
			*out = append(*out, ms.Get(i))
			allMsgs(ms.Get(i).Messages(), out)
		}
	}
	hazardDocs := []string{"{}", `{"x":"1"}`, `{"next":{"x":"1"}}`, `{"node":{"x":"1"}}`, `{"a":{"x":"1"},"b":{"x":"1"}}`, `{"zz":1}`}
	for _, name := range rt.SortedKeys(hazards) {
		decls := hazards[name]
		path := "verif/hazard/v1/hazard.proto"
		src := map[string]string{path: fmt.Sprintf(arbHeader, "verif.hazard.v1") + decls + "\n"}
		use := func(c *rt.C, env *codecEnv, md protoreflect.MessageDescriptor) {
			for _, doc := range hazardDocs {
				c06Decode(c, env, md, []byte(doc), "recursion-hazard-root")
			}
			c06Query(c, env, md, url.Values{}, "recursion-hazard-root-query")
			c06Query(c, env, md, url.Values{"x": {"1"}}, "recursion-hazard-root-query")
			m := dynamicpb.NewMessage(md)
			var err error
			ok, pv, fn, st := rt.Guard(func() { _, err = env.codec.ProtoToJSON(m) })
			_ = err
			if !ok {
				c.Violate("encode-panic/"+fn, fmt.Sprintf("ProtoToJSON panicked on an empty %s: %v", md.FullName(), pv), map[string]any{"type": string(md.FullName()), "stack": st, "proto_sources": env.ct.Sources})
			}
		}
		// how many roots there are is only known after compiling; compile once here to enumerate them
		ct0, err := compileProtoText(src)
		if err != nil {
			panic("harness: hazard proto " + name + " does not compile: " + err.Error())
		}
		fd0, _ := ct0.Files.FindFileByPath(path)
		var roots []protoreflect.MessageDescriptor
		allMsgs(fd0.Messages(), &roots)
		for _, root := range roots {
			full := string(root.FullName())
			// each root first on a codec of its own: what the guard sees depends on which type the cache is asked for first
			r.Do("hazard/"+name+"/"+full, func(c *rt.C) {
				ct, err := compileProtoText(src)
				if err != nil {
					panic("harness: " + err.Error())
				}
				env := &codecEnv{name: "hazard", ct: ct, codec: j5codec.NewCodec(j5codec.WithResolver(ct.Types), j5codec.WithProtoToAny())}
				use(c, env, ct.message(full))
				use(c, env, ct.message(full))
				c.Feature("c06:hazard-root:" + name)
			})
		}
		r.Do("hazard/"+name+"/shared", func(c *rt.C) {
			ct, err := compileProtoText(src)
			if err != nil {
				panic("harness: " + err.Error())
			}
			rng := c.Rand()
			for trial := 0; trial < 6; trial++ {
				env := &codecEnv{name: "hazard", ct: ct, codec: j5codec.NewCodec(j5codec.WithResolver(ct.Types), j5codec.WithProtoToAny())}
				order := rng.Perm(len(roots))
				for _, i := range append(order, order...) {
					use(c, env, ct.message(string(roots[i].FullName())))
				}
			}
		})
	}

	// --- shape-free hostile inputs for every type ------------------------------------------------------
	r.Do("sink/hostile", func(c *rt.C) {
		env := sinkEnv()
		fixed := []string{"", " ", "\n", "null", "true", "0", `""`, "[]", "{}", "{", "}", "[", "]", `{"`, `{"a`, `{"a"`, `{"a":`, `{"a":}`, `{,}`, `{"a":1,}`, "{}{}", "{} x", "[{}]", `"{}"`, `{"!type":"x"}`, `{"!type":null}`, `{"!type":1}`,
			`{"":1}`, `{"\u0000":1}`, "\xff\xfe", "{\"a\":\"\xff\"}", "\ufeff{}", `{"a":1e}`, `{"a":-}`, `{"a":01}`, `{"a":1.}`, `{"a":.5}`, `{"a":+1}`, `{"a":0x10}`, `{"a":NaN}`, `{"a":Infinity}`, `{'a':1}`, `{a:1}`, `/* c */{}`, `{"a":"\ud800"}`, `{"a":"\x"}`, `{"a":"` + strings.Repeat("x", 100000) + `"}`}
		for _, root := range env.roots {
			md := env.ct.message(root)
			for _, in := range fixed {
				c06Decode(c, env, md, []byte(in), "malformed")
			}
		}
	})
	r.Do("sink/deep", func(c *rt.C) {
		env := sinkEnv()
		md := env.ct.message("verif.sink.v1.Sink")
		tm := env.model.msg("verif.sink.v1.Sink")
		var child, children, childMap, typedSelf string
		for _, f := range tm.Fields {
			switch {
			case strings.HasPrefix(f.Name, "child_map"):
				childMap = f.JSON
			case strings.HasPrefix(f.Name, "children"):
				children = f.JSON
			case strings.HasPrefix(f.Name, "child_"):
				child = f.JSON
			}
		}
		for _, f := range env.model.msg("verif.sink.v1.TypedChoice").Fields {
			if strings.HasPrefix(f.Name, "t_self") {
				typedSelf = f.JSON
			}
		}
		for _, depth := range []int{10, 100, 1000, 5000, 20000} {
			open := `{"` + child + `":`
			c06Decode(c, env, md, []byte(strings.Repeat(open, depth)+"{}"+strings.Repeat("}", depth)), "deep-nesting")
			c06Decode(c, env, md, []byte(strings.Repeat(open, depth)), "deep-nesting")
			open = `{"` + children + `":[`
			c06Decode(c, env, md, []byte(strings.Repeat(open, depth)+strings.Repeat("]}", depth)), "deep-nesting")
			open = `{"` + childMap + `":{"k":`
			c06Decode(c, env, md, []byte(strings.Repeat(open, depth)+"{}"+strings.Repeat("}}", depth)), "deep-nesting")
			c06Decode(c, env, md, []byte(strings.Repeat("[", depth)+strings.Repeat("]", depth)), "deep-nesting")
			c06Decode(c, env, md, []byte(strings.Repeat(`{"a":`, depth)+"1"+strings.Repeat("}", depth)), "deep-nesting")
			tmd := env.ct.message("verif.sink.v1.TypedChoice")
			open = `{"!type":"` + typedSelf + `","` + typedSelf + `":`
			c06Decode(c, env, tmd, []byte(strings.Repeat(open, depth)+"{}"+strings.Repeat("}", depth)), "deep-nesting")
			// an unknown member holding a deep value must be skipped or rejected, not recursed into without bound
			c06Decode(c, env, md, []byte(`{"zz":`+strings.Repeat("[", depth)+strings.Repeat("]", depth)+`}`), "deep-nesting")
		}
	})
	for b := 0; b < r.Scale(100, 4000); b++ {
		r.Do(fmt.Sprintf("random/%d", b), func(c *rt.C) {
			env := sinkEnv()
			rng := c.Rand()
			for i := 0; i < 60; i++ {
				md := env.ct.message(env.roots[rng.Intn(len(env.roots))])
				switch rng.Intn(3) {
				case 0:
					bb := make([]byte, rng.Intn(60))
					rng.Read(bb)
					c06Decode(c, env, md, bb, "random-bytes")
				case 1:
					c06Decode(c, env, md, []byte(randomJSON(rng, 0)), "random-json")
				default:
					// valid JSON with the type's own member names and wrong-shaped values
					tm := env.model.msg(string(md.FullName()))
					var parts []string
					for _, f := range tm.Fields {
						if rng.Intn(6) == 0 {
							parts = append(parts, jEscape(f.JSON)+":"+randomJSON(rng, 2))
						}
					}
					c06Decode(c, env, md, []byte("{"+strings.Join(parts, ",")+"}"), "wrong-shape")
				}
			}
		})
	}

	// --- url.Values ------------------------------------------------------------------------------------------
	r.Do("query/systematic", func(c *rt.C) {
		for _, env := range []*codecEnv{sinkEnv(), queryEnv()} {
			for _, root := range env.roots {
				md := env.ct.message(root)
				tm := env.model.msg(root)
				vals := []string{"", "null", "{}", "{", "[]", "1", "true", "x", `{"a":1}`, ` {}`, "{\"!type\":\"x\"}", strings.Repeat("9", 400)}
				keys := []string{"", ".", "..", "a", "a.", ".a", "a..b", "!type", "zz.yy"}
				for _, f := range tm.Fields {
					keys = append(keys, f.JSON, f.Name, f.JSON+".", f.JSON+".x", f.JSON+".0", f.JSON+"."+f.JSON, "."+f.JSON)
					if f.Kind == kObject || f.Kind == kOneof {
						if sub := env.model.msg(f.Ref); sub != nil {
							for _, sf := range sub.Fields {
								keys = append(keys, f.JSON+"."+sf.JSON, f.JSON+"."+sf.JSON+".x")
							}
						}
					}
				}
				for _, g := range tm.Groups {
					keys = append(keys, protocJSONName(g.Name), protocJSONName(g.Name)+".x")
				}
				for _, k := range keys {
					for _, v := range vals {
						c06Query(c, env, md, url.Values{k: {v}}, "query-single")
					}
					c06Query(c, env, md, url.Values{k: {"1", "2"}}, "query-repeated")
					c06Query(c, env, md, url.Values{k: {}}, "query-empty-list")
					c06Query(c, env, md, url.Values{k: {"{}", "{}"}}, "query-repeated")
				}
				// the same path addressed twice through different spellings
				for _, f := range tm.Fields {
					if f.Kind == kObject {
						c06Query(c, env, md, url.Values{f.JSON: {"{}"}, f.JSON + ".x": {"1"}}, "query-conflict")
					}
				}
			}
		}
	})
	for b := 0; b < r.Scale(60, 2000); b++ {
		r.Do(fmt.Sprintf("query/random/%d", b), func(c *rt.C) {
			env := sinkEnv()
			rng := c.Rand()
			for i := 0; i < 40; i++ {
				root := env.roots[rng.Intn(len(env.roots))]
				md := env.ct.message(root)
				tm := env.model.msg(root)
				q := url.Values{}
				for n := rng.Intn(4); n >= 0; n-- {
					var key string
					if len(tm.Fields) > 0 && rng.Intn(5) > 0 {
						f := tm.Fields[rng.Intn(len(tm.Fields))]
						key = f.JSON
						for rng.Intn(3) == 0 {
							key += "." + []string{"x", f.JSON, "0", "", "!type"}[rng.Intn(5)]
						}
					} else {
						key = randomUnicode(rng, rng.Intn(6))
					}
					for k := rng.Intn(3); k >= 0; k-- {
						q.Add(key, []string{"", "1", "x", "true", "{}", randomJSON(rng, 3), randomUnicode(rng, 5)}[rng.Intn(7)])
					}
				}
				// go through a real query string, as an HTTP server would
				parsed, err := url.ParseQuery(q.Encode())
				if err == nil {
					q = parsed
				}
				c06Query(c, env, md, q, "query-random")
			}
		})
	}
}
