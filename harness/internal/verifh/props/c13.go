//go:build verif

package props

import (
	"fmt"
	"math/rand"
	"sort"
	"strings"

	"github.com/pentops/j5/internal/verifh/rt"
	"google.golang.org/genproto/googleapis/api/annotations"
	"google.golang.org/protobuf/proto"
	"google.golang.org/protobuf/types/descriptorpb"
)

func init() { Registry["C13"] = runC13 }

// identity table: element path -> wire identity
type idTable map[string]string

func identityOf(protos []*descriptorpb.FileDescriptorProto) idTable {
	t := idTable{}
	var walkMsg func(prefix string, m *descriptorpb.DescriptorProto)
	walkMsg = func(prefix string, m *descriptorpb.DescriptorProto) {
		full := prefix + "." + m.GetName()
		if m.GetOptions().GetMapEntry() {
			// map entries are an encoding detail of the map field; covered by the field's own identity
		}
		t["message "+full] = "exists"
		for _, f := range m.Field {
			t["field "+full+"."+f.GetName()] = fmt.Sprintf("number=%d type=%s type_name=%s label=%s json=%s proto3_optional=%v", f.GetNumber(), f.GetType(), f.GetTypeName(), f.GetLabel(), f.GetJsonName(), f.GetProto3Optional())
		}
		for _, n := range m.NestedType {
			walkMsg(full, n)
		}
		for _, e := range m.EnumType {
			for _, v := range e.Value {
				t["enum-value "+full+"."+e.GetName()+"."+v.GetName()] = fmt.Sprintf("number=%d", v.GetNumber())
			}
		}
	}
	for _, fd := range protos {
		pkg := fd.GetPackage()
		for _, m := range fd.MessageType {
			walkMsg(pkg, m)
		}
		for _, e := range fd.EnumType {
			for _, v := range e.Value {
				t["enum-value "+pkg+"."+e.GetName()+"."+v.GetName()] = fmt.Sprintf("number=%d", v.GetNumber())
			}
		}
		for _, s := range fd.Service {
			t["service "+pkg+"."+s.GetName()] = "exists"
			for _, m := range s.Method {
				rule := ""
				if m.Options != nil && proto.HasExtension(m.Options, annotations.E_Http) {
					h := proto.GetExtension(m.Options, annotations.E_Http).(*annotations.HttpRule)
					rule = fmt.Sprintf("get=%q post=%q put=%q patch=%q delete=%q body=%q", h.GetGet(), h.GetPost(), h.GetPut(), h.GetPatch(), h.GetDelete(), h.GetBody())
				}
				t["method "+pkg+"."+s.GetName()+"."+m.GetName()] = fmt.Sprintf("input=%s output=%s http={%s}", m.GetInputType(), m.GetOutputType(), rule)
			}
		}
	}
	return t
}

func compileAll(b *jBundle) (idTable, error) {
	src := b.sources()
	mb := newMemBundle(src)
	var all []*descriptorpb.FileDescriptorProto
	seen := map[string]bool{}
	for _, pkg := range mb.packages {
		cp, err := compileBundlePackage(mb, pkg)
		if err != nil {
			return nil, fmt.Errorf("package %s: %w", pkg, err)
		}
		for _, p := range cp.Protos {
			if !seen[p.GetName()] {
				seen[p.GetName()] = true
				all = append(all, p)
			}
		}
	}
	return identityOf(all), nil
}

var c13Suffix = []string{"Alpha", "Beta", "Gamma", "Delta", "Epsilon", "Zeta"}

// appendEdit applies one append edit to the bundle (in place) and describes it.
func appendEdit(rng *rand.Rand, b *jBundle, step int) string {
	g := &j5Gen{rng: rng}
	newField := func() *jF {
		f := fld("appended"+c13Suffix[step%len(c13Suffix)], g.scalarType())
		if rng.Intn(4) == 0 {
			f.T = tArr(tScalar(kString))
		}
		if rng.Intn(5) == 0 {
			f.T = &jT{Kind: kObject, Inline: &jDecl{Kind: kObject, Fields: []*jF{fld("inner", tScalar(kString))}}}
		}
		return f
	}
	type target struct {
		kind string
		do   func() string
	}
	var targets []target
	for _, f := range b.Files {
		f := f
		for _, e := range f.Elems {
			e := e
			switch {
			case e.Decl != nil && e.Decl.Kind == kObject:
				targets = append(targets, target{"object-field", func() string {
					e.Decl.Fields = append(e.Decl.Fields, newField())
					return "append field to object " + e.Decl.Name
				}})
				// an inline object whose nested name is the name of a package-level type this object already refers to
				for _, ef := range e.Decl.Fields {
					t := ef.T
					for t != nil && t.Item != nil {
						t = t.Item
					}
					if t == nil || t.Kind != kObject || t.Inline != nil || !strings.HasPrefix(t.RefFull, f.Pkg+".") {
						continue
					}
					typeName := strings.TrimPrefix(t.RefFull, f.Pkg+".")
					fieldName := strings.ToLower(typeName[:1]) + typeName[1:]
					if typeName == e.Decl.Name || strings.Contains(typeName, ".") {
						continue
					}
					dup := false
					for _, x := range e.Decl.Fields {
						if x.Name == fieldName {
							dup = true
						}
					}
					if dup {
						continue
					}
					targets = append(targets, target{"object-field-inline-named-as-type", func() string {
						e.Decl.Fields = append(e.Decl.Fields, fld(fieldName, &jT{Kind: kObject, Inline: &jDecl{Kind: kObject, Fields: []*jF{fld("inner", tScalar(kString))}}}))
						return "append inline object field " + fieldName + " (nested " + typeName + ") to object " + e.Decl.Name
					}})
					break
				}
			case e.Decl != nil && e.Decl.Kind == kOneof:
				targets = append(targets, target{"oneof-option", func() string {
					e.Decl.Fields = append(e.Decl.Fields, fld("appended"+c13Suffix[step%len(c13Suffix)], &jT{Kind: kObject, Inline: &jDecl{Kind: kObject, Fields: []*jF{fld("inner", tScalar(kString))}}}))
					return "append option to oneof " + e.Decl.Name
				}})
			case e.Decl != nil && e.Decl.Kind == kEnum:
				targets = append(targets, target{"enum-option", func() string {
					e.Decl.Options = append(e.Decl.Options, "APPENDED_"+strings.ToUpper(c13Suffix[step%len(c13Suffix)]))
					return "append option to enum " + e.Decl.Name
				}})
				targets = append(targets, target{"enum-option-named-like-zero", func() string {
					// an ordinary option whose name merely ends the way the implicit zero option's name does
					e.Decl.Options = append(e.Decl.Options, "LEGACY"+strings.ToUpper(c13Suffix[step%len(c13Suffix)])+"_UNSPECIFIED")
					return "append option ending in _UNSPECIFIED to enum " + e.Decl.Name
				}})
				targets = append(targets, target{"enum-option-numbered", func() string {
					name := "NUMBERED_" + strings.ToUpper(c13Suffix[step%len(c13Suffix)])
					e.Decl.Options = append(e.Decl.Options, name)
					if e.Decl.OptNumber == nil {
						e.Decl.OptNumber = map[string]int32{}
					}
					e.Decl.OptNumber[name] = int32(len(e.Decl.Options) + 20 + step)
					return "append option with an explicit number to enum " + e.Decl.Name
				}})
			case e.Service != nil:
				for _, m := range e.Service.Methods {
					m := m
					targets = append(targets, target{"request-field", func() string {
						m.Req = append(m.Req, newField())
						return "append field to request of " + m.Name
					}})
					if m.HasRes {
						targets = append(targets, target{"response-field", func() string {
							m.Res = append(m.Res, newField())
							return "append field to response of " + m.Name
						}})
					}
				}
				targets = append(targets, target{"service-method", func() string {
					e.Service.Methods = append(e.Service.Methods, &jMethod{Name: "Appended" + c13Suffix[step%len(c13Suffix)], HTTPMethod: "POST", Path: "/appended/" + strings.ToLower(c13Suffix[step%len(c13Suffix)]), HasRes: true})
					return "append method to service " + e.Service.Name
				}})
			case e.Topic != nil:
				var msgs []*jTopicMsg
				msgs = append(msgs, e.Topic.Messages...)
				if e.Topic.Request != nil {
					msgs = append(msgs, e.Topic.Request, e.Topic.Reply)
				}
				for _, m := range msgs {
					m := m
					targets = append(targets, target{"topic-field", func() string {
						m.Fields = append(m.Fields, newField())
						return "append field to topic message " + m.Name
					}})
				}
			case e.Entity != nil:
				en := e.Entity
				targets = append(targets, target{"entity-data", func() string {
					en.Data = append(en.Data, newField())
					return "append data field to entity " + en.Name
				}})
				targets = append(targets, target{"entity-status", func() string {
					en.Statuses = append(en.Statuses, "APPENDED_"+strings.ToUpper(c13Suffix[step%len(c13Suffix)]))
					return "append status to entity " + en.Name
				}})
				for _, ev := range en.Events {
					ev := ev
					targets = append(targets, target{"event-field", func() string {
						ev.Fields = append(ev.Fields, newField())
						return "append field to event " + ev.Name
					}})
				}
				targets = append(targets, target{"entity-event", func() string {
					en.Events = append(en.Events, &jEvent{Name: "Appended" + c13Suffix[step%len(c13Suffix)], Fields: []*jF{fld("note", tScalar(kString))}})
					return "append event to entity " + en.Name
				}})
			}
		}
		targets = append(targets, target{"top-level-declaration", func() string {
			name := "Appended" + c13Suffix[step%len(c13Suffix)]
			switch rng.Intn(5) {
			case 0:
				f.Elems = append(f.Elems, objDecl(name, fld("name", tScalar(kString))))
			case 1:
				f.Elems = append(f.Elems, enumDecl(name, "ONE", "TWO"))
			case 2:
				f.Elems = append(f.Elems, &jElem{Service: &jService{Name: name, BasePath: "/appended/" + strings.ToLower(name), Methods: []*jMethod{{Name: "Do" + name, HTTPMethod: "POST", Path: "/do", Req: []*jF{fld("name", tScalar(kString))}, HasRes: true, Res: []*jF{fld("ok", tScalar(kBool))}}}}})
				return "append service " + name + " to " + f.Path
			case 3:
				f.Elems = append(f.Elems, &jElem{Topic: &jTopic{Name: name, Type: "publish", Messages: []*jTopicMsg{{Name: "Send" + name, Fields: []*jF{fld("name", tScalar(kString))}}}}})
				return "append topic " + name + " to " + f.Path
			default:
				f.Elems = append(f.Elems, oneofDecl(name, fld("only", &jT{Kind: kObject, Inline: &jDecl{Kind: kObject}})))
			}
			return "append declaration " + name + " to " + f.Path
		}})
	}
	if len(b.Files) > 0 {
		targets = append(targets, target{"new-file", func() string {
			f0 := b.Files[0]
			dir := f0.Path[:strings.LastIndex(f0.Path, "/")]
			nf := &jFile{Path: fmt.Sprintf("%s/zappended%s.j5s", dir, strings.ToLower(c13Suffix[step%len(c13Suffix)])), Pkg: f0.Pkg, Elems: []*jElem{objDecl("FileAppended"+c13Suffix[step%len(c13Suffix)], fld("name", tScalar(kString)))}}
			b.Files = append(b.Files, nf)
			return "append file " + nf.Path
		}})
	}
	t := targets[rng.Intn(len(targets))]
	return t.kind + ": " + t.do()
}

// dottedBundle: source files with further dots in their names; only the first declares a service and a topic
func dottedBundle(rng *rand.Rand) *jBundle {
	g := &j5Gen{rng: rng}
	k := &j5Known{pkg: "ord.v1", enums: map[string][]string{}}
	read := &jFile{Path: "ord/v1/orders.read.j5s", Pkg: "ord.v1", Elems: []*jElem{
		objDecl("OrderView", g.fields(k, 1+rng.Intn(3), "")...),
		{Service: &jService{Name: "OrderRead", BasePath: "/ord/v1/read", Methods: []*jMethod{{Name: "GetOrderView", HTTPMethod: "GET", Path: "/one", HasRes: true, Res: []*jF{fld("view", tRef(kObject, "OrderView", "ord.v1.OrderView"))}}}}},
		{Topic: &jTopic{Name: "OrderRead", Type: "publish", Messages: []*jTopicMsg{{Name: "PostOrderView", Fields: []*jF{fld("name", tScalar(kString))}}}}},
	}}
	write := &jFile{Path: "ord/v1/orders.write.j5s", Pkg: "ord.v1", Elems: []*jElem{
		objDecl("OrderDraft", g.fields(k, 1+rng.Intn(3), "")...),
		enumDecl("OrderMode", "FAST", "SLOW"),
	}}
	return &jBundle{Files: []*jFile{read, write}}
}

func entityBundle(rng *rand.Rand) *jBundle {
	g := &j5Gen{rng: rng}
	k := &j5Known{pkg: "ent.v1", enums: map[string][]string{}}
	e := &jEntity{Name: "Widget", Keys: []*jF{fld("widgetId", tKeyF("id62").with(func(t *jT) { t.Primary = pB(true) }))}, Data: g.fields(k, 1+rng.Intn(3), ""), Statuses: []string{"ACTIVE", "ARCHIVED"},
		Events: []*jEvent{{Name: "Created", Fields: g.fields(k, rng.Intn(3), "")}, {Name: "Archived"}}}
	return &jBundle{Files: []*jFile{{Path: "ent/v1/widget.j5s", Pkg: "ent.v1", Elems: []*jElem{{Entity: e}, enumDecl("Shade", "LIGHT", "DARK")}}}}
}

// shadowHistory: a package whose existing references could be captured by what an append brings in: a reference to
// another package's type of the same short name, an inline object whose nested name is that of a package-level type.
// Returns the bundle and the scripted append edits, applied in a random order.
func shadowHistory(rng *rand.Rand) (*jBundle, []func() string) {
	main := &jFile{Path: "local/v1/main.j5s", Pkg: "local.v1", Imports: []*jImport{{Path: "other.v1"}}, Elems: []*jElem{
		objDecl("Foo", fld("name", tScalar(kString))),
		objDecl("Item", fld("name", tScalar(kString))),
		enumDecl("Level", "LOW", "HIGH"),
		objDecl("Early", fld("title", tScalar(kString)), fld("anchor", tRef(kObject, "other.v1.Anchor", "other.v1.Anchor"))),
		objDecl("Later", fld("mine", tRef(kObject, "Foo", "local.v1.Foo")), fld("mines", tArr(tRef(kObject, "Foo", "local.v1.Foo"))), fld("level", tRef(kEnum, "Level", "local.v1.Level"))),
		objDecl("Mixed", fld("item", &jT{Kind: kObject, Inline: &jDecl{Kind: kObject, Fields: []*jF{fld("inner", tScalar(kString))}}}), fld("level", &jT{Kind: kEnum, Inline: &jDecl{Kind: kEnum, Options: []string{"UP", "DOWN"}}})),
		{Service: &jService{Name: "Things", BasePath: "/local/v1", Methods: []*jMethod{
			{Name: "First", HTTPMethod: "POST", Path: "/first", Req: []*jF{fld("given", tRef(kObject, "Item", "local.v1.Item"))}, HasRes: true, Res: []*jF{fld("first", tRef(kObject, "Item", "local.v1.Item")), fld("foo", tRef(kObject, "Foo", "local.v1.Foo"))}},
			{Name: "Second", HTTPMethod: "GET", Path: "/second", HasRes: true, Res: []*jF{fld("item", tRef(kObject, "Item", "local.v1.Item"))}}}}},
		{Topic: &jTopic{Name: "Things", Type: "publish", Messages: []*jTopicMsg{{Name: "PostThing", Fields: []*jF{fld("first", tRef(kObject, "Item", "local.v1.Item"))}}}}},
	}}
	other := &jFile{Path: "other/v1/types.j5s", Pkg: "other.v1", Elems: []*jElem{objDecl("Foo", fld("code", tScalar(kString))), objDecl("Anchor", fld("code", tScalar(kString))), enumDecl("Level", "ONE", "TWO"), objDecl("Item", fld("code", tScalar(kString)))}}
	b := &jBundle{Files: []*jFile{main, other}}
	inline := func() *jT {
		return &jT{Kind: kObject, Inline: &jDecl{Kind: kObject, Fields: []*jF{fld("inner", tScalar(kString))}}}
	}
	early, later := main.Elems[3].Decl, main.Elems[4].Decl
	mixed := main.Elems[5].Decl
	svc, topic := main.Elems[6].Service, main.Elems[7].Topic
	edits := []func() string{
		func() string {
			early.Fields = append(early.Fields, fld("theirs", tRef(kObject, "other.v1.Foo", "other.v1.Foo")))
			return "shadow-foreign-same-name: append field theirs object:other.v1.Foo to object Early"
		},
		func() string {
			early.Fields = append(early.Fields, fld("theirLevel", tRef(kEnum, "other.v1.Level", "other.v1.Level")))
			return "shadow-foreign-same-name: append field theirLevel enum:other.v1.Level to object Early"
		},
		func() string {
			svc.Methods[0].Res = append(svc.Methods[0].Res, fld("item", inline()))
			return "shadow-inline-in-response: append inline object field item (nested Item) to response of First"
		},
		func() string {
			svc.Methods[0].Req = append(svc.Methods[0].Req, fld("foo", inline()))
			return "shadow-inline-in-request: append inline object field foo (nested Foo) to request of First"
		},
		func() string {
			topic.Messages[0].Fields = append(topic.Messages[0].Fields, fld("item", inline()))
			return "shadow-inline-in-topic: append inline object field item (nested Item) to topic message PostThing"
		},
		func() string {
			later.Fields = append(later.Fields, fld("theirItem", tRef(kObject, "other.v1.Item", "other.v1.Item")))
			return "shadow-foreign-same-name: append field theirItem object:other.v1.Item to object Later"
		},
		func() string {
			svc.Methods[1].Res = append(svc.Methods[1].Res, fld("theirs", tRef(kObject, "other.v1.Item", "other.v1.Item")))
			return "shadow-foreign-in-response: append field theirs object:other.v1.Item to response of Second"
		},
	}
	edits = append(edits,
		func() string {
			// the object already nests an inline Item (from its field item); now it also refers to the package-level Item
			mixed.Fields = append(mixed.Fields, fld("linked", tRef(kObject, "Item", "local.v1.Item")))
			return "shadow-ref-after-inline: append field linked object:Item to object Mixed, which nests an inline Item"
		},
		func() string {
			mixed.Fields = append(mixed.Fields, fld("linkedLevel", tRef(kEnum, "Level", "local.v1.Level")))
			return "shadow-ref-after-inline: append field linkedLevel enum:Level to object Mixed, which nests an inline Level"
		})
	rng.Shuffle(len(edits), func(i, j int) { edits[i], edits[j] = edits[j], edits[i] })
	return b, edits
}

// listHistory: hand-written services with list methods (j5.list.v1 page / query objects in the request, page in the
// response) and appends to exactly those requests and responses: fields of library types must keep their place among
// the others.
func listHistory(rng *rand.Rand) (*jBundle, []func() string) {
	g := &j5Gen{rng: rng}
	b, _ := g.apiBundle(false, true, 0)
	var edits []func() string
	n := 0
	for _, f := range b.Files {
		for _, e := range f.Elems {
			if e.Service == nil {
				continue
			}
			for _, m := range e.Service.Methods {
				m := m
				isList := false
				for _, rf := range m.Req {
					if rf.T != nil && strings.HasPrefix(rf.T.RefFull, "j5.list.v1.") {
						isList = true
					}
				}
				if !isList {
					continue
				}
				if rng.Intn(2) == 0 {
					// the library types spelled with their full package name instead of the import alias
					for _, rf := range append(append([]*jF{}, m.Req...), m.Res...) {
						if rf.T != nil && strings.HasPrefix(rf.T.RefFull, "j5.list.v1.") {
							rf.T.Ref = rf.T.RefFull
						}
					}
				}
				for rep := 0; rep < 2; rep++ {
					n++
					name := fmt.Sprintf("listAppended%s", c13Suffix[n%len(c13Suffix)])
					edits = append(edits, func() string {
						m.Req = append(m.Req, fld(name, g.scalarType()))
						return "list-request: append field to request of list method " + m.Name
					})
					n++
					name2 := fmt.Sprintf("listAppended%s", c13Suffix[n%len(c13Suffix)])
					edits = append(edits, func() string {
						m.Res = append(m.Res, fld(name2, g.scalarType()))
						return "list-response: append field to response of list method " + m.Name
					})
				}
			}
		}
	}
	for i := 0; i < 2; i++ {
		i := i
		edits = append(edits, func() string { return appendEdit(rng, b, i) })
	}
	rng.Shuffle(len(edits), func(i, j int) { edits[i], edits[j] = edits[j], edits[i] })
	return b, edits
}

func runC13(r *rt.Runner) {
	for b := 0; b < r.Scale(500, 15000); b++ {
		r.Do(fmt.Sprintf("history/%d", b), func(c *rt.C) {
			rng := c.Rand()
			var bundle *jBundle
			var scripted []func() string
			if b%4 == 3 {
				bundle = entityBundle(rng)
			} else if b%8 == 2 {
				bundle = dottedBundle(rng)
			} else if b%8 == 6 {
				bundle, scripted = shadowHistory(rng)
			} else if b%8 == 5 {
				bundle, scripted = listHistory(rng)
			} else {
				bundle = (&j5Gen{rng: rng}).randomBundle()
			}
			steps := 1 + rng.Intn(6)
			if scripted != nil {
				steps = len(scripted)
			}
			var versions []idTable
			var edits []string
			var sources []map[string]string
			t0, err := compileAll(bundle)
			if err != nil {
				c.Event("initial_bundle_does_not_compile") // C07's subject
				return
			}
			versions = append(versions, t0)
			sources = append(sources, bundle.sources())
			for s := 0; s < steps; s++ {
				var what string
				if scripted != nil {
					what = scripted[s]()
				} else {
					what = appendEdit(rng, bundle, s)
				}
				edits = append(edits, what)
				c.Feature("c13:edit:" + strings.SplitN(what, ":", 2)[0])
				var tn idTable
				c.Input(bundleBytes(bundle.sources()))
				ok, pv, fn, _ := rt.Guard(func() { tn, err = compileAll(bundle) })
				c.EndBudget()
				if !ok {
					c.Violate("compile-panic/"+fn, fmt.Sprintf("compiling after %q panicked: %v", what, pv), srcDetail(bundle.sources()))
					return
				}
				if err != nil {
					d := srcDetail(bundle.sources())
					d["edits"] = edits
					c.Violate("append-breaks-compile/"+strings.SplitN(what, ":", 2)[0], fmt.Sprintf("the package no longer compiles after %q: %v", what, rt.Clip(err.Error(), 300)), d)
					return
				}
				versions = append(versions, tn)
				sources = append(sources, bundle.sources())
			}
			// offline check over the recorded history: identity(P_i) ⊆ identity(P_j) for all i < j
			nontrivial := false
			for i := 0; i < len(versions); i++ {
				for j := i + 1; j < len(versions); j++ {
					keys := make([]string, 0, len(versions[i]))
					for k := range versions[i] {
						keys = append(keys, k)
					}
					sort.Strings(keys)
					for _, k := range keys {
						nontrivial = true
						after, ok := versions[j][k]
						kind := strings.SplitN(k, " ", 2)[0]
						if !ok {
							c.Violate("identity-lost/"+kind, fmt.Sprintf("%s disappears between version %d and %d of the history (edits: %s)", k, i, j, strings.Join(edits[i:j], " ; ")),
								map[string]any{"before": sources[i], "after": sources[j], "edits": edits})
							continue
						}
						if after != versions[i][k] {
							c.Violate("identity-changed/"+kind, fmt.Sprintf("%s changes from {%s} to {%s} between version %d and %d (edits: %s)", k, versions[i][k], after, i, j, strings.Join(edits[i:j], " ; ")),
								map[string]any{"before": sources[i], "after": sources[j], "edits": edits})
						}
					}
				}
			}
			c.EventN("identities_compared", int64(len(versions[0])*len(versions)))
			c.Eval(rt.Hash(strings.Join(edits, "|"), string(bundleBytes(sources[0]))), nontrivial)
			if c.WantSample() {
				c.Sample(map[string]any{"edits": edits, "elements_in_first_version": len(versions[0]), "elements_in_last_version": len(versions[len(versions)-1])})
			}
		})
	}
}
