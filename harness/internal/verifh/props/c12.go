//go:build verif

package props

import (
	"errors"
	"fmt"
	"math/rand"
	"regexp"
	"strings"
	"unicode/utf8"

	"github.com/bufbuild/protovalidate-go"
	"github.com/pentops/j5/internal/verifh/rt"
	"google.golang.org/protobuf/reflect/protoreflect"
	"google.golang.org/protobuf/types/dynamicpb"
)

func init() { Registry["C12"] = runC12 }

// a declaration under test: one field with rules, and a description for signatures
type c12Decl struct {
	id    string
	field *jF
	// enum options when the field is an enum
	enumOptions []string
	// enumNumbers: the number of each option when the enum is not numbered 1..n in order (hand-written proto)
	enumNumbers []int32
}

// enumName: the option name of a number ("" and false when the number is not defined)
func (d *c12Decl) enumName(n int32) (string, bool) {
	if n == 0 {
		return "UNSPECIFIED", true
	}
	if d.enumNumbers != nil {
		for i, x := range d.enumNumbers {
			if x == n {
				return d.enumOptions[i], true
			}
		}
		return "", false
	}
	if n < 0 || int(n) > len(d.enumOptions) {
		return "", false
	}
	return d.enumOptions[n-1], true
}

// candidate value in harness terms
type c12Value struct {
	desc   string
	unset  bool
	str    *string
	i64    *int64
	u64    *uint64
	bytes  []byte
	b      *bool
	enum   *int32
	strs   []string // array of strings / keys
	ints   []int64  // array of integers
	isList bool
}

var uuidRe = regexp.MustCompile(`^[0-9a-fA-F]{8}-[0-9a-fA-F]{4}-[0-9a-fA-F]{4}-[0-9a-fA-F]{4}-[0-9a-fA-F]{12}$`)

// refString evaluates the declared rules of a string-like type on one value.
// c12FormatValues: strings whose validity for a well-known string format is not in doubt
var c12FormatValues = map[string]map[string]bool{
	"email":    {"bob@example.com": true, "alice@other.org": true, "not an email": false, "missing-at.example.com": false},
	"hostname": {"example.com": true, "host-1.internal": true, "bad host!": false, "-leading.dash": false},
	"ipv4":     {"10.0.0.1": true, "192.168.1.20": true, "10.0.0.256": false, "abc": false},
	"ipv6":     {"2001:db8::68": true, "::1": true, "2001:db8::g": false, "10.0.0.1": false},
	"uri":      {"https://example.com/a": true, "mailto:x@example.com": true, "not a uri": false},
}

// c12FormatPatterns: a pattern per format which accepts one valid value and rejects another
var c12FormatPatterns = map[string]string{
	"email":    "^[a-z]+@example\\.com$",
	"hostname": "^[a-z.]+$",
	"ipv4":     "^10\\.",
	"ipv6":     "^2001:",
	"uri":      "^https://",
}

func refString(t *jT, s string) bool {
	if t.Kind == kKey {
		switch t.KeyFmt {
		case "id62":
			if !publishedID62Re.MatchString(s) {
				return false
			}
		case "uuid":
			if !uuidRe.MatchString(s) {
				return false
			}
		case "custom":
			if ok, _ := regexp.MatchString(t.KeyCustom, s); !ok {
				return false
			}
		}
		return true
	}
	if t.StrFormat != "" {
		// only values whose validity for the format is known to the harness are offered as candidates
		valid, known := c12FormatValues[t.StrFormat][s]
		if !known {
			panic("harness: candidate " + s + " is not in the table of format " + t.StrFormat)
		}
		if !valid {
			return false
		}
	}
	if r := t.Rules; r != nil {
		n := uint64(utf8.RuneCountInString(s))
		if r.MinLen != nil && n < *r.MinLen {
			return false
		}
		if r.MaxLen != nil && n > *r.MaxLen {
			return false
		}
		if r.Pattern != nil {
			if ok, _ := regexp.MatchString(*r.Pattern, s); !ok {
				return false
			}
		}
	}
	return true
}

func refInt(t *jT, v int64, u uint64, unsigned bool) bool {
	r := t.Rules
	if r == nil {
		return true
	}
	cmp := func(bound int64) int { // value compared with bound
		if unsigned {
			if bound < 0 {
				return 1
			}
			switch {
			case u < uint64(bound):
				return -1
			case u > uint64(bound):
				return 1
			}
			return 0
		}
		switch {
		case v < bound:
			return -1
		case v > bound:
			return 1
		}
		return 0
	}
	if r.Max != nil {
		c := cmp(*r.Max)
		if c > 0 || (c == 0 && r.ExMax != nil && *r.ExMax) {
			return false
		}
	}
	if r.Min != nil {
		c := cmp(*r.Min)
		if c < 0 || (c == 0 && r.ExMin != nil && *r.ExMin) {
			return false
		}
	}
	return true
}

// c12Reference: does the value satisfy the declared rules?
func c12Reference(d *c12Decl, v c12Value) bool {
	f := d.field
	t := f.T
	if v.unset {
		if f.Opt {
			// a field with presence that is not set: its rules do not apply
			return !f.Req
		}
		// no presence: an unset field holds its zero value and the rules apply to it
		switch t.Kind {
		case kString, kKey:
			z := ""
			v = c12Value{desc: v.desc, str: &z}
		case "integer":
			var zi int64
			var zu uint64
			v = c12Value{desc: v.desc, i64: &zi, u64: &zu}
		case kBytes:
			v = c12Value{desc: v.desc, bytes: []byte{}}
		case kBool:
			z := false
			v = c12Value{desc: v.desc, b: &z}
		case kEnum:
			var z int32
			v = c12Value{desc: v.desc, enum: &z}
		case "array":
			v = c12Value{desc: v.desc, isList: true}
		default:
			return !f.Req
		}
	}
	switch t.Kind {
	case kString, kKey:
		if f.Req && *v.str == "" && !f.Opt {
			return false // no presence: the zero value is the absent value
		}
		return refString(t, *v.str)
	case "integer":
		unsigned := strings.HasPrefix(t.IntFmt, "U")
		var iv int64
		var uv uint64
		if unsigned {
			uv = *v.u64
			if f.Req && uv == 0 && !f.Opt {
				return false
			}
		} else {
			iv = *v.i64
			if f.Req && iv == 0 && !f.Opt {
				return false
			}
		}
		return refInt(t, iv, uv, unsigned)
	case kBytes:
		if f.Req && len(v.bytes) == 0 && !f.Opt {
			return false
		}
		if r := t.Rules; r != nil {
			if r.BMinLen != nil && uint64(len(v.bytes)) < *r.BMinLen {
				return false
			}
			if r.BMaxLen != nil && uint64(len(v.bytes)) > *r.BMaxLen {
				return false
			}
		}
		return true
	case kBool:
		if f.Req && !*v.b && !f.Opt {
			return false
		}
		if r := t.Rules; r != nil && r.Const != nil && *v.b != *r.Const {
			return false
		}
		return true
	case kEnum:
		n := *v.enum
		if f.Req && n == 0 && !f.Opt {
			return false
		}
		// defined values only
		name, defined := d.enumName(n)
		if !defined {
			return false
		}
		if r := t.Rules; r != nil {
			if r.In != nil {
				ok := false
				for _, x := range r.In {
					if x == name {
						ok = true
					}
				}
				if !ok {
					return false
				}
			}
			for _, x := range r.NotIn {
				if x == name {
					return false
				}
			}
		}
		return true
	case "array":
		var n int
		if t.Item.Kind == "integer" || t.Item.Kind == kEnum {
			n = len(v.ints) // enum items are carried as their numbers
		} else {
			n = len(v.strs)
		}
		if f.Req && n == 0 {
			return false
		}
		if r := t.Rules; r != nil {
			if r.MinItems != nil && uint64(n) < *r.MinItems {
				return false
			}
			if r.MaxItems != nil && uint64(n) > *r.MaxItems {
				return false
			}
			if r.Unique != nil && *r.Unique {
				seen := map[string]bool{}
				for _, s := range v.strs {
					if seen[s] {
						return false
					}
					seen[s] = true
				}
				seenI := map[int64]bool{}
				for _, i := range v.ints {
					if seenI[i] {
						return false
					}
					seenI[i] = true
				}
			}
		}
		for _, s := range v.strs {
			if !refString(t.Item, s) {
				return false
			}
		}
		for _, i := range v.ints {
			if t.Item.Kind == kEnum {
				// defined values only, then the item's own in / notIn rules
				if i < 0 || int(i) > len(d.enumOptions) {
					return false
				}
				name := "UNSPECIFIED"
				if i > 0 {
					name = d.enumOptions[i-1]
				}
				if r := t.Item.Rules; r != nil {
					if r.In != nil {
						ok := false
						for _, x := range r.In {
							ok = ok || x == name
						}
						if !ok {
							return false
						}
					}
					for _, x := range r.NotIn {
						if x == name {
							return false
						}
					}
				}
				continue
			}
			if !refInt(t.Item, i, uint64(i), strings.HasPrefix(t.Item.IntFmt, "U")) {
				return false
			}
		}
		return true
	}
	return true
}

func strOfLen(n int, ch string) string { return strings.Repeat(ch, n) }

// c12Candidates: values around every boundary the rules induce.
func c12Candidates(d *c12Decl, rng *rand.Rand) []c12Value {
	t := d.field.T
	var out []c12Value
	sv := func(desc, s string) { x := s; out = append(out, c12Value{desc: desc, str: &x}) }
	out = append(out, c12Value{desc: "unset", unset: true})
	switch t.Kind {
	case kString:
		if t.StrFormat != "" {
			out = nil // presence semantics of formats on empty / unset values are not part of the statement
			for _, s := range rt.SortedKeys(c12FormatValues[t.StrFormat]) {
				sv("format-candidate", s)
			}
			return out
		}
		sv("empty", "")
		sv("one", "a")
		lens := map[int]bool{1: true, 2: true}
		if r := t.Rules; r != nil {
			for _, p := range []*uint64{r.MinLen, r.MaxLen} {
				if p != nil && *p < 1000 {
					for _, dlt := range []int{-1, 0, 1} {
						if n := int(*p) + dlt; n >= 0 {
							lens[n] = true
						}
					}
				}
			}
		}
		for n := range lens {
			sv(fmt.Sprintf("len-%d-ascii", n), strOfLen(n, "a"))
			sv(fmt.Sprintf("len-%d-multibyte", n), strOfLen(n, "é"))
		}
		if r := t.Rules; r != nil && r.Pattern != nil {
			sv("pattern-match", "abc")
			sv("pattern-nomatch", "ABC1")
			sv("pattern-partial", "abc1")
		}
	case kKey:
		sv("empty", "")
		sv("id62", "0123456789abcdefghijAB")
		sv("id62-short", "0123456789abcdefghijA")
		sv("id62-long", "0123456789abcdefghijABC")
		sv("id62-badchar", "0123456789abcdefghij-B")
		sv("uuid", "9f1b2c3d-4e5f-6a7b-8c9d-0e1f2a3b4c5d")
		sv("uuid-bad", "9f1b2c3d-4e5f-6a7b-8c9d-0e1f2a3b4c5")
		sv("custom-match", "abc")
		sv("custom-nomatch", "abcd")
		sv("free", "anything at all")
	case "integer":
		bounds := map[int64]bool{0: true, 1: true}
		if r := t.Rules; r != nil {
			for _, p := range []*int64{r.Min, r.Max} {
				if p != nil {
					for _, dlt := range []int64{-1, 0, 1} {
						bounds[*p+dlt] = true
					}
				}
			}
		}
		if !strings.HasPrefix(t.IntFmt, "U") {
			bounds[-1] = true
		}
		for b := range bounds {
			b := b
			if strings.HasPrefix(t.IntFmt, "U") {
				if b < 0 {
					continue
				}
				u := uint64(b)
				if t.IntFmt == "UINT32" && u > 4294967295 {
					continue
				}
				out = append(out, c12Value{desc: fmt.Sprintf("uint-%d", u), u64: &u})
			} else {
				if t.IntFmt == "INT32" && (b > 2147483647 || b < -2147483648) {
					continue
				}
				out = append(out, c12Value{desc: fmt.Sprintf("int-%d", b), i64: &b})
			}
		}
	case kBytes:
		lens := map[int]bool{0: true, 1: true}
		if r := t.Rules; r != nil {
			for _, p := range []*uint64{r.BMinLen, r.BMaxLen} {
				if p != nil {
					for _, dlt := range []int{-1, 0, 1} {
						if n := int(*p) + dlt; n >= 0 {
							lens[n] = true
						}
					}
				}
			}
		}
		for n := range lens {
			out = append(out, c12Value{desc: fmt.Sprintf("bytes-%d", n), bytes: make([]byte, n)})
		}
	case kBool:
		for _, b := range []bool{true, false} {
			b := b
			out = append(out, c12Value{desc: fmt.Sprint(b), b: &b})
		}
	case kEnum:
		for n := int32(0); int(n) <= len(d.enumOptions)+1; n++ {
			n := n
			out = append(out, c12Value{desc: fmt.Sprintf("enum-%d", n), enum: &n})
		}
		for _, n := range d.enumNumbers {
			n := n
			out = append(out, c12Value{desc: fmt.Sprintf("enum-%d", n), enum: &n})
		}
		x := int32(99)
		out = append(out, c12Value{desc: "enum-99", enum: &x})
	case "array":
		counts := map[int]bool{0: true, 1: true, 2: true}
		if r := t.Rules; r != nil {
			for _, p := range []*uint64{r.MinItems, r.MaxItems} {
				if p != nil {
					for _, dlt := range []int{-1, 0, 1} {
						if n := int(*p) + dlt; n >= 0 {
							counts[n] = true
						}
					}
				}
			}
		}
		for n := range counts {
			if t.Item.Kind == "integer" || t.Item.Kind == kEnum {
				distinct := make([]int64, n)
				for i := range distinct {
					distinct[i] = int64(i + 1)
				}
				out = append(out, c12Value{desc: fmt.Sprintf("ints-%d-distinct", n), ints: distinct, isList: true})
				if n >= 2 {
					dup := append([]int64{}, distinct...)
					dup[n-1] = dup[0]
					out = append(out, c12Value{desc: fmt.Sprintf("ints-%d-duplicate", n), ints: dup, isList: true})
				}
				if n >= 1 {
					zero := append([]int64{}, distinct...)
					zero[0] = 0
					out = append(out, c12Value{desc: fmt.Sprintf("ints-%d-with-zero", n), ints: zero, isList: true})
				}
				continue
			}
			distinct := make([]string, n)
			for i := range distinct {
				distinct[i] = fmt.Sprintf("item%c%c", 'a'+i%26, 'a'+i/26)
			}
			out = append(out, c12Value{desc: fmt.Sprintf("strs-%d-distinct", n), strs: distinct, isList: true})
			if n >= 2 {
				dup := append([]string{}, distinct...)
				dup[n-1] = dup[0]
				out = append(out, c12Value{desc: fmt.Sprintf("strs-%d-duplicate", n), strs: dup, isList: true})
			}
			if n >= 1 {
				short := append([]string{}, distinct...)
				short[0] = "x"
				out = append(out, c12Value{desc: fmt.Sprintf("strs-%d-one-short", n), strs: short, isList: true})
				id := append([]string{}, distinct...)
				for i := range id {
					id[i] = fmt.Sprintf("0123456789abcdefghij%c%c", 'A'+i%26, 'A'+i/26)
				}
				out = append(out, c12Value{desc: fmt.Sprintf("strs-%d-id62", n), strs: id, isList: true})
			}
		}
	}
	return out
}

func c12Declarations(rng *rand.Rand, systematic bool, n int) []*c12Decl {
	var out []*c12Decl
	add := func(id string, f *jF, enumOpts ...string) {
		f.Name = "value"
		out = append(out, &c12Decl{id: id, field: f, enumOptions: enumOpts})
	}
	presence := func(id string, mk func() *jT, enumOpts ...string) {
		add(id+"/plain", &jF{T: mk()}, enumOpts...)
		add(id+"/required", &jF{T: mk(), Req: true}, enumOpts...)
		add(id+"/optional", &jF{T: mk(), Opt: true}, enumOpts...)
	}
	if systematic {
		presence("string/none", func() *jT { return tScalar(kString) })
		for _, mn := range []uint64{0, 1, 3} {
			mn := mn
			presence(fmt.Sprintf("string/min%d", mn), func() *jT { return tScalar(kString).with(func(t *jT) { t.Rules = &jRules{MinLen: pU(mn)} }) })
		}
		for _, mx := range []uint64{0, 1, 5} {
			mx := mx
			presence(fmt.Sprintf("string/max%d", mx), func() *jT { return tScalar(kString).with(func(t *jT) { t.Rules = &jRules{MaxLen: pU(mx)} }) })
		}
		presence("string/min2-max4", func() *jT {
			return tScalar(kString).with(func(t *jT) { t.Rules = &jRules{MinLen: pU(2), MaxLen: pU(4)} })
		})
		presence("string/pattern", func() *jT { return tScalar(kString).with(func(t *jT) { t.Rules = &jRules{Pattern: pS("^[a-z]+$")} }) })
		for _, sf := range rt.SortedKeys(c12FormatValues) {
			sf := sf
			add("string-format/"+sf+"/plain", &jF{T: tScalar(kString).with(func(t *jT) { t.StrFormat = sf })})
			add("string-format/"+sf+"/pattern", &jF{T: tScalar(kString).with(func(t *jT) { t.StrFormat = sf; t.Rules = &jRules{Pattern: pS(c12FormatPatterns[sf])} })})
			add("string-format/"+sf+"/pattern-len", &jF{T: tScalar(kString).with(func(t *jT) {
				t.StrFormat = sf
				t.Rules = &jRules{Pattern: pS(c12FormatPatterns[sf]), MinLen: pU(3), MaxLen: pU(16)}
			})})
		}
		presence("string/pattern-len", func() *jT {
			return tScalar(kString).with(func(t *jT) { t.Rules = &jRules{Pattern: pS("^[a-z]+$"), MinLen: pU(2), MaxLen: pU(3)} })
		})
		for _, kf := range []string{"", "id62", "uuid", "informal"} {
			kf := kf
			presence("key/"+kf, func() *jT { return tKeyF(kf) })
		}
		presence("key/custom", func() *jT { return &jT{Kind: kKey, KeyFmt: "custom", KeyCustom: "^[a-z]{3}$"} })
		add("key/primary", &jF{T: tKeyF("id62").with(func(t *jT) { t.Primary = pB(true) })})
		// a key that spells out that it is not the primary key: nothing but its format constrains it
		for _, kf := range []string{"", "id62", "uuid", "informal"} {
			kf := kf
			presence("key-primary-false/"+kf, func() *jT { return tKeyF(kf).with(func(t *jT) { t.Primary = pB(false) }) })
		}
		for _, f := range []string{"INT32", "INT64", "UINT32", "UINT64"} {
			f := f
			presence("integer-"+f+"/none", func() *jT { return tInt(f) })
			type combo struct {
				name         string
				mn, mx       *int64
				exMin, exMax *bool
			}
			for _, cb := range []combo{
				{"min5", pI(5), nil, nil, nil}, {"max5", nil, pI(5), nil, nil}, {"min2-max7", pI(2), pI(7), nil, nil},
				{"min5-exclusive", pI(5), nil, pB(true), nil}, {"max5-exclusive", nil, pI(5), nil, pB(true)},
				{"min5-inclusive-explicit", pI(5), nil, pB(false), nil}, {"max5-inclusive-explicit", nil, pI(5), nil, pB(false)},
				{"min2-max7-both-exclusive", pI(2), pI(7), pB(true), pB(true)}, {"min0", pI(0), nil, nil, nil}, {"max0", nil, pI(0), nil, nil},
				{"min1-exclusive-max1", pI(1), pI(1), nil, nil},
			} {
				cb := cb
				presence("integer-"+f+"/"+cb.name, func() *jT {
					return tInt(f).with(func(t *jT) { t.Rules = &jRules{Min: cb.mn, Max: cb.mx, ExMin: cb.exMin, ExMax: cb.exMax} })
				})
			}
		}
		add("integer-INT64/beyond-32", &jF{T: tInt("INT64").with(func(t *jT) { t.Rules = &jRules{Min: pI(3000000000), Max: pI(3000000010)} })})
		add("integer-UINT32/near-max", &jF{T: tInt("UINT32").with(func(t *jT) { t.Rules = &jRules{Max: pI(4294967294)} })})
		presence("bytes/none", func() *jT { return tScalar(kBytes) })
		presence("bytes/min1", func() *jT { return tScalar(kBytes).with(func(t *jT) { t.Rules = &jRules{BMinLen: pU(1)} }) })
		presence("bytes/max3", func() *jT { return tScalar(kBytes).with(func(t *jT) { t.Rules = &jRules{BMaxLen: pU(3)} }) })
		presence("bytes/min2-max4", func() *jT {
			return tScalar(kBytes).with(func(t *jT) { t.Rules = &jRules{BMinLen: pU(2), BMaxLen: pU(4)} })
		})
		presence("bool/none", func() *jT { return tScalar(kBool) })
		presence("bool/const-true", func() *jT { return tScalar(kBool).with(func(t *jT) { t.Rules = &jRules{Const: pB(true)} }) })
		presence("bool/const-false", func() *jT { return tScalar(kBool).with(func(t *jT) { t.Rules = &jRules{Const: pB(false)} }) })
		enumOpts := []string{"RED", "GREEN", "BLUE"}
		presence("enum/none", func() *jT { return tRef(kEnum, "Color", "c.v1.Color") }, enumOpts...)
		presence("enum/in", func() *jT {
			return tRef(kEnum, "Color", "c.v1.Color").with(func(t *jT) { t.Rules = &jRules{In: []string{"RED", "BLUE"}} })
		}, enumOpts...)
		presence("enum/not-in", func() *jT {
			return tRef(kEnum, "Color", "c.v1.Color").with(func(t *jT) { t.Rules = &jRules{NotIn: []string{"GREEN"}} })
		}, enumOpts...)
		presence("enum/in-and-not-in", func() *jT {
			return tRef(kEnum, "Color", "c.v1.Color").with(func(t *jT) { t.Rules = &jRules{In: []string{"RED", "BLUE"}, NotIn: []string{"BLUE", "GREEN"}} })
		}, enumOpts...)
		presence("enum/in-unspecified", func() *jT {
			return tRef(kEnum, "Color", "c.v1.Color").with(func(t *jT) { t.Rules = &jRules{In: []string{"UNSPECIFIED", "RED"}} })
		}, enumOpts...)
		presence("enum/not-in-unspecified", func() *jT {
			return tRef(kEnum, "Color", "c.v1.Color").with(func(t *jT) { t.Rules = &jRules{NotIn: []string{"UNSPECIFIED", "BLUE"}} })
		}, enumOpts...)
		// an enum from a hand-written proto file of the package, numbered with gaps and out of order
		legacy := func(id string, rules *jRules) {
			for _, req := range []bool{false, true} {
				f := &jF{Name: "value", T: tRef(kEnum, "Legacy", "c.v1.Legacy").with(func(t *jT) { t.Rules = rules }), Req: req}
				out = append(out, &c12Decl{id: fmt.Sprintf("enum-from-proto/%s/req=%v", id, req), field: f, enumOptions: []string{"LOW", "HIGH", "MID"}, enumNumbers: []int32{2, 10, 5}})
			}
		}
		legacy("none", nil)
		legacy("in", &jRules{In: []string{"LOW", "MID"}})
		legacy("not-in", &jRules{NotIn: []string{"HIGH"}})
		legacy("in-unspecified", &jRules{In: []string{"UNSPECIFIED", "HIGH"}})
		// an enum that spells its zero option out: same numbering, same rule semantics
		shadeOpts := []string{"DARK", "MID", "LIGHT"}
		presence("enum-explicit-zero/none", func() *jT { return tRef(kEnum, "Shade", "c.v1.Shade") }, shadeOpts...)
		presence("enum-explicit-zero/in", func() *jT {
			return tRef(kEnum, "Shade", "c.v1.Shade").with(func(t *jT) { t.Rules = &jRules{In: []string{"DARK", "LIGHT"}} })
		}, shadeOpts...)
		presence("enum-explicit-zero/not-in", func() *jT {
			return tRef(kEnum, "Shade", "c.v1.Shade").with(func(t *jT) { t.Rules = &jRules{NotIn: []string{"MID"}} })
		}, shadeOpts...)
		presence("enum-explicit-zero/not-in-unspecified", func() *jT {
			return tRef(kEnum, "Shade", "c.v1.Shade").with(func(t *jT) { t.Rules = &jRules{NotIn: []string{"UNSPECIFIED"}} })
		}, shadeOpts...)
		arr := func(id string, item func() *jT, rules *jRules) {
			var opts []string
			if item().Kind == kEnum {
				opts = enumOpts
			}
			add("array-"+id+"/plain", &jF{T: tArr(item()).with(func(t *jT) { t.Rules = rules })}, opts...)
			add("array-"+id+"/required", &jF{T: tArr(item()).with(func(t *jT) { t.Rules = rules }), Req: true}, opts...)
		}
		for _, it := range []struct {
			name string
			mk   func() *jT
		}{
			{"string", func() *jT { return tScalar(kString) }},
			{"string-min2", func() *jT { return tScalar(kString).with(func(t *jT) { t.Rules = &jRules{MinLen: pU(2)} }) }},
			{"key-id62", func() *jT { return tKeyF("id62") }},
			{"integer", func() *jT { return tInt("INT64") }},
			{"integer-min1", func() *jT { return tInt("INT32").with(func(t *jT) { t.Rules = &jRules{Min: pI(1)} }) }},
			{"enum", func() *jT { return tRef(kEnum, "Color", "c.v1.Color") }},
			{"enum-not-in", func() *jT {
				return tRef(kEnum, "Color", "c.v1.Color").with(func(t *jT) { t.Rules = &jRules{NotIn: []string{"GREEN"}} })
			}},
		} {
			it := it
			arr(it.name+"/none", it.mk, nil)
			arr(it.name+"/min1", it.mk, &jRules{MinItems: pU(1)})
			arr(it.name+"/max2", it.mk, &jRules{MaxItems: pU(2)})
			arr(it.name+"/min1-max3", it.mk, &jRules{MinItems: pU(1), MaxItems: pU(3)})
			arr(it.name+"/unique", it.mk, &jRules{Unique: pB(true)})
			arr(it.name+"/unique-false", it.mk, &jRules{Unique: pB(false)})
			arr(it.name+"/min2-unique", it.mk, &jRules{MinItems: pU(2), Unique: pB(true)})
		}
		return out
	}
	// random combinations
	for i := 0; i < n; i++ {
		f := &jF{}
		switch rng.Intn(3) {
		case 0:
			f.Req = true
		case 1:
			f.Opt = true
		}
		id := fmt.Sprintf("random-%d", i)
		switch rng.Intn(7) {
		case 0:
			r := &jRules{}
			if rng.Intn(2) == 0 {
				r.MinLen = pU(uint64(rng.Intn(5)))
			}
			if rng.Intn(2) == 0 {
				r.MaxLen = pU(uint64(3 + rng.Intn(5)))
			}
			if rng.Intn(3) == 0 {
				r.Pattern = pS([]string{"^[a-z]+$", "^a", "c$", "^.{2,}$"}[rng.Intn(4)])
			}
			f.T = tScalar(kString).with(func(t *jT) { t.Rules = r })
			add(id+"/string", f)
		case 1:
			fm := []string{"INT32", "INT64", "UINT32", "UINT64"}[rng.Intn(4)]
			r := &jRules{}
			if rng.Intn(3) > 0 {
				r.Min = pI(int64(rng.Intn(10)))
				if rng.Intn(2) == 0 {
					r.ExMin = pB(rng.Intn(2) == 0)
				}
			}
			if rng.Intn(3) > 0 {
				// admissible combinations only: maximum not below minimum
				r.Max = pI(int64(10 + rng.Intn(10)))
				if rng.Intn(2) == 0 {
					r.ExMax = pB(rng.Intn(2) == 0)
				}
			}
			f.T = tInt(fm).with(func(t *jT) { t.Rules = r })
			add(id+"/integer-"+fm, f)
		case 2:
			f.T = tKeyF([]string{"", "id62", "uuid", "informal"}[rng.Intn(4)])
			add(id+"/key", f)
		case 3:
			r := &jRules{}
			if rng.Intn(2) == 0 {
				r.BMinLen = pU(uint64(rng.Intn(4)))
			}
			if rng.Intn(2) == 0 {
				r.BMaxLen = pU(uint64(2 + rng.Intn(4)))
			}
			f.T = tScalar(kBytes).with(func(t *jT) { t.Rules = r })
			add(id+"/bytes", f)
		case 4:
			r := &jRules{}
			if rng.Intn(2) == 0 {
				r.Const = pB(rng.Intn(2) == 0)
			}
			f.T = tScalar(kBool).with(func(t *jT) { t.Rules = r })
			add(id+"/bool", f)
		case 5:
			opts := []string{"RED", "GREEN", "BLUE"}
			enumName := "Color"
			if rng.Intn(2) == 0 {
				opts, enumName = []string{"DARK", "MID", "LIGHT"}, "Shade"
			}
			pick := func() string {
				if rng.Intn(5) == 0 {
					return "UNSPECIFIED"
				}
				return opts[rng.Intn(3)]
			}
			r := &jRules{}
			if rng.Intn(2) == 0 {
				r.In = []string{pick(), pick()}
			} else if rng.Intn(2) == 0 {
				r.NotIn = []string{pick()}
				if rng.Intn(2) == 0 {
					r.NotIn = append(r.NotIn, pick())
				}
			}
			f.T = tRef(kEnum, enumName, "c.v1."+enumName).with(func(t *jT) { t.Rules = r })
			add(id+"/enum", f, opts...)
		default:
			f.Opt = false
			r := &jRules{}
			if rng.Intn(2) == 0 {
				r.MinItems = pU(uint64(rng.Intn(3)))
			}
			if rng.Intn(2) == 0 {
				r.MaxItems = pU(uint64(2 + rng.Intn(3)))
			}
			if rng.Intn(2) == 0 {
				r.Unique = pB(rng.Intn(2) == 0)
			}
			var item *jT
			if rng.Intn(2) == 0 {
				item = tScalar(kString)
				if rng.Intn(2) == 0 {
					item.Rules = &jRules{MinLen: pU(2)}
				}
			} else {
				item = tInt("INT64")
				if rng.Intn(2) == 0 {
					item.Rules = &jRules{Min: pI(1)}
				}
			}
			f.T = tArr(item).with(func(t *jT) { t.Rules = r })
			add(id+"/array", f)
		}
	}
	return out
}

func c12SetValue(m *dynamicpb.Message, fd protoreflect.FieldDescriptor, v c12Value) bool {
	if v.unset {
		return true
	}
	switch {
	case v.isList:
		l := m.Mutable(fd).List()
		for _, s := range v.strs {
			l.Append(protoreflect.ValueOfString(s))
		}
		for _, i := range v.ints {
			switch fd.Kind() {
			case protoreflect.Int32Kind:
				l.Append(protoreflect.ValueOfInt32(int32(i)))
			case protoreflect.Int64Kind:
				l.Append(protoreflect.ValueOfInt64(i))
			case protoreflect.EnumKind:
				l.Append(protoreflect.ValueOfEnum(protoreflect.EnumNumber(i)))
			default:
				return false
			}
		}
	case v.str != nil:
		m.Set(fd, protoreflect.ValueOfString(*v.str))
	case v.i64 != nil:
		if fd.Kind() == protoreflect.Int32Kind {
			m.Set(fd, protoreflect.ValueOfInt32(int32(*v.i64)))
		} else {
			m.Set(fd, protoreflect.ValueOfInt64(*v.i64))
		}
	case v.u64 != nil:
		if fd.Kind() == protoreflect.Uint32Kind {
			m.Set(fd, protoreflect.ValueOfUint32(uint32(*v.u64)))
		} else {
			m.Set(fd, protoreflect.ValueOfUint64(*v.u64))
		}
	case v.bytes != nil:
		m.Set(fd, protoreflect.ValueOfBytes(v.bytes))
	case v.b != nil:
		m.Set(fd, protoreflect.ValueOfBool(*v.b))
	case v.enum != nil:
		m.Set(fd, protoreflect.ValueOfEnum(protoreflect.EnumNumber(*v.enum)))
	}
	return true
}

func c12RuleText(f *jF) string {
	r := &j5Renderer{}
	r.field(0, "field", f)
	return strings.TrimSpace(r.sb.String())
}

// c12Batch compiles the declarations as objects of one package and judges every candidate.
func c12Batch(c *rt.C, decls []*c12Decl, class string) {
	file := &jFile{Path: "c/v1/rules.j5s", Pkg: "c.v1"}
	file.Elems = append(file.Elems, enumDecl("Color", "RED", "GREEN", "BLUE"), enumDecl("Shade", "UNSPECIFIED", "DARK", "MID", "LIGHT"))
	for i, d := range decls {
		file.Elems = append(file.Elems, objDecl(fmt.Sprintf("Holder%c%c", 'A'+i/26, 'a'+i%26), d.field))
	}
	b := &jBundle{Files: []*jFile{file}, Protos: map[string]string{
		"c/v1/legacy.proto": "syntax = \"proto3\";\n\npackage c.v1;\n\nenum Legacy {\n  LEGACY_UNSPECIFIED = 0;\n  LEGACY_LOW = 2;\n  LEGACY_HIGH = 10;\n  LEGACY_MID = 5;\n}\n",
	}}
	src := b.sources()
	cp, err := compileBundlePackage(newMemBundle(src), "c.v1")
	if err != nil {
		// which declaration is rejected is C07's subject; here it only costs coverage
		c.Event("batch_does_not_compile")
		if len(decls) > 1 {
			for _, d := range decls {
				c12Batch(c, []*c12Decl{d}, class)
			}
		} else {
			c.Event("declaration_does_not_compile")
			c.Feature("c12:compile-failed/" + decls[0].id + "/" + errSig(err))
		}
		return
	}
	validator, err := protovalidate.New()
	if err != nil {
		panic("harness: protovalidate.New: " + err.Error())
	}
	// The compiled types as users get them: the generated .proto text compiled by
	// a protobuf compiler (the in-memory descriptors of '?' fields carry
	// proto3_optional without the synthetic oneof, so they have no presence).
	printed, err := printPackage(cp)
	if err != nil {
		c.Event("package_does_not_print") // C05 / C16
		return
	}
	ct, err := compileProtoText(printed)
	if err != nil {
		c.Event("printed_package_does_not_compile") // C05
		return
	}
	main, err := ct.Files.FindFileByPath("c/v1/rules.j5s.proto")
	if err != nil {
		panic("harness: printed file missing: " + err.Error())
	}
	rng := c.Rand()
	for i, d := range decls {
		md := main.Messages().ByName(protoreflect.Name(fmt.Sprintf("Holder%c%c", 'A'+i/26, 'a'+i%26)))
		if md == nil {
			panic("harness: compiled message missing")
		}
		fd := md.Fields().ByName("value")
		decl := c12RuleText(d.field)
		c.Feature("c12:" + class + ":" + strings.SplitN(strings.SplitN(d.id, "/", 3)[0], "-", 2)[0])
		for _, v := range c12Candidates(d, rng) {
			m := dynamicpb.NewMessage(md)
			if !c12SetValue(m, fd, v) {
				continue
			}
			want := c12Reference(d, v)
			var verr error
			c.Input([]byte(decl + " <- " + v.desc))
			ok, pv, fn, _ := rt.Guard(func() { verr = validator.Validate(m) })
			c.EndBudget()
			c.Eval(rt.Hash(decl, v.desc), !v.unset)
			if !ok {
				c.Violate("validator-panic/"+fn, fmt.Sprintf("validating %s of %q panicked: %v", v.desc, decl, pv), map[string]any{"declaration": decl, "value": v.desc})
				continue
			}
			var ve *protovalidate.ValidationError
			got := verr == nil
			if verr != nil && !errors.As(verr, &ve) {
				// compilation / runtime error of the constraints themselves
				c.Violate("constraints-unusable/"+strings.SplitN(d.id, "/", 2)[0], fmt.Sprintf("the constraints compiled for %q cannot be evaluated: %v", decl, verr), map[string]any{"declaration": decl, "value": v.desc, "source": src["c/v1/rules.j5s"]})
				continue
			}
			if got == want {
				if got {
					c.Event("verdicts_agree_accepted")
				} else {
					c.Event("verdicts_agree_rejected")
				}
			}
			if got != want {
				verdict := func(b bool) string {
					if b {
						return "accepted"
					}
					return "rejected"
				}
				kind := strings.SplitN(d.id, "/", 3)
				sigKind := kind[0]
				if strings.HasPrefix(sigKind, "random-") && len(kind) > 1 {
					sigKind = kind[1]
				}
				c.Violate(fmt.Sprintf("verdict/%s/%s-but-should-be-%s", sigKind, verdict(got), verdict(want)),
					fmt.Sprintf("declaration %q, value %s: the compiled constraints %s it (%v), the declared rules say %s", decl, v.desc, verdict(got), verr, verdict(want)),
					map[string]any{"declaration": decl, "value": v.desc, "decl_id": d.id, "source": src["c/v1/rules.j5s"]})
			}
			if c.WantSample() && !v.unset && d.field.T.Rules != nil {
				c.Sample(map[string]any{"declaration": decl, "value": v.desc, "verdict": got})
			}
		}
	}
}

// c12EntityKeys: the keys of an entity are declared once and compiled into the Keys message and into the requests of
// the generated query service; a primary key is required wherever it appears, whatever its format.
func c12EntityKeys(c *rt.C) {
	validator, err := protovalidate.New()
	if err != nil {
		panic("harness: protovalidate.New: " + err.Error())
	}
	values := map[string][2]string{ // format -> {valid value, empty}
		"":         {"anything", ""},
		"informal": {"some-key", ""},
		"id62":     {"0123456789ABCDEFabcdef", ""},
		"uuid":     {"123e4567-e89b-12d3-a456-426614174000", ""},
	}
	for _, kf := range []string{"", "informal", "id62", "uuid"} {
		for _, second := range []bool{false, true} {
			e := &jEntity{Name: "Widget", Keys: []*jF{fld("widgetId", tKeyF(kf).with(func(t *jT) { t.Primary = pB(true) }))}, Data: []*jF{fld("name", tScalar(kString))}, Statuses: []string{"ACTIVE"},
				Events: []*jEvent{{Name: "Created"}}}
			if second {
				e.Keys = append(e.Keys, fld("partId", tKeyF(kf).with(func(t *jT) { t.Primary = pB(true) })))
			}
			b := &jBundle{Files: []*jFile{{Path: "ent/v1/widget.j5s", Pkg: "ent.v1", Elems: []*jElem{{Entity: e}}}}}
			src := b.sources()
			id := fmt.Sprintf("entity-key/%s/keys=%d", kf, len(e.Keys))
			cp, err := compileBundlePackage(newMemBundle(src), "ent.v1")
			if err != nil {
				c.Feature("c12:compile-failed/" + id + "/" + errSig(err))
				continue
			}
			printed, err := printPackage(cp)
			if err != nil {
				c.Event("package_does_not_print")
				continue
			}
			ct, err := compileProtoText(printed)
			if err != nil {
				c.Event("printed_package_does_not_compile")
				continue
			}
			for _, full := range []string{"ent.v1.WidgetKeys", "ent.v1.service.WidgetGetRequest", "ent.v1.service.WidgetEventsRequest"} {
				md := ct.message(full)
				if md == nil {
					c.Feature("c12:entity-message-missing/" + full)
					continue
				}
				for _, k := range e.Keys {
					fd := md.Fields().ByJSONName(k.Name)
					if fd == nil {
						c.Feature("c12:entity-key-missing/" + full)
						continue
					}
					for vi, val := range values[kf] {
						m := dynamicpb.NewMessage(md)
						// the other keys hold valid values
						for _, o := range e.Keys {
							if ofd := md.Fields().ByJSONName(o.Name); ofd != nil {
								m.Set(ofd, protoreflect.ValueOfString(values[kf][0]))
							}
						}
						if val == "" {
							m.Clear(fd)
						} else {
							m.Set(fd, protoreflect.ValueOfString(val))
						}
						want := vi == 0
						var verr error
						c.Input([]byte(id + " " + full + " " + k.Name))
						ok, pv, fn, _ := rt.Guard(func() { verr = validator.Validate(m) })
						c.EndBudget()
						c.Eval(rt.Hash(id, full, k.Name, val), true)
						if !ok {
							c.Violate("validator-panic/"+fn, fmt.Sprintf("validating %s panicked: %v", full, pv), map[string]any{"source": src["ent/v1/widget.j5s"]})
							continue
						}
						if got := verr == nil; got != want {
							what := map[bool]string{true: "accepted", false: "rejected"}
							c.Violate(fmt.Sprintf("verdict/entity-key/%s-but-should-be-%s", what[got], what[want]),
								fmt.Sprintf("%s: primary key %s (format %q) of %s with value %q is %s (%v); a primary key is required wherever the entity's keys are compiled to", id, k.Name, kf, full, val, what[got], verr),
								map[string]any{"source": src["ent/v1/widget.j5s"], "message": full, "key": k.Name, "value": val})
						} else {
							c.Event("entity_key_verdicts_agree")
						}
					}
				}
			}
			c.Feature("c12:entity-keys")
		}
	}
}

func runC12(r *rt.Runner) {
	r.Do("entity-keys", func(c *rt.C) { c12EntityKeys(c) })
	sys := c12Declarations(nil, true, 0)
	const per = 20
	for i := 0; i < len(sys); i += per {
		end := i + per
		if end > len(sys) {
			end = len(sys)
		}
		batch := sys[i:end]
		r.Do(fmt.Sprintf("systematic/%d", i/per), func(c *rt.C) {
			c12Batch(c, batch, "systematic")
		})
	}
	for b := 0; b < r.Scale(60, 25000); b++ {
		r.Do(fmt.Sprintf("random/%d", b), func(c *rt.C) {
			c12Batch(c, c12Declarations(c.Rand(), false, 20), "random")
		})
	}
}
