//go:build verif

package props

import (
	"fmt"
	"strings"
)

// Entities and API-shaped services for C16 / C17: the generator keeps, beside
// the source IR, the names the declaration is documented to expand to. Name
// conversion is done on the generator's own word list (never by the library
// the compiler uses).

type entNames struct {
	Words  []string // lower-case words
	Text   string   // as written in the source
	Camel  string   // FooBar
	Lower  string   // fooBar
	Snake  string   // foo_bar
	Scream string   // FOO_BAR
}

func capWord(w string) string { return strings.ToUpper(w[:1]) + w[1:] }

func mkEntNames(words []string, style int) entNames {
	n := entNames{Words: words}
	for i, w := range words {
		n.Camel += capWord(w)
		if i == 0 {
			n.Lower += w
		} else {
			n.Lower += capWord(w)
		}
	}
	n.Snake = strings.Join(words, "_")
	n.Scream = strings.ToUpper(n.Snake)
	switch style % 3 {
	case 0:
		n.Text = n.Camel
	case 1:
		n.Text = n.Lower
	default:
		n.Text = n.Snake
	}
	return n
}

var entWords = []string{"widget", "order", "line", "ledger", "batch", "parcel", "invoice", "account"}

// jEntityPlan is the entity IR together with what the generator knows about it.
type jEntityPlan struct {
	E     *jEntity
	Names entNames
	Pkg   string
	// declared facts
	PrimaryKeys []string // declaration order
	PathKeys    []string // primary or shard, declaration order (the documented Get path)
	ListKeys    []string // shard keys, declaration order
	CommandSvc  []string // service names without the "Service" suffix
	TopicNames  []string // publish + summaries, without "Topic"
}

func (g *j5Gen) entityPlan(pkg string, k *j5Known, style int, nWords int) *jEntityPlan {
	rng := g.rng
	perm := rng.Perm(len(entWords))
	words := []string{}
	for i := 0; i < nWords; i++ {
		words = append(words, entWords[perm[i]])
	}
	names := mkEntNames(words, style)
	e := &jEntity{Name: names.Text, Shard: map[string]bool{}}
	p := &jEntityPlan{E: e, Names: names, Pkg: pkg}
	if rng.Intn(3) == 0 {
		e.Desc = names.Camel + " is lorem ipsum"
	}
	// keys
	keyFmt := func() *jT { return tKeyF([]string{"id62", "uuid"}[rng.Intn(2)]) }
	var keys []*jF
	nPrimary := 1 + rng.Intn(2)
	for i := 0; i < nPrimary; i++ {
		name := names.Lower + "Id"
		if i > 0 {
			name = "partId"
			if rng.Intn(3) == 0 {
				name = names.Lower + "IdRev" // the first key's name is a prefix of this one
			}
		}
		keys = append(keys, fld(name, keyFmt().with(func(t *jT) {
			t.Primary = pB(true)
			// a primary key may at the same time be the tenant key (primary / foreign exclude each other)
			if rng.Intn(4) == 0 {
				t.Tenant = "org"
			}
		})))
	}
	if rng.Intn(2) == 0 {
		keys = append(keys, fld("tenantId", keyFmt().with(func(t *jT) { t.Tenant = "org" })))
	}
	if rng.Intn(3) == 0 {
		keys = append(keys, fld("parentId", keyFmt().with(func(t *jT) { t.Foreign = "other.v1.thing" })))
	}
	if rng.Intn(3) == 0 {
		keys = append(keys, fld("plainKey", tKeyF("")))
	}
	if rng.Intn(3) == 0 {
		// a key that says it is not primary
		keys = append(keys, fld("altId", keyFmt().with(func(t *jT) { t.Primary = pB(false) })))
	}
	if rng.Intn(3) == 0 {
		// an entity key that is not of type key
		alt := []*jT{tScalar(kString), tInt("INT64"), tScalar(kDate), tScalar(kBool)}
		keys = append(keys, fld("region", alt[rng.Intn(len(alt))]))
	}
	rng.Shuffle(len(keys), func(i, j int) { keys[i], keys[j] = keys[j], keys[i] })
	for _, kf := range keys {
		if kf.T.Kind == kKey && rng.Intn(4) == 0 {
			e.Shard[kf.Name] = true
		}
		if rng.Intn(5) == 0 {
			kf.Desc = "Key " + kf.Name
		}
	}
	e.Keys = keys
	for _, kf := range keys {
		isPrimary := kf.T.Primary != nil && *kf.T.Primary
		if isPrimary {
			p.PrimaryKeys = append(p.PrimaryKeys, kf.Name)
		}
		if isPrimary || e.Shard[kf.Name] {
			p.PathKeys = append(p.PathKeys, kf.Name)
		}
		if e.Shard[kf.Name] {
			p.ListKeys = append(p.ListKeys, kf.Name)
		}
	}
	// data
	if k == nil {
		k = &j5Known{pkg: pkg, enums: map[string][]string{}}
	}
	e.Data = g.fields(k, rng.Intn(5), "")
	// schemas declared inside the entity block, used by its data
	if rng.Intn(3) == 0 {
		e.Schemas = append(e.Schemas,
			&jDecl{Kind: kObject, Name: names.Camel + "Extra", Fields: []*jF{fld("note", tScalar(kString))}},
			&jDecl{Kind: kEnum, Name: names.Camel + "Kind", Options: []string{"BIG", "SMALL"}})
		e.Data = append(e.Data, fld("entityExtra", tRef(kObject, names.Camel+"Extra", pkg+"."+names.Camel+"Extra")), fld("entityKind", tRef(kEnum, names.Camel+"Kind", pkg+"."+names.Camel+"Kind")))
		dedupeFields(&e.Data)
	}
	// statuses
	all := []string{"ACTIVE", "INACTIVE", "PENDING", "ARCHIVED"}
	if rng.Intn(4) == 0 {
		// a status whose name merely ends the way the implicit zero value's does
		all = []string{"ACTIVE", "OUTCOME_UNSPECIFIED", "DONE", "ARCHIVED"}
	}
	e.Statuses = all[:1+rng.Intn(len(all))]
	// events
	evNames := []string{"Created", "Updated", "Archived", "LineAdded"}
	if rng.Intn(3) == 0 {
		// names a case library would re-spell
		evNames = []string{"URLChanged", "KYCApproved", "Sent2fa", "IDVerified"}
	}
	for i := 0; i < rng.Intn(4); i++ {
		e.Events = append(e.Events, &jEvent{Name: evNames[i], Fields: g.fields(k, rng.Intn(3), "")})
	}
	// commands
	nCmd := rng.Intn(3)
	for i := 0; i < nCmd; i++ {
		svc := &jService{}
		svcName := names.Camel + "Command"
		if i > 0 || rng.Intn(3) == 0 {
			svc.Name = names.Camel + []string{"Admin", "Ops"}[i%2]
			svcName = svc.Name + "Command"
			if rng.Intn(2) == 0 {
				svc.BasePath = []string{"admin", "ops"}[i%2]
			}
		} else if nCmd > 1 {
			// two unnamed commands would collide; keep the first unnamed only
		}
		if i > 0 && svc.BasePath == "" {
			svc.BasePath = []string{"admin", "ops"}[i%2] // both on /c would make equal paths likely
		}
		if rng.Intn(3) == 0 {
			svc.Audience = []string{"internal", "partner"}[:1+rng.Intn(2)]
		}
		p.CommandSvc = append(p.CommandSvc, svcName)
		for mi := 0; mi < 1+rng.Intn(2); mi++ {
			verb := []string{"POST", "PUT", "PATCH", "DELETE", "POST"}[rng.Intn(5)]
			m := &jMethod{Name: fmt.Sprintf("%s%s%d", names.Camel, []string{"Create", "Amend", "Close"}[mi%3], i), HTTPMethod: verb, HasRes: rng.Intn(4) > 0}
			pk := e.Keys[0]
			for _, kf := range e.Keys {
				if kf.T.Primary != nil && *kf.T.Primary {
					pk = kf
					break
				}
			}
			pt := *pk.T
			pt.Primary = nil
			m.Req = append(m.Req, fld(pk.Name, &pt))
			m.Path = fmt.Sprintf("/:%s/%s%d", pk.Name, []string{"create", "amend", "close"}[mi%3], mi)
			m.Req = append(m.Req, g.fields(k, rng.Intn(3), "")...)
			dedupeFields(&m.Req)
			if m.HasRes {
				m.Res = []*jF{fld("state", tRef(kObject, names.Camel+"State", pkg+"."+names.Camel+"State"))}
			}
			svc.Methods = append(svc.Methods, m)
		}
		e.Commands = append(e.Commands, svc)
	}
	// summaries
	p.TopicNames = append(p.TopicNames, names.Camel+"Publish")
	for i := 0; i < rng.Intn(3); i++ {
		fields := []*jF{fld(e.Keys[0].Name, tKeyF("id62"))}
		fields = append(fields, g.fields(k, rng.Intn(3), "")...)
		dedupeFields(&fields)
		e.Summary = append(e.Summary, fields)
		if i == 0 {
			e.SummaryNames = append(e.SummaryNames, "")
			p.TopicNames = append(p.TopicNames, names.Camel+"Summary")
		} else {
			e.SummaryNames = append(e.SummaryNames, "Brief")
			p.TopicNames = append(p.TopicNames, names.Camel+"Brief")
		}
	}
	if len(e.Summary) == 2 && rng.Intn(2) == 0 {
		// the named summary first, the unnamed one after it
		e.Summary[0], e.Summary[1] = e.Summary[1], e.Summary[0]
		e.SummaryNames[0], e.SummaryNames[1] = e.SummaryNames[1], e.SummaryNames[0]
		n := len(p.TopicNames)
		p.TopicNames[n-2], p.TopicNames[n-1] = p.TopicNames[n-1], p.TopicNames[n-2]
	}
	e.EventsInGet = rng.Intn(3) == 0
	if rng.Intn(3) == 0 {
		e.DefaultStatusFilter = e.Statuses[:1]
	}
	return p
}

func dedupeFields(fs *[]*jF) {
	seen := map[string]bool{}
	out := (*fs)[:0]
	for _, f := range *fs {
		if seen[f.Name] {
			continue
		}
		seen[f.Name] = true
		out = append(out, f)
	}
	*fs = out
}

// ---- API-shaped services --------------------------------------------------------------------------------

// pathParamTypes: what may stand in a path position
func pathParamTypes() []func() *jT {
	return []func() *jT{
		func() *jT { return tKeyF("id62") },
		func() *jT { return tKeyF("uuid") },
		func() *jT { return tKeyF("") },
		func() *jT { return tScalar(kString) },
		func() *jT { return tInt("INT64") },
		func() *jT { return tInt("UINT32") },
		func() *jT { return tScalar(kBool) },
	}
}

// apiService: methods with every verb, 0-2 path parameters of varying type and position, with and without response
func (g *j5Gen) apiService(name, pkg string, k *j5Known, listItem string, f *jFile) *jService {
	rng := g.rng
	svc := &jService{Name: name}
	if rng.Intn(3) > 0 {
		svc.BasePath = "/" + strings.ReplaceAll(pkg, ".", "/")
	}
	verbs := []string{"GET", "POST", "PUT", "PATCH", "DELETE"}
	ppt := pathParamTypes()
	n := 1 + rng.Intn(4)
	for mi := 0; mi < n; mi++ {
		m := &jMethod{Name: fmt.Sprintf("%s%s", []string{"Fetch", "Make", "Replace", "Amend", "Drop"}[mi%5], name), HTTPMethod: verbs[rng.Intn(len(verbs))], HasRes: rng.Intn(5) > 0}
		if mi >= 5 {
			m.Name += fmt.Sprint(mi)
		}
		var parts []string
		nParams := rng.Intn(3)
		pnames := []string{"thingId", "subId"}
		if rng.Intn(3) == 0 {
			pnames = []string{"address2Id", "line3"} // digits inside parameter names
		}
		switch rng.Intn(3) {
		case 0:
			parts = append(parts, "things")
		case 1:
			parts = append(parts, "things", "all")
		}
		if nParams > 0 && pnames[0] == "thingId" && rng.Intn(4) == 0 {
			// an ordinary request property whose name is a prefix of the path parameter's, declared before it
			m.Req = append(m.Req, fld("thing", tScalar(kString)))
		}
		for pi := 0; pi < nParams; pi++ {
			m.Req = append(m.Req, fld(pnames[pi], ppt[rng.Intn(len(ppt))]()))
			parts = append(parts, ":"+pnames[pi])
			if rng.Intn(2) == 0 {
				parts = append(parts, []string{"sub", "detail"}[pi])
			}
		}
		if len(parts) == 0 {
			parts = []string{"root"}
		}
		// distinct paths per method and package keep the OpenAPI document well-formed
		parts = append(parts, fmt.Sprintf("m%d", mi))
		if svc.BasePath == "" {
			parts = append([]string{strings.Split(pkg, ".")[0]}, parts...)
		}
		m.Path = "/" + strings.Join(parts, "/")
		rest := g.fields(k, rng.Intn(5), "")
		m.Req = append(m.Req, rest...)
		if m.HasRes {
			m.Res = g.fields(k, rng.Intn(5), "")
		}
		if rng.Intn(4) == 0 {
			// objects, oneofs and enums declared in place inside the request / response: nested messages of the
			// service sub-package
			inl := func(n string) *jT {
				return &jT{Kind: kObject, Inline: &jDecl{Kind: kObject, Fields: []*jF{fld(n+"Text", tScalar(kString)), fld(n+"Mode", &jT{Kind: kEnum, Inline: &jDecl{Kind: kEnum, Options: []string{"ON", "OFF"}}})}}}
			}
			if m.HTTPMethod != "GET" {
				m.Req = append(m.Req, fld("criteria", inl("criteria")))
			}
			if m.HasRes {
				m.Res = append(m.Res, fld("outcome", inl("outcome")), fld("outcomes", tArr(inl("each"))))
			}
		}
		if f != nil && rng.Intn(4) == 0 {
			// a flattened object directly in the request and/or the response: its members and the schemas they refer to
			// belong to the method like those of any other field
			tn := fmt.Sprintf("%sWindow%d", name, mi)
			f.Elems = append(f.Elems, objDecl(tn, fld("windowMode", tRef(kEnum, tn+"Mode", pkg+"."+tn+"Mode")), fld("windowSize", tInt("INT32")), fld("windowNote", tRef(kObject, tn+"Note", pkg+"."+tn+"Note"))),
				enumDecl(tn+"Mode", "FAST", "SLOW"), objDecl(tn+"Note", fld("noteText", tScalar(kString))))
			where := rng.Intn(3)
			if where != 1 {
				m.Req = append(m.Req, fld("window", tRef(kObject, tn, pkg+"."+tn).with(func(t *jT) { t.Flatten = true })))
			}
			if where != 0 && m.HasRes {
				m.Res = append(m.Res, fld("window", tRef(kObject, tn, pkg+"."+tn).with(func(t *jT) { t.Flatten = true })))
			}
		}
		dedupeFields(&m.Req)
		svc.Methods = append(svc.Methods, m)
	}
	if listItem != "" && f != nil {
		// a list method: page + query in the request, one array of objects + page in the response
		hasImport := false
		for _, imp := range f.Imports {
			if imp.Path == "j5.list.v1" {
				hasImport = true
			}
		}
		if !hasImport {
			f.Imports = append(f.Imports, &jImport{Path: "j5.list.v1", Alias: "list"})
		}
		m := &jMethod{Name: "List" + name, HTTPMethod: "GET", Path: "/list", HasRes: true}
		if rng.Intn(2) == 0 {
			m.Req = append(m.Req, fld("ownerId", tKeyF("id62")))
			m.Path = "/list/:ownerId"
		}
		m.Req = append(m.Req,
			fld("page", tRef(kObject, "list.PageRequest", "j5.list.v1.PageRequest")),
			fld("query", tRef(kObject, "list.QueryRequest", "j5.list.v1.QueryRequest")))
		if svc.BasePath == "" {
			m.Path = "/" + strings.Split(pkg, ".")[0] + m.Path
		}
		m.Res = []*jF{
			fld("items", tArr(tRef(kObject, listItem, pkg+"."+listItem))),
			fld("page", tRef(kObject, "list.PageResponse", "j5.list.v1.PageResponse")),
		}
		svc.Methods = append(svc.Methods, m)
	}
	return svc
}

// listItemDecl: an object whose fields carry list rules of every kind; optionally self- or mutually recursive
func (g *j5Gen) listItemDecl(name, pkg string, recursion int) []*jElem {
	rng := g.rng
	var fields []*jF
	add := func(n string, t *jT) { fields = append(fields, fld(n, t)) }
	add("itemId", tKeyF("id62").with(func(t *jT) { t.List = &jList{Filterable: true} }))
	if rng.Intn(2) == 0 {
		add("title", tScalar(kString).with(func(t *jT) { t.List = &jList{Searchable: true} }))
	}
	if rng.Intn(2) == 0 {
		add("count", tInt("INT64").with(func(t *jT) { t.List = &jList{Filterable: true, Sortable: true} }))
	}
	if rng.Intn(2) == 0 {
		add("ratio", tFloat("FLOAT64").with(func(t *jT) { t.List = &jList{Sortable: true} }))
	}
	if rng.Intn(2) == 0 {
		add("createdAt", tScalar(kTimestamp).with(func(t *jT) { t.List = &jList{Filterable: true, Sortable: true} }))
	}
	if rng.Intn(2) == 0 {
		add("isActive", tScalar(kBool).with(func(t *jT) { t.List = &jList{Filterable: true} }))
	}
	if rng.Intn(2) == 0 {
		add("day", tScalar(kDate).with(func(t *jT) { t.List = &jList{Filterable: true} }))
	}
	if rng.Intn(2) == 0 {
		add("amount", tScalar(kDecimal).with(func(t *jT) { t.List = &jList{Filterable: true, Sortable: true} }))
	}
	out := []*jElem{}
	if rng.Intn(2) == 0 {
		add("mode", tRef(kEnum, name+"Mode", pkg+"."+name+"Mode").with(func(t *jT) { t.List = &jList{Filterable: true, DefaultFilters: []string{"ON"}} }))
		out = append(out, enumDecl(name+"Mode", "ON", "OFF"))
	}
	if rng.Intn(2) == 0 {
		add("nested", &jT{Kind: kObject, Inline: &jDecl{Kind: kObject, Fields: []*jF{fld("inner", tScalar(kString).with(func(t *jT) { t.List = &jList{Searchable: true} }))}}})
	}
	switch recursion {
	case 1:
		add("parent", tRef(kObject, name, pkg+"."+name))
	case 2:
		add("children", tArr(tRef(kObject, name, pkg+"."+name)))
	case 3:
		add("peer", tRef(kObject, name+"Peer", pkg+"."+name+"Peer"))
		out = append(out, objDecl(name+"Peer", fld("back", tRef(kObject, name, pkg+"."+name)), fld("label", tScalar(kString))))
	case 4:
		add("choice", tRef(kOneof, name+"Choice", pkg+"."+name+"Choice"))
		out = append(out, oneofDecl(name+"Choice", fld("again", tRef(kObject, name, pkg+"."+name)), fld("leaf", &jT{Kind: kObject, Inline: &jDecl{Kind: kObject, Fields: []*jF{fld("x", tScalar(kString))}}})))
	case 5:
		// a cycle made of oneofs only
		add("filter", tRef(kOneof, name+"Filter", pkg+"."+name+"Filter"))
		out = append(out, oneofDecl(name+"Filter", fld("not", tRef(kOneof, name+"Filter", pkg+"."+name+"Filter")), fld("leaf", &jT{Kind: kObject, Inline: &jDecl{Kind: kObject, Fields: []*jF{fld("x", tScalar(kString).with(func(t *jT) { t.List = &jList{Searchable: true} }))}}})))
	case 6:
		// two oneofs holding each other
		add("filter", tRef(kOneof, name+"And", pkg+"."+name+"And"))
		out = append(out, oneofDecl(name+"And", fld("either", tRef(kOneof, name+"Or", pkg+"."+name+"Or")), fld("leaf", &jT{Kind: kObject, Inline: &jDecl{Kind: kObject, Fields: []*jF{fld("x", tScalar(kString))}}})))
		out = append(out, oneofDecl(name+"Or", fld("both", tRef(kOneof, name+"And", pkg+"."+name+"And")), fld("leaf", &jT{Kind: kObject, Inline: &jDecl{Kind: kObject, Fields: []*jF{fld("y", tInt("INT64").with(func(t *jT) { t.List = &jList{Filterable: true} }))}}})))
	}
	out = append([]*jElem{{Decl: &jDecl{Kind: kObject, Name: name, Fields: fields}}}, out...)
	return out
}

// apiBundle: one or two packages with types, an API service (optionally with a list method), topics and entities
func (g *j5Gen) apiBundle(withEntity, withList bool, recursion int) (*jBundle, []*jEntityPlan) {
	rng := g.rng
	b := &jBundle{}
	var plans []*jEntityPlan
	pkgs := []string{"shop.v1", "depot.stock.v1"}[:1+rng.Intn(2)]
	for pi, pkg := range pkgs {
		dir := strings.ReplaceAll(pkg, ".", "/")
		f := &jFile{Path: dir + "/api.j5s", Pkg: pkg}
		k := &j5Known{pkg: pkg, enums: map[string][]string{}}
		// a few plain types the methods can refer to
		tn := []string{"Alpha", "Bravo", "Charlie"}
		if pi == 1 {
			tn = []string{"Delta", "Echo", "Foxtrot"}
		}
		f.Elems = append(f.Elems, enumDecl(tn[0], "ONE", "TWO"))
		k.enums[tn[0]] = []string{"ONE", "TWO"}
		f.Elems = append(f.Elems, &jElem{Decl: &jDecl{Kind: kObject, Name: tn[1], Fields: g.fields(k, 1+rng.Intn(4), "")}})
		k.objects = append(k.objects, tn[1])
		// a self-recursive plain type, reachable from methods
		f.Elems = append(f.Elems, &jElem{Decl: &jDecl{Kind: kObject, Name: tn[2], Fields: append(g.fields(k, rng.Intn(3), ""), fld("again", tRef(kObject, tn[2], pkg+"."+tn[2])))}})
		dedupeFields(&f.Elems[len(f.Elems)-1].Decl.Fields)
		k.objects = append(k.objects, tn[2])
		listItem := ""
		if withList {
			listItem = "Item" + tn[0]
			f.Elems = append(f.Elems, g.listItemDecl(listItem, pkg, recursion)...)
		}
		f.Elems = append(f.Elems, &jElem{Service: g.apiService("Api"+tn[0], pkg, k, listItem, f)})
		if rng.Intn(3) == 0 {
			msgName := []string{"Send", "Verify2fa", "Push3dModel", "PostHTTP"}[rng.Intn(4)] + tn[0]
			f.Elems = append(f.Elems, &jElem{Topic: &jTopic{Name: "Note" + tn[0], Type: "publish", Messages: []*jTopicMsg{{Name: msgName, Fields: g.fields(k, rng.Intn(3), "")}}}})
		}
		if withEntity {
			nEnt := 1 + rng.Intn(2)
			used := map[string]bool{}
			for ei := 0; ei < nEnt; ei++ {
				var p *jEntityPlan
				for tries := 0; tries < 20; tries++ {
					p = g.entityPlan(pkg, k, rng.Intn(3), 1+rng.Intn(2))
					if !used[p.Names.Camel] {
						break
					}
				}
				if used[p.Names.Camel] {
					continue
				}
				used[p.Names.Camel] = true
				plans = append(plans, p)
				f.Elems = append(f.Elems, &jElem{Entity: p.E})
			}
		}
		b.Files = append(b.Files, f)
	}
	return b, plans
}
