//go:build verif

package props

import (
	"encoding/json"
	"fmt"
	"sort"
	"strings"

	"github.com/pentops/j5/gen/j5/client/v1/client_j5pb"
	"github.com/pentops/j5/gen/j5/schema/v1/schema_j5pb"
	"github.com/pentops/j5/gen/j5/source/v1/source_j5pb"
	"github.com/pentops/j5/internal/export"
	"github.com/pentops/j5/internal/j5client"
	"github.com/pentops/j5/internal/structure"
	"github.com/pentops/j5/internal/verifh/rt"
	"github.com/pentops/j5/lib/j5codec"
	"google.golang.org/protobuf/proto"
)

// C16: compile -> source image -> source API -> client API -> J5 JSON / JDef /
// OpenAPI. The monitor drives the real entry points stage by stage (the same
// calls `j5 verify`, `j5 schema client|swagger` and buildlib make), records
// which stage fails and how, parses every rendering with an independent strict
// JSON parser, and compares the structure of the client API with what the
// source declares (services, methods, verbs, paths, request split, presence of
// every referenced schema).

func init() { Registry["C16"] = runC16 }

type pipeOut struct {
	api        *source_j5pb.API
	client     *client_j5pb.API
	clientJSON *jVal
}

func c16Stage(c *rt.C, stage, id string, det func() map[string]any, fn func() error) bool {
	var err error
	ok, pv, fnName, st := rt.Guard(func() { err = fn() })
	if !ok {
		d := det()
		d["stack"] = st
		c.Violate("stage-panic/"+stage+"/"+fnName, fmt.Sprintf("%s: stage %s panicked: %v", id, stage, pv), d)
		return false
	}
	if err != nil {
		d := det()
		d["error"] = err.Error()
		c.Violate("stage-error/"+stage+"/"+errSig(err), fmt.Sprintf("%s: stage %s rejects what the compiler emitted: %v", id, stage, rt.Clip(err.Error(), 500)), d)
		return false
	}
	c.Event("stage_ok/" + stage)
	return true
}

func c16Pipeline(c *rt.C, img *source_j5pb.SourceImage, id string, det func() map[string]any) *pipeOut {
	out := &pipeOut{}
	if !c16Stage(c, "source-api", id, det, func() (err error) { out.api, err = structure.APIFromImage(img); return }) {
		return nil
	}
	if !c16Stage(c, "client-api", id, det, func() (err error) { out.client, err = j5client.APIFromSource(out.api); return }) {
		return nil
	}
	c16Stage(c, "prose", id, det, func() error { return structure.ResolveProse(img, out.client) })
	complete := true
	parse := func(stage string, b []byte) *jVal {
		v, err := parseStrictJSON(b)
		if err != nil {
			d := det()
			d["output"] = rt.Clip(string(b), 4000)
			c.Violate("invalid-json/"+stage, fmt.Sprintf("%s: the %s rendering is not valid JSON: %v", id, stage, err), d)
			complete = false
			return nil
		}
		c.Event("renderings_parsed")
		return v
	}
	var b []byte
	// the OpenAPI and JDef documents first, from the client API exactly as APIFromSource returned it: the J5 codec
	// instantiates empty oneof members of the message it encodes, which would hide a nil one from the converters
	if c16Stage(c, "swagger", id, det, func() error {
		doc, err := export.BuildSwagger(out.client)
		if err != nil {
			return err
		}
		b, err = json.Marshal(doc)
		return err
	}) {
		if v := parse("swagger", b); v != nil {
			c16Swagger(c, v, out.client, id, det)
		}
	} else {
		complete = false
	}
	if c16Stage(c, "jdef", id, det, func() error {
		doc, err := export.FromProto(out.client)
		if err != nil {
			return err
		}
		b, err = json.Marshal(doc)
		return err
	}) {
		parse("jdef", b)
	} else {
		complete = false
	}
	if c16Stage(c, "source-json", id, det, func() (err error) { b, err = j5codec.NewCodec().ProtoToJSON(out.api.ProtoReflect()); return }) {
		parse("source-json", b)
	} else {
		complete = false
	}
	if c16Stage(c, "client-json", id, det, func() (err error) { b, err = j5codec.NewCodec().ProtoToJSON(out.client.ProtoReflect()); return }) {
		out.clientJSON = parse("client-json", b)
	} else {
		complete = false
	}
	if complete {
		c.Event("pipelines_completed")
	}
	return out
}

// c16Swagger: every method of the client API has its operation under its path and verb
func c16Swagger(c *rt.C, doc *jVal, client *client_j5pb.API, id string, det func() map[string]any) {
	paths := doc.get("paths")
	for _, pkg := range client.Packages {
		for _, svc := range pkg.Services {
			for _, m := range svc.Methods {
				c.Event("swagger_operations_checked")
				verb := strings.ToLower(strings.TrimPrefix(m.HttpMethod.String(), "HTTP_METHOD_"))
				var op *jVal
				if paths != nil {
					if pi := paths.get(m.HttpPath); pi != nil {
						op = pi.get(verb)
					}
				}
				if op == nil {
					c.Violate("swagger-operation-missing", fmt.Sprintf("%s: the OpenAPI document has no operation %s %s for %s", id, verb, m.HttpPath, m.FullGrpcName), det())
				}
			}
		}
	}
}

// ---- the declared structure --------------------------------------------------------------------------------

type xcMethod struct {
	Name, Verb, Path string
	Req, Res         []string
	ReqRaw           []string // request properties as declared: query parameters are listed without expanding flattened objects
	HasRes           bool
	PathParams       []string
	reqTypes         map[string]*jT
	resTypes         map[string]*jT
}

type xcService struct {
	Name    string
	Methods []*xcMethod
}

func clientPath(base, p string) string {
	full := p
	if base != "" {
		full = strings.TrimSuffix(base, "/") + "/" + strings.TrimPrefix(p, "/")
	}
	return full
}

// xcBundle: the bundle whose services are being modelled (flattened references are resolved in it)
var xcBundle *jBundle

func (b *jBundle) declByFull(full string) *jDecl {
	if b == nil {
		return nil
	}
	for _, f := range b.Files {
		for _, e := range f.Elems {
			if e.Decl != nil && f.Pkg+"."+e.Decl.Name == full {
				return e.Decl
			}
		}
	}
	return nil
}

func xcOfService(s *jService, name, base string) *xcService {
	out := &xcService{Name: name}
	for _, m := range s.Methods {
		xm := &xcMethod{Name: m.Name, Verb: m.HTTPMethod, Path: clientPath(base, m.Path), HasRes: m.HasRes, reqTypes: map[string]*jT{}, resTypes: map[string]*jT{}}
		for _, part := range strings.Split(xm.Path, "/") {
			if strings.HasPrefix(part, ":") {
				xm.PathParams = append(xm.PathParams, part[1:])
			}
		}
		// a flattened object stands for its members (the client API describes the JSON)
		var expand func(fs []*jF, names *[]string, types map[string]*jT)
		expand = func(fs []*jF, names *[]string, types map[string]*jT) {
			for _, f := range fs {
				if f.T != nil && f.T.Flatten && f.T.Kind == kObject {
					if f.T.Inline != nil {
						expand(f.T.Inline.Fields, names, types)
						continue
					}
					if d := xcBundle.declByFull(f.T.RefFull); d != nil {
						expand(d.Fields, names, types)
						continue
					}
				}
				*names = append(*names, f.Name)
				types[f.Name] = f.T
			}
		}
		expand(m.Req, &xm.Req, xm.reqTypes)
		for _, f := range m.Req {
			xm.ReqRaw = append(xm.ReqRaw, f.Name)
		}
		expand(m.Res, &xm.Res, xm.resTypes)
		out.Methods = append(out.Methods, xm)
	}
	return out
}

func propNames(ps []*schema_j5pb.ObjectProperty) []string {
	out := make([]string, 0, len(ps))
	for _, p := range ps {
		out = append(out, p.Name)
	}
	return out
}

func sameStrings(a, b []string) bool {
	if len(a) != len(b) {
		return false
	}
	for i := range a {
		if a[i] != b[i] {
			return false
		}
	}
	return true
}

func sortedCopy(a []string) []string {
	o := append([]string{}, a...)
	sort.Strings(o)
	return o
}

// clientSchemaLookup: is package.schema held by the client API (sub-package schemas are keyed "sub.Name")
func clientSchemaLookup(client *client_j5pb.API, pkg, schema string) *schema_j5pb.RootSchema {
	root := rootPackage(pkg)
	key := schema
	if root != pkg {
		key = strings.TrimPrefix(pkg, root+".") + "." + schema
	}
	for _, p := range client.Packages {
		// a schema of a sub-package is filed under its root package as "<sub>.<Name>"
		if p.Name == root {
			if s := p.Schemas[key]; s != nil {
				return s
			}
		}
	}
	return nil
}

func c16Method(c *rt.C, want *xcMethod, got *client_j5pb.Method, where, id string, client *client_j5pb.API, det func() map[string]any) {
	c.Event("methods_compared")
	verb := strings.TrimPrefix(got.HttpMethod.String(), "HTTP_METHOD_")
	if verb != want.Verb {
		c.Violate("client-method/verb", fmt.Sprintf("%s: %s is declared %s, the client API says %s", id, where, want.Verb, verb), det())
	}
	if got.HttpPath != want.Path {
		c.Violate("client-method/path", fmt.Sprintf("%s: %s is declared with path %q, the client API says %q", id, where, want.Path, got.HttpPath), det())
	}
	if got.Request == nil {
		c.Violate("client-method/no-request", fmt.Sprintf("%s: %s has no request in the client API", id, where), det())
		return
	}
	// each path parameter names a request property
	gotPath := propNames(got.Request.PathParameters)
	if !sameStrings(sortedCopy(gotPath), sortedCopy(want.PathParams)) {
		c.Violate("client-request/path-parameters", fmt.Sprintf("%s: %s has path %q (parameters %v) but the client API lists path parameters %v", id, where, want.Path, want.PathParams, gotPath), det())
	}
	for _, part := range strings.Split(got.HttpPath, "/") {
		if !strings.HasPrefix(part, ":") {
			continue
		}
		found := false
		for _, p := range got.Request.PathParameters {
			if p.Name == part[1:] {
				found = true
			}
		}
		if !found {
			c.Violate("client-request/path-parameter-unnamed", fmt.Sprintf("%s: %s: path part %q does not name a path parameter property", id, where, part), det())
		}
	}
	inPath := map[string]bool{}
	for _, p := range want.PathParams {
		inPath[p] = true
	}
	var rest []string
	reqNames := want.Req
	if want.Verb == "GET" {
		reqNames = want.ReqRaw
	}
	for _, n := range reqNames {
		if !inPath[n] {
			rest = append(rest, n)
		}
	}
	if want.Verb == "GET" {
		c.Feature("c16:split/query")
		if got.Request.Body != nil {
			c.Violate("client-request/get-with-body", fmt.Sprintf("%s: %s is a GET but has a request body", id, where), det())
		}
		if q := propNames(got.Request.QueryParameters); !sameStrings(q, rest) {
			c.Violate("client-request/query-parameters", fmt.Sprintf("%s: %s declares %v beside the path; the client API lists query parameters %v", id, where, rest, q), det())
		}
	} else {
		c.Feature("c16:split/body")
		if len(got.Request.QueryParameters) > 0 {
			c.Violate("client-request/body-verb-with-query", fmt.Sprintf("%s: %s (%s) lists query parameters %v", id, where, want.Verb, propNames(got.Request.QueryParameters)), det())
		}
		if got.Request.Body == nil {
			c.Violate("client-request/no-body", fmt.Sprintf("%s: %s (%s) has no request body", id, where, want.Verb), det())
		} else if bp := propNames(got.Request.Body.Properties); !sameStrings(bp, rest) {
			c.Violate("client-request/body-properties", fmt.Sprintf("%s: %s declares %v beside the path; the request body lists %v", id, where, rest, bp), det())
		}
	}
	if len(want.PathParams) > 0 {
		c.Feature(fmt.Sprintf("c16:path-params/%d", len(want.PathParams)))
	}
	if want.HasRes {
		if got.ResponseBody == nil {
			c.Violate("client-response/missing", fmt.Sprintf("%s: %s declares a response, the client API has none", id, where), det())
		} else if rp := propNames(got.ResponseBody.Properties); !sameStrings(rp, want.Res) {
			c.Violate("client-response/properties", fmt.Sprintf("%s: %s declares response fields %v; the client API lists %v", id, where, want.Res, rp), det())
		}
	} else {
		c.Feature("c16:no-response-body")
		if got.ResponseBody != nil {
			c.Violate("client-response/unexpected", fmt.Sprintf("%s: %s declares no response but the client API has a response body", id, where), det())
		}
	}
	if got.Request.List != nil {
		c.Feature("c16:list-request")
		if len(got.Request.List.FilterableFields) > 0 {
			c.Feature("c16:list-request/filterable")
		}
		if len(got.Request.List.SortableFields) > 0 {
			c.Feature("c16:list-request/sortable")
		}
		if len(got.Request.List.SearchableFields) > 0 {
			c.Feature("c16:list-request/searchable")
		}
	}
	// kinds in each position (coverage of "every field type in request, response and path positions")
	for _, p := range got.Request.PathParameters {
		c.Feature("c16:path-type/" + fieldKindName(p.Schema))
	}
	for _, p := range got.Request.QueryParameters {
		c.Feature("c16:query-type/" + strings.TrimPrefix(strings.TrimPrefix(fieldKindName(p.Schema), "array-of-"), "map-of-"))
	}
	if got.Request.Body != nil {
		for _, p := range got.Request.Body.Properties {
			c.Feature("c16:body-type/" + strings.TrimPrefix(strings.TrimPrefix(fieldKindName(p.Schema), "array-of-"), "map-of-"))
		}
	}
	if got.ResponseBody != nil {
		for _, p := range got.ResponseBody.Properties {
			c.Feature("c16:response-type/" + strings.TrimPrefix(strings.TrimPrefix(fieldKindName(p.Schema), "array-of-"), "map-of-"))
		}
	}
}

func c16Services(c *rt.C, want []*xcService, got []*client_j5pb.Service, where, id string, client *client_j5pb.API, det func() map[string]any) {
	gotBy := map[string]*client_j5pb.Service{}
	var gotNames, wantNames []string
	for _, s := range got {
		gotBy[s.Name] = s
		gotNames = append(gotNames, s.Name)
	}
	for _, s := range want {
		wantNames = append(wantNames, s.Name)
	}
	if !sameStrings(sortedCopy(gotNames), sortedCopy(wantNames)) {
		c.Violate("client-services/names", fmt.Sprintf("%s: %s declares services %v; the client API lists %v", id, where, sortedCopy(wantNames), sortedCopy(gotNames)), det())
	}
	for _, ws := range want {
		gs := gotBy[ws.Name]
		if gs == nil {
			continue
		}
		var gm, wm []string
		for _, m := range gs.Methods {
			gm = append(gm, m.Name)
		}
		for _, m := range ws.Methods {
			wm = append(wm, m.Name)
		}
		if !sameStrings(gm, wm) {
			c.Violate("client-services/methods", fmt.Sprintf("%s: service %s declares methods %v; the client API lists %v", id, ws.Name, wm, gm), det())
			continue
		}
		for i, m := range ws.Methods {
			c16Method(c, m, gs.Methods[i], ws.Name+"."+m.Name, id, client, det)
		}
	}
}

// c16Closure: every reference anywhere in the client API resolves inside it
func c16Closure(c *rt.C, client *client_j5pb.API, id string, det func() map[string]any) {
	checkField := func(where string, f *schema_j5pb.Field) {}
	var visit func(where string, f *schema_j5pb.Field)
	visit = func(where string, f *schema_j5pb.Field) {
		if f == nil {
			return
		}
		switch t := f.Type.(type) {
		case *schema_j5pb.Field_Array:
			visit(where, t.Array.Items)
			return
		case *schema_j5pb.Field_Map:
			visit(where, t.Map.ItemSchema)
			return
		}
		ref := exportedRef(f)
		if ref == nil {
			return
		}
		c.Event("client_refs_checked")
		if clientSchemaLookup(client, ref.Package, ref.Schema) == nil {
			c.Violate("client-schema-missing/"+fieldKindName(f), fmt.Sprintf("%s: %s refers to %s.%s, which no package of the client API holds", id, where, ref.Package, ref.Schema), det())
		}
	}
	_ = checkField
	props := func(where string, ps []*schema_j5pb.ObjectProperty) {
		for _, p := range ps {
			visit(where+"."+p.Name, p.Schema)
		}
	}
	method := func(where string, m *client_j5pb.Method) {
		if m.Request != nil {
			props(where+" path", m.Request.PathParameters)
			props(where+" query", m.Request.QueryParameters)
			if m.Request.Body != nil {
				props(where+" body", m.Request.Body.Properties)
			}
		}
		if m.ResponseBody != nil {
			props(where+" response", m.ResponseBody.Properties)
		}
	}
	for _, pkg := range client.Packages {
		for _, s := range pkg.Services {
			for _, m := range s.Methods {
				method(pkg.Name+"."+s.Name+"."+m.Name, m)
			}
		}
		for _, e := range pkg.StateEntities {
			if e.QueryService != nil {
				for _, m := range e.QueryService.Methods {
					method(pkg.Name+"/"+e.Name+" query "+m.Name, m)
				}
			}
			for _, s := range e.CommandServices {
				for _, m := range s.Methods {
					method(pkg.Name+"/"+e.Name+" command "+m.Name, m)
				}
			}
			// the state schema the entity names
			if e.SchemaName != "" {
				i := strings.LastIndex(e.SchemaName, ".")
				if i < 0 || clientSchemaLookup(client, e.SchemaName[:i], e.SchemaName[i+1:]) == nil {
					c.Violate("client-schema-missing/entity-state", fmt.Sprintf("%s: entity %s names state schema %s, which the client API does not hold", id, e.FullName, e.SchemaName), det())
				}
			}
		}
		for name, root := range pkg.Schemas {
			switch t := root.Type.(type) {
			case *schema_j5pb.RootSchema_Object:
				props(pkg.Name+"."+name, t.Object.Properties)
			case *schema_j5pb.RootSchema_Oneof:
				props(pkg.Name+"."+name, t.Oneof.Properties)
			}
		}
	}
}

// c16Declared compares the client API with the declarations of the bundle
func c16Declared(c *rt.C, b *jBundle, plans []*jEntityPlan, client *client_j5pb.API, id string, det func() map[string]any) {
	byPkg := map[string]*client_j5pb.Package{}
	for _, p := range client.Packages {
		byPkg[p.Name] = p
	}
	xcBundle = b
	pkgs := map[string]bool{}
	for _, f := range b.Files {
		pkgs[f.Pkg] = true
	}
	for _, pkg := range rt.SortedKeys(pkgs) {
		var want []*xcService
		wantEntities := map[string]*jEntityPlan{}
		for _, f := range b.Files {
			if f.Pkg != pkg {
				continue
			}
			for _, e := range f.Elems {
				if e.Service != nil {
					want = append(want, xcOfService(e.Service, e.Service.Name+"Service", e.Service.BasePath))
				}
			}
		}
		for _, p := range plans {
			if p.Pkg == pkg {
				wantEntities[p.Names.Snake] = p
			}
		}
		// entities of bundles that come without a plan (isolation matrix) are not compared by name
		unplanned := false
		if plans == nil {
			for _, f := range b.Files {
				for _, e := range f.Elems {
					if e.Entity != nil && f.Pkg == pkg {
						unplanned = true
					}
				}
			}
		}
		got := byPkg[pkg]
		if got == nil {
			if len(want) > 0 || len(wantEntities) > 0 {
				c.Violate("client-package-missing", fmt.Sprintf("%s: package %s declares services or entities but is not in the client API", id, pkg), det())
			}
			continue
		}
		c16Services(c, want, got.Services, "package "+pkg, id, client, det)
		// entities: listed by their snake name, their services attached to them and not to the package
		var gotEnt []string
		for _, e := range got.StateEntities {
			gotEnt = append(gotEnt, e.Name)
		}
		var wantEnt []string
		for n := range wantEntities {
			wantEnt = append(wantEnt, n)
		}
		if !unplanned && !sameStrings(sortedCopy(gotEnt), sortedCopy(wantEnt)) {
			c.Violate("client-entities/names", fmt.Sprintf("%s: package %s declares entities %v; the client API lists %v", id, pkg, sortedCopy(wantEnt), sortedCopy(gotEnt)), det())
		}
		for _, e := range got.StateEntities {
			p := wantEntities[e.Name]
			if p == nil {
				continue
			}
			c.Feature("c16:entity")
			var cmds []*xcService
			for i, cs := range p.E.Commands {
				base := "/" + strings.ReplaceAll(pkg, ".", "/") + "/" + p.Names.Snake + "/c"
				if cs.BasePath != "" {
					base = "/" + strings.ReplaceAll(pkg, ".", "/") + "/" + p.Names.Snake + "/" + cs.BasePath
				}
				cmds = append(cmds, xcOfService(cs, p.CommandSvc[i]+"Service", base))
			}
			c16Services(c, cmds, e.CommandServices, "entity "+e.Name+" commands", id, client, det)
			if e.QueryService == nil || len(e.QueryService.Methods) == 0 {
				c.Violate("client-entities/no-query", fmt.Sprintf("%s: entity %s has no query service in the client API", id, e.Name), det())
			}
		}
	}
}

func c16Bundle(c *rt.C, b *jBundle, plans []*jEntityPlan, id, class string) {
	src := b.sources()
	mb := newMemBundle(src)
	det := func() map[string]any { d := srcDetail(src); d["id"] = id; return d }
	c.Feature("c16:" + class)
	var img *source_j5pb.SourceImage
	var err error
	c.Input(bundleBytes(src))
	ok, _, _, _ := rt.Guard(func() { img, err = bundleImage(mb) })
	if !ok || err != nil {
		c.EndBudget()
		c.Event("bundle_does_not_compile") // acceptance is C07's subject
		if err != nil {
			c.Feature("c16:compile-failed/" + errSig(err))
			if c.Runner().Arg("show", "") != "" {
				fmt.Printf("COMPILE-FAIL %s: %v\n%s\n", id, err, bundleBytes(src))
			}
		}
		return
	}
	out := c16Pipeline(c, img, id, det)
	c.EndBudget()
	nontrivial := false
	for _, f := range b.Files {
		for _, e := range f.Elems {
			if e.Service != nil || e.Entity != nil || e.Topic != nil {
				nontrivial = true
			}
		}
	}
	c.Eval(rt.Hash(id, string(bundleBytes(src))), nontrivial)
	if out == nil || out.client == nil {
		return
	}
	c16Closure(c, out.client, id, det)
	c16Declared(c, b, plans, out.client, id, det)
	if c.WantSample() {
		d := det()
		var svc []string
		for _, p := range out.client.Packages {
			for _, s := range p.Services {
				for _, m := range s.Methods {
					svc = append(svc, fmt.Sprintf("%s.%s %s %s", p.Name, s.Name, m.HttpMethod, m.HttpPath))
				}
			}
			for _, e := range p.StateEntities {
				svc = append(svc, "entity "+e.FullName)
			}
		}
		d["client_methods"] = svc
		c.Sample(d)
	}
	_ = proto.Equal
}

func runC16(r *rt.Runner) {
	for _, cell := range isolationMatrix() {
		cell := cell
		if cell.TotalityOnly {
			continue
		}
		r.Do("iso/"+cell.ID, func(c *rt.C) { c16Bundle(c, cell.Bundle, nil, "iso:"+cell.ID, "isolation") })
	}
	// every field type in path / query / body / response position, one at a time
	types := j5ScalarTypes()
	for _, tn := range sortedTypeNames(types) {
		tn := tn
		for _, verb := range []string{"GET", "POST"} {
			verb := verb
			r.Do("position/"+tn+"/"+verb, func(c *rt.C) {
				mk := types[tn]
				m := &jMethod{Name: "Probe", HTTPMethod: verb, Path: "/probe", HasRes: true,
					Req: []*jF{fld("single", mk()), fld("many", tArr(mk()))},
					Res: []*jF{fld("single", mk()), fld("many", tArr(mk())), fld("byName", tMap(mk()))}}
				if mk().Kind == "any" {
					m.Req = m.Req[:1]
					m.Res = m.Res[:1]
				}
				b := elemsBundle(&jElem{Service: &jService{Name: "Probe", BasePath: "/iso/v1", Methods: []*jMethod{m}}})
				c16Bundle(c, b, nil, "position:"+tn+"/"+verb, "positions")
			})
		}
		r.Do("position/"+tn+"/path", func(c *rt.C) {
			mk := types[tn]
			if k := mk().Kind; k == "any" || k == kBytes {
				return
			}
			m := &jMethod{Name: "Probe", HTTPMethod: "GET", Path: "/probe/:single", HasRes: true, Req: []*jF{fld("single", mk())}, Res: []*jF{fld("ok", tScalar(kBool))}}
			b := elemsBundle(&jElem{Service: &jService{Name: "Probe", BasePath: "/iso/v1", Methods: []*jMethod{m}}})
			c16Bundle(c, b, nil, "position:"+tn+"/path", "path-positions")
		})
	}
	for rec := 0; rec <= 6; rec++ {
		rec := rec
		r.Do(fmt.Sprintf("list-recursion/%d", rec), func(c *rt.C) {
			g := &j5Gen{rng: c.Rand()}
			b, plans := g.apiBundle(false, true, rec)
			c16Bundle(c, b, plans, fmt.Sprintf("list-recursion:%d", rec), "list-methods")
		})
	}
	for i := 0; i < r.Scale(250, 40000); i++ {
		r.Do(fmt.Sprintf("api/%d", i), func(c *rt.C) {
			g := &j5Gen{rng: c.Rand()}
			withList := i%2 == 0
			b, plans := g.apiBundle(i%3 != 0, withList, g.rng.Intn(7))
			class := "api"
			if withList {
				class = "list-methods"
			}
			c16Bundle(c, b, plans, fmt.Sprintf("api:%d", i), class)
		})
	}
	for i := 0; i < r.Scale(150, 20000); i++ {
		r.Do(fmt.Sprintf("bundle/%d", i), func(c *rt.C) {
			bundle := (&j5Gen{rng: c.Rand()}).randomBundle()
			if i%2 == 0 {
				decorate(bundle)
			}
			c16Bundle(c, bundle, nil, fmt.Sprintf("random:%d", i), "random-bundle")
		})
	}
}
