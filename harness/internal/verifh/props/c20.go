//go:build verif

package props

import (
	"buf.build/gen/go/bufbuild/protovalidate/protocolbuffers/go/buf/validate"
	"bytes"
	"encoding/hex"
	"fmt"
	"github.com/pentops/j5/lib/j5schema"
	"google.golang.org/protobuf/proto"
	"google.golang.org/protobuf/reflect/protoreflect"
	"google.golang.org/protobuf/types/descriptorpb"
	"math/big"
	"regexp"
	"strings"
	"sync"

	"github.com/pentops/j5/internal/verifh/rt"
	"github.com/pentops/j5/lib/id62"
)

// The pattern as published in README.md ("pattern: \"^[0-9A-Za-z]{22}$\"").
const publishedID62Pattern = `^[0-9A-Za-z]{22}$`

var publishedID62Re = regexp.MustCompile(publishedID62Pattern)

func init() { Registry["C20"] = runC20 }

var two128 = new(big.Int).Lsh(big.NewInt(1), 128)

func idFromBig(v *big.Int) id62.UUID {
	var id id62.UUID
	b := v.Bytes()
	copy(id[16-len(b):], b)
	return id
}

// c20Digits derives the digit value of each alphanumeric character from the
// implementation itself (Parse of a single character), so that the positional
// evaluation below does not assume a particular ordering of the alphabet.
func c20Digits(c *rt.C) (map[byte]int64, bool) {
	const alnum = "0123456789abcdefghijklmnopqrstuvwxyzABCDEFGHIJKLMNOPQRSTUVWXYZ"
	digits := map[byte]int64{}
	seen := map[int64]byte{}
	for i := 0; i < len(alnum); i++ {
		ch := alnum[i]
		var id id62.UUID
		var err error
		ok, pv, fn, _ := rt.Guard(func() { id, err = id62.Parse(string(ch)) })
		if !ok {
			c.Violate("parse-panic/"+fn, fmt.Sprintf("Parse(%q) panicked: %v", string(ch), pv), nil)
			return nil, false
		}
		if err != nil {
			c.Violate("alphabet/reject/"+string(ch), fmt.Sprintf("Parse(%q) fails: %v — a character of the published pattern is not a digit", string(ch), err), nil)
			return nil, false
		}
		v := new(big.Int).SetBytes(id[:])
		if !v.IsInt64() || v.Int64() < 0 || v.Int64() > 61 {
			c.Violate("alphabet/range", fmt.Sprintf("Parse(%q) = %s, not a base-62 digit", string(ch), v), nil)
			return nil, false
		}
		if o, dup := seen[v.Int64()]; dup {
			c.Violate("alphabet/dup", fmt.Sprintf("characters %q and %q have the same digit value %d", string(o), string(ch), v.Int64()), nil)
			return nil, false
		}
		seen[v.Int64()] = ch
		digits[ch] = v.Int64()
	}
	return digits, true
}

func c20Eval(digits map[byte]int64, s string) (*big.Int, bool) {
	if s == "" {
		return nil, false
	}
	v := new(big.Int)
	b62 := big.NewInt(62)
	for i := 0; i < len(s); i++ {
		d, ok := digits[s[i]]
		if !ok {
			return nil, false
		}
		v.Mul(v, b62)
		v.Add(v, big.NewInt(d))
	}
	return v, true
}

var (
	heldIDs     []id62.UUID
	heldStrings []string
	heldCopies  []string
)

func c20CheckID(c *rt.C, id id62.UUID, class string) {
	c.Eval(rt.HashBytes(id[:]), true)
	var s string
	ok, pv, fn, _ := rt.Guard(func() { s = id.String() })
	if !ok {
		c.Violate("string-panic/"+fn, fmt.Sprintf("String() of %x panicked: %v", id[:], pv), map[string]any{"id_hex": hex.EncodeToString(id[:]), "class": class})
		return
	}
	if len(s) != 22 {
		c.Violate("shape/len", fmt.Sprintf("String() of %x = %q has %d characters, want 22", id[:], s, len(s)), map[string]any{"id_hex": hex.EncodeToString(id[:]), "class": class})
		return
	}
	if !publishedID62Re.MatchString(s) || !id62.Pattern.MatchString(s) {
		c.Violate("shape/pattern", fmt.Sprintf("String() of %x = %q does not match the published pattern", id[:], s), map[string]any{"id_hex": hex.EncodeToString(id[:]), "class": class})
		return
	}
	var back id62.UUID
	var err error
	ok, pv, fn, _ = rt.Guard(func() { back, err = id62.Parse(s) })
	if !ok {
		c.Violate("parse-panic/"+fn, fmt.Sprintf("Parse(%q) panicked: %v", s, pv), map[string]any{"id_hex": hex.EncodeToString(id[:])})
		return
	}
	if err != nil {
		c.Violate("roundtrip/reject", fmt.Sprintf("Parse(String(%x)=%q) fails: %v", id[:], s, err), map[string]any{"id_hex": hex.EncodeToString(id[:]), "class": class})
		return
	}
	if back != id {
		c.Violate("roundtrip/differs", fmt.Sprintf("Parse(String(%x)=%q) = %x", id[:], s, back[:]), map[string]any{"id_hex": hex.EncodeToString(id[:]), "class": class})
	}
	// renderings that are kept: what String() returned for earlier identifiers stays what it was ("distinct identifiers
	// have distinct renderings" is about renderings one holds, not about one call at a time)
	heldIDs = append(heldIDs, id)
	heldStrings = append(heldStrings, s)
	heldCopies = append(heldCopies, strings.Clone(s))
	if len(heldIDs) == 64 {
		seen := map[string]int{}
		for i := range heldIDs {
			c.Event("held_renderings_rechecked")
			if heldStrings[i] != heldCopies[i] {
				c.Violate("held-rendering/changed", fmt.Sprintf("the rendering of %x was %q when String() returned it and reads %q after later String() calls", heldIDs[i][:], heldCopies[i], heldStrings[i]), map[string]any{"id_hex": hex.EncodeToString(heldIDs[i][:])})
				break
			}
			if j, dup := seen[heldStrings[i]]; dup && heldIDs[j] != heldIDs[i] {
				c.Violate("held-rendering/not-distinct", fmt.Sprintf("%x and %x have the same rendering %q", heldIDs[j][:], heldIDs[i][:], heldStrings[i]), nil)
				break
			}
			seen[heldStrings[i]] = i
		}
		heldIDs, heldStrings, heldCopies = nil, nil, nil
	}
	if c.WantSample() {
		c.Sample(map[string]any{"id_hex": hex.EncodeToString(id[:]), "string": s, "class": class})
	}
}

func c20CheckString(c *rt.C, digits map[byte]int64, u string, class string) {
	c.Eval(rt.Hash("str", u), true)
	var id id62.UUID
	var err error
	ok, pv, fn, _ := rt.Guard(func() { id, err = id62.Parse(u) })
	if !ok {
		c.Violate("parse-panic/"+fn, fmt.Sprintf("Parse(%q) panicked: %v", u, pv), map[string]any{"string": u, "class": class})
		return
	}
	want, evaluable := c20Eval(digits, u)
	if !evaluable {
		if err == nil {
			c.Event("accepted_outside_alphabet")
		}
		return
	}
	if want.Cmp(two128) >= 0 {
		c.Feature("str:too-large")
		if err == nil {
			c.Violate("parse/accepts-too-large", fmt.Sprintf("Parse(%q) succeeds (%x) but the value %s does not fit in 16 bytes", u, id[:], want), map[string]any{"string": u, "class": class})
		}
		return
	}
	c.Feature("str:fits")
	if publishedID62Re.MatchString(u) {
		if err != nil {
			c.Violate("parse/rejects-valid", fmt.Sprintf("Parse(%q) fails (%v) although it matches the pattern and fits in 16 bytes", u, err), map[string]any{"string": u, "class": class})
			return
		}
		if w := idFromBig(want); w != id {
			c.Violate("parse/wrong-value", fmt.Sprintf("Parse(%q) = %x, positional value is %x", u, id[:], w[:]), map[string]any{"string": u, "class": class})
		}
	}
}

func runC20(r *rt.Runner) {
	var digits map[byte]int64
	getDigits := func(c *rt.C) map[byte]int64 {
		if digits == nil {
			d, ok := c20Digits(c)
			if !ok {
				d = map[byte]int64{}
			}
			digits = d
		}
		return digits
	}

	r.Do("pattern", func(c *rt.C) {
		c.Eval(rt.Hash("pattern"), true)
		if id62.PatternString != publishedID62Pattern {
			c.Violate("pattern/differs", fmt.Sprintf("id62.PatternString = %q, published pattern is %q", id62.PatternString, publishedID62Pattern), nil)
		}
		if id62.Pattern.String() != id62.PatternString {
			c.Violate("pattern/regexp", fmt.Sprintf("id62.Pattern = %q differs from PatternString %q", id62.Pattern.String(), id62.PatternString), nil)
		}
		getDigits(c)
	})

	// --- the published pattern is what the compiler writes for key:id62, in every position a key can take, and
	// what the schema reader recognises as an id62 key again
	r.Do("pattern/compiled-positions", func(c *rt.C) {
		key := func() *jT { return tKeyF("id62") }
		fields := []*jF{
			fld("single", key()),
			{Name: "needed", T: key(), Req: true},
			{Name: "maybe", T: key(), Opt: true},
			fld("listed", key().with(func(t *jT) { t.List = &jList{Filterable: true} })),
			fld("list", tArr(key())),
			fld("listMin", tArr(key()).with(func(t *jT) { t.Rules = &jRules{MinItems: pU(1)} })),
			fld("listUnique", tArr(key()).with(func(t *jT) { t.Rules = &jRules{MinItems: pU(1), MaxItems: pU(5), Unique: pB(true)} })),
			fld("byName", tMap(key())),
			fld("byNameSized", tMap(key()).with(func(t *jT) { t.Rules = &jRules{MinPairs: pU(1), MaxPairs: pU(5)} })),
			// with entity annotations
			fld("primary", key().with(func(t *jT) { t.Primary = pB(true) })),
			fld("notPrimary", key().with(func(t *jT) { t.Primary = pB(false) })),
			fld("foreign", key().with(func(t *jT) { t.Foreign = "other.v1.thing" })),
			fld("tenant", key().with(func(t *jT) { t.Tenant = "account" })),
		}
		// the keys of an entity: compiled into the Keys message and into the requests of the query service
		entity := &jEntity{Name: "Widget", Keys: []*jF{fld("widgetId", key().with(func(t *jT) { t.Primary = pB(true) })), fld("partId", key().with(func(t *jT) { t.Primary = pB(true) })), fld("batchId", key())},
			Data: []*jF{fld("name", tScalar(kString))}, Statuses: []string{"ACTIVE"}, Events: []*jEvent{{Name: "Created"}}}
		entityKeyFields := map[string]bool{"widget_id": true, "part_id": true, "batch_id": true}
		entityMessages := map[string]bool{"WidgetKeys": true, "WidgetGetRequest": true, "WidgetEventsRequest": true}
		// the same as arms of a oneof (plain, required, optional)
		arms := []*jF{fld("byId", key()), {Name: "byNeededId", T: key(), Req: true}, {Name: "byMaybeId", T: key(), Opt: true}}
		b := elemsBundle(objDecl("Keys", fields...), &jElem{Decl: &jDecl{Kind: kOneof, Name: "Lookup", Fields: arms}}, &jElem{Entity: entity})
		src := b.sources()
		det := srcDetail(src)
		cp, err := compileBundlePackage(newMemBundle(src), "iso.v1")
		if err != nil {
			c.Violate("pattern/compile-rejected", fmt.Sprintf("an object with key:id62 fields in every position does not compile: %v", err), det)
			return
		}
		c.Eval(rt.Hash("compiled-positions"), true)
		c.Feature("id:compiled-positions")
		var md protoreflect.MessageDescriptor
		for _, f := range cp.Files {
			if m := f.Messages().ByName("Keys"); m != nil {
				md = m
			}
		}
		for _, fd := range typedProtos(cp.Protos) {
			for _, m := range fd.MessageType {
				if m.GetName() != "Keys" && m.GetName() != "Lookup" && !entityMessages[m.GetName()] {
					continue
				}
				for _, f := range m.Field {
					if entityMessages[m.GetName()] {
						if !entityKeyFields[f.GetName()] {
							continue
						}
						c.Event("entity_key_patterns_read")
					}
					got := ""
					if f.Options != nil && proto.HasExtension(f.Options, validate.E_Field) {
						fc := proto.GetExtension(f.Options, validate.E_Field).(*validate.FieldConstraints)
						switch {
						case f.GetLabel() == descriptorpb.FieldDescriptorProto_LABEL_REPEATED && strings.HasSuffix(f.GetTypeName(), "Entry"):
							got = fc.GetMap().GetValues().GetString_().GetPattern()
						case f.GetLabel() == descriptorpb.FieldDescriptorProto_LABEL_REPEATED:
							got = fc.GetRepeated().GetItems().GetString_().GetPattern()
						default:
							got = fc.GetString_().GetPattern()
						}
					}
					c.Event("compiled_patterns_read")
					if got != publishedID62Pattern {
						c.Violate("pattern/compiled/"+f.GetName(), fmt.Sprintf("field %s of %s (key:id62) is compiled with pattern %q, the published pattern is %q", f.GetName(), m.GetName(), got, publishedID62Pattern), det)
					}
				}
			}
		}
		if md == nil {
			return
		}
		root, err := j5schema.NewSchemaCache().Schema(md)
		if err != nil {
			c.Violate("pattern/read-back-error", fmt.Sprintf("the compiled Keys message cannot be reflected: %v", err), det)
			return
		}
		for _, p := range root.ToJ5Root().GetObject().GetProperties() {
			f := p.Schema
			if a := f.GetArray(); a != nil {
				f = a.Items
			} else if m := f.GetMap(); m != nil {
				f = m.ItemSchema
			}
			c.Event("read_back_keys_checked")
			if f.GetKey() == nil || f.GetKey().GetFormat().GetId62() == nil {
				c.Violate("pattern/read-back/"+p.Name, fmt.Sprintf("property %s was declared key:id62; read back from the compiled pattern it is %v", p.Name, f), det)
			}
		}
	})

	// --- systematic identifiers -------------------------------------------------
	r.Do("ids/boundary", func(c *rt.C) {
		var zero, ones id62.UUID
		for i := range ones {
			ones[i] = 0xff
		}
		c20CheckID(c, zero, "all-zero")
		c20CheckID(c, ones, "all-one")
		c.Feature("id:all-zero", "id:all-one")
		for bit := 0; bit < 128; bit++ {
			var id id62.UUID
			id[15-bit/8] = 1 << (bit % 8)
			c20CheckID(c, id, "single-bit")
			// and its complement
			for i := range id {
				id[i] = ^id[i]
			}
			c20CheckID(c, id, "single-zero-bit")
		}
		c.Feature("id:single-bit")
		for lead := 0; lead <= 16; lead++ {
			var id id62.UUID
			for i := lead; i < 16; i++ {
				id[i] = 0xff
			}
			c20CheckID(c, id, "leading-zero-bytes")
			for i := lead; i < 16; i++ {
				id[i] = 0x01
			}
			c20CheckID(c, id, "leading-zero-bytes")
		}
		c.Feature("id:leading-zero-bytes")
		p := big.NewInt(1)
		b62 := big.NewInt(62)
		for k := 0; k <= 21; k++ {
			for d := int64(-2); d <= 2; d++ {
				v := new(big.Int).Add(p, big.NewInt(d))
				if v.Sign() < 0 || v.Cmp(two128) >= 0 {
					continue
				}
				c20CheckID(c, idFromBig(v), "power-of-62")
			}
			// multiples d*62^k for leading digit boundaries
			for _, d := range []int64{9, 10, 35, 36, 61} {
				v := new(big.Int).Mul(p, big.NewInt(d))
				if v.Cmp(two128) >= 0 {
					continue
				}
				c20CheckID(c, idFromBig(v), "digit-boundary")
			}
			p.Mul(p, b62)
		}
		c.Feature("id:power-of-62")
		for d := int64(0); d <= 3; d++ {
			v := new(big.Int).Sub(two128, big.NewInt(1+d))
			c20CheckID(c, idFromBig(v), "max")
		}
		c.Feature("id:max")
	})

	// --- uniform identifiers -----------------------------------------------------
	batches := r.Scale(1000, 400000)
	const per = 1000
	for b := 0; b < batches; b++ {
		r.Do(fmt.Sprintf("ids/uniform/%d", b), func(c *rt.C) {
			rng := c.Rand()
			for i := 0; i < per; i++ {
				var id id62.UUID
				rng.Read(id[:])
				// a share with short values so that padding is exercised at random too
				if i%10 == 0 {
					z := rng.Intn(16)
					for j := 0; j < z; j++ {
						id[j] = 0
					}
				}
				c20CheckID(c, id, "uniform")
			}
			c.Feature("id:uniform")
		})
	}

	// --- strings offered to the parser ---------------------------------------------
	r.Do("str/systematic", func(c *rt.C) {
		dg := getDigits(c)
		list := []string{"", " ", "+", "-", "_", "+1", "-1", "1_0", "0x10", "0b1", "١٢٣", "é", "\x00", "\xff\xfe", "1 ", " 1", "1\n",
			strings.Repeat("z", 22), strings.Repeat("Z", 22), strings.Repeat("0", 22), strings.Repeat("9", 22),
			strings.Repeat("z", 21), strings.Repeat("z", 23), strings.Repeat("0", 40) + "1", strings.Repeat("0", 23),
			"-" + strings.Repeat("z", 22), "+" + strings.Repeat("0", 21) + "1",
		}
		// 2^128-1, 2^128, 2^128+1 rendered with the derived alphabet
		rev := map[int64]byte{}
		for ch, d := range dg {
			rev[d] = ch
		}
		render := func(v *big.Int, width int) string {
			if len(rev) != 62 {
				return ""
			}
			var out []byte
			x := new(big.Int).Set(v)
			m := new(big.Int)
			b62 := big.NewInt(62)
			for x.Sign() > 0 {
				x.DivMod(x, b62, m)
				out = append(out, rev[m.Int64()])
			}
			for len(out) < width {
				out = append(out, rev[0])
			}
			for i, j := 0, len(out)-1; i < j; i, j = i+1, j-1 {
				out[i], out[j] = out[j], out[i]
			}
			return string(out)
		}
		for d := int64(-3); d <= 3; d++ {
			v := new(big.Int).Add(two128, big.NewInt(d))
			list = append(list, render(v, 22), render(v, 30))
		}
		for k := 0; k < 16; k++ {
			v := new(big.Int).Lsh(big.NewInt(1), uint(128+k))
			list = append(list, render(v, 22))
			v = new(big.Int).Lsh(big.NewInt(1), uint(128+k*64))
			list = append(list, render(v, 0))
		}
		for n := 1; n <= 40; n++ {
			for _, ch := range []string{"0", "1", "9", "a", "z", "A", "Z", "-", "_", " ", "é"} {
				list = append(list, strings.Repeat(ch, n))
			}
		}
		for b := 0; b < 256; b++ {
			list = append(list, string([]byte{byte(b)}), "1"+string([]byte{byte(b)})+"1", strings.Repeat("1", 21)+string([]byte{byte(b)}))
		}
		for _, u := range list {
			c20CheckString(c, dg, u, "systematic")
		}
		c.Feature("str:systematic")
		c.Sample(map[string]any{"strings": list[:12]})
	})

	sbatches := r.Scale(200, 80000)
	for b := 0; b < sbatches; b++ {
		r.Do(fmt.Sprintf("str/random/%d", b), func(c *rt.C) {
			dg := getDigits(c)
			rng := c.Rand()
			const alnum = "0123456789abcdefghijklmnopqrstuvwxyzABCDEFGHIJKLMNOPQRSTUVWXYZ"
			for i := 0; i < 500; i++ {
				var u string
				switch rng.Intn(4) {
				case 0: // pattern-conforming, uniformly random: ~ 1/8 fit in 16 bytes
					bb := make([]byte, 22)
					for j := range bb {
						bb[j] = alnum[rng.Intn(62)]
					}
					u = string(bb)
				case 1: // pattern-conforming, near the 2^128 boundary in the leading digits
					bb := make([]byte, 22)
					bb[0] = alnum[rng.Intn(10)]
					for j := 1; j < 22; j++ {
						bb[j] = alnum[rng.Intn(62)]
					}
					u = string(bb)
				case 2: // alphanumeric of other lengths
					n := rng.Intn(41)
					bb := make([]byte, n)
					for j := range bb {
						bb[j] = alnum[rng.Intn(62)]
					}
					u = string(bb)
				default: // arbitrary bytes
					n := rng.Intn(30)
					bb := make([]byte, n)
					rng.Read(bb)
					if rng.Intn(2) == 0 {
						for j := range bb {
							if rng.Intn(3) > 0 {
								bb[j] = alnum[rng.Intn(62)]
							}
						}
					}
					u = string(bb)
				}
				c20CheckString(c, dg, u, "random")
			}
			c.Feature("str:random")
		})
	}

	// --- hash-derived identifiers are a pure function -----------------------------------
	r.DoAll("hash/pure", func(c *rt.C) {
		type arg struct {
			ns  string
			ins []string
		}
		var argv []arg
		words := []string{"", "a", "ab", "foo", "é", "\x00", strings.Repeat("x", 1000)}
		for _, ns := range words {
			argv = append(argv, arg{ns, nil})
			for _, a := range words {
				argv = append(argv, arg{ns, []string{a}})
				for _, b := range words[:4] {
					argv = append(argv, arg{ns, []string{a, b}})
				}
			}
		}
		// argument lists that read the same once joined with some separator: a result remembered under a joined key
		// would be handed to the wrong caller
		for _, sep := range []string{"/", "\x00", ",", ":", "|", " ", "-", "", "\x1f"} {
			argv = append(argv, arg{"ns", []string{"tenant" + sep + "1234", "foo"}}, arg{"ns", []string{"tenant", "1234" + sep + "foo"}}, arg{"ns", []string{"tenant" + sep + "1234" + sep + "foo"}},
				arg{"ns" + sep + "tenant", []string{"1234", "foo"}}, arg{"ns", []string{"tenant", "1234", "foo"}})
		}
		first := make([]id62.UUID, len(argv))
		// odd worker processes make the first calls in the opposite order: what a call returns must not depend on
		// which calls came before it (compared across processes below)
		for k := range argv {
			i := k
			if r.Cfg.Shard%2 == 1 {
				i = len(argv) - 1 - k
			}
			a := argv[i]
			first[i] = id62.NewHash(a.ns, a.ins...)
			c.Eval(rt.Hash("hash", a.ns, strings.Join(a.ins, "\x01")), true)
		}
		// repeated calls, sequentially and from goroutines
		for rep := 0; rep < 3; rep++ {
			for i, a := range argv {
				if got := id62.NewHash(a.ns, a.ins...); got != first[i] {
					c.Violate("hash/impure", fmt.Sprintf("NewHash(%q, %q) returned %x then %x", a.ns, a.ins, first[i][:], got[:]), nil)
				}
			}
		}
		var wg sync.WaitGroup
		var mu sync.Mutex
		bad := ""
		for g := 0; g < 8; g++ {
			wg.Add(1)
			go func() {
				defer wg.Done()
				for i, a := range argv {
					if got := id62.NewHash(a.ns, a.ins...); got != first[i] {
						mu.Lock()
						bad = fmt.Sprintf("NewHash(%q, %q) returned %x then %x in a goroutine", a.ns, a.ins, first[i][:], got[:])
						mu.Unlock()
					}
				}
			}()
		}
		wg.Wait()
		if bad != "" {
			c.Violate("hash/impure-concurrent", bad, nil)
		}
		var all bytes.Buffer
		for _, f := range first {
			all.Write(f[:])
		}
		// compared across worker processes by the driver
		r.Note("xproc:newhash-digest", fmt.Sprintf("%016x", rt.HashBytes(all.Bytes())))
		for i := range first {
			c20CheckID(c, first[i], "hash-derived")
		}
		c.Feature("hash:pure")
	})
}
