//go:build verif

package props

import (
	"context"
	"fmt"
	"math/rand"
	"sort"
	"strings"
	"testing/fstest"

	"github.com/bufbuild/protocompile"
	"github.com/pentops/j5/internal/protosrc"
	"google.golang.org/protobuf/reflect/protodesc"
	"google.golang.org/protobuf/reflect/protoreflect"
	"google.golang.org/protobuf/reflect/protoregistry"
	"google.golang.org/protobuf/types/descriptorpb"
	"google.golang.org/protobuf/types/dynamicpb"
)

// ---- the type model: what a J5 type *is*, independent of the code under test --------
//
// For G-PROTO the model is the generator's own plan of the .proto file it
// writes; for G-J5S it is the expected result of compiling the source. The
// reference JSON rendering (C08), the value generator and the non-triviality
// rules work from this model, never from j5schema/j5reflect.

const (
	kString    = "string"
	kKey       = "key"
	kBool      = "bool"
	kInt32     = "int32"
	kSint32    = "sint32"
	kInt64     = "int64"
	kSint64    = "sint64"
	kUint32    = "uint32"
	kUint64    = "uint64"
	kFloat     = "float"
	kDouble    = "double"
	kBytes     = "bytes"
	kTimestamp = "timestamp"
	kDate      = "date"
	kDecimal   = "decimal"
	kEnum      = "enum"
	kObject    = "object"
	kOneof     = "oneof" // a oneof-wrapper message
	kJ5Any     = "j5any"
	kPbAny     = "pbany"
)

var scalarKinds = []string{kString, kKey, kBool, kInt32, kSint32, kInt64, kSint64, kUint32, kUint64, kFloat, kDouble, kBytes, kTimestamp, kDate, kDecimal}

func protoTypeOf(kind string) string {
	switch kind {
	case kString, kKey:
		return "string"
	case kTimestamp:
		return "google.protobuf.Timestamp"
	case kDate:
		return "j5.types.date.v1.Date"
	case kDecimal:
		return "j5.types.decimal.v1.Decimal"
	case kJ5Any:
		return "j5.types.any.v1.Any"
	case kPbAny:
		return "google.protobuf.Any"
	}
	return kind
}

type tField struct {
	Name    string
	JSON    string
	Num     int
	Kind    string
	Ref     string // full name of the enum/object/oneof type
	Card    string // "", "optional", "repeated", "map"
	Flatten bool
	Group   string // real oneof containing the field
	Options []string
}

type tGroup struct {
	Name    string
	Exposed bool
}

type tMsg struct {
	Full    string
	Name    string
	Fields  []*tField
	Wrapper bool // oneof wrapper: every field is inside oneof "type"
	// how the wrapper is declared: "implicit" (shape only), "legacy" (is_oneof_wrapper), "typed" ((j5.ext.v1.message).oneof = {})
	WrapperDecl string
	Groups      []tGroup
	Nested      []*tMsg
	Enums       []*tEnum
	ObjectOpt   bool // explicit (j5.ext.v1.message).object = {}
}

type tEnum struct {
	Full   string
	Name   string
	Prefix string   // e.g. "FOO_STATUS_"
	Values []string // short names; [0] == "UNSPECIFIED"
	// Numbers, when set, gives the number of each value (sparse / unordered numbering); otherwise number = index
	Numbers []int32
}

func (e *tEnum) number(i int) int32 {
	if e.Numbers != nil {
		return e.Numbers[i]
	}
	return int32(i)
}

// nameOf returns the short name of the value with this number ("" when undefined)
func (e *tEnum) nameOf(n int32) (string, bool) {
	for i, v := range e.Values {
		if e.number(i) == n {
			return v, true
		}
	}
	return "", false
}

type tFile struct {
	Path  string
	Pkg   string
	Msgs  []*tMsg
	Enums []*tEnum
}

type tModel struct {
	Files []*tFile
	msgs  map[string]*tMsg
	enums map[string]*tEnum
}

func (m *tModel) index() {
	m.msgs = map[string]*tMsg{}
	m.enums = map[string]*tEnum{}
	var walk func(ms []*tMsg)
	walk = func(ms []*tMsg) {
		for _, x := range ms {
			m.msgs[x.Full] = x
			for _, e := range x.Enums {
				m.enums[e.Full] = e
			}
			walk(x.Nested)
		}
	}
	for _, f := range m.Files {
		walk(f.Msgs)
		for _, e := range f.Enums {
			m.enums[e.Full] = e
		}
	}
}

func (m *tModel) msg(full string) *tMsg   { return m.msgs[full] }
func (m *tModel) enum(full string) *tEnum { return m.enums[full] }

func (m *tModel) allMsgs() []*tMsg {
	names := make([]string, 0, len(m.msgs))
	for n := range m.msgs {
		names = append(names, n)
	}
	sort.Strings(names)
	out := make([]*tMsg, len(names))
	for i, n := range names {
		out[i] = m.msgs[n]
	}
	return out
}

// protocJSONName is protoc's default json_name: underscores removed, the
// character after an underscore upper-cased.
func protocJSONName(s string) string {
	var sb strings.Builder
	up := false
	for _, r := range s {
		if r == '_' {
			up = true
			continue
		}
		if up && r >= 'a' && r <= 'z' {
			r = r - 'a' + 'A'
		}
		up = false
		sb.WriteRune(r)
	}
	return sb.String()
}

// ---- rendering the model as .proto text ---------------------------------------------------

func (f *tFile) render() string {
	var sb strings.Builder
	sb.WriteString("syntax = \"proto3\";\n\npackage " + f.Pkg + ";\n\n")
	for _, imp := range []string{"buf/validate/validate.proto", "google/protobuf/any.proto", "google/protobuf/timestamp.proto", "j5/ext/v1/annotations.proto", "j5/list/v1/annotations.proto", "j5/types/any/v1/any.proto", "j5/types/date/v1/date.proto", "j5/types/decimal/v1/decimal.proto"} {
		sb.WriteString("import \"" + imp + "\";\n")
	}
	sb.WriteString("\n")
	for _, e := range f.Enums {
		e.render(&sb, "")
	}
	for _, m := range f.Msgs {
		m.render(&sb, "")
	}
	return sb.String()
}

func (e *tEnum) render(sb *strings.Builder, ind string) {
	fmt.Fprintf(sb, "%senum %s {\n", ind, e.Name)
	for i, v := range e.Values {
		fmt.Fprintf(sb, "%s  %s%s = %d;\n", ind, e.Prefix, v, e.number(i))
	}
	fmt.Fprintf(sb, "%s}\n\n", ind)
}

func (f *tField) typeText() string {
	t := protoTypeOf(f.Kind)
	if f.Kind == kEnum || f.Kind == kObject || f.Kind == kOneof {
		t = "." + f.Ref
	}
	return t
}

func (f *tField) renderLine(sb *strings.Builder, ind string) {
	label := ""
	t := f.typeText()
	switch f.Card {
	case "optional":
		label = "optional "
	case "repeated":
		label = "repeated "
	case "map":
		t = "map<string, " + t + ">"
	}
	opts := append([]string{}, f.Options...)
	if f.Flatten {
		opts = append(opts, "(j5.ext.v1.field).message.flatten = true")
	}
	if f.Kind == kKey {
		if f.Card == "" || f.Card == "optional" {
			opts = append(opts, "(j5.ext.v1.field).key = {}")
		}
	}
	o := ""
	if len(opts) > 0 {
		o = " [" + strings.Join(opts, ", ") + "]"
	}
	fmt.Fprintf(sb, "%s%s%s %s = %d%s;\n", ind, label, t, f.Name, f.Num, o)
}

func (m *tMsg) render(sb *strings.Builder, ind string) {
	fmt.Fprintf(sb, "%smessage %s {\n", ind, m.Name)
	in := ind + "  "
	if m.Wrapper {
		switch m.WrapperDecl {
		case "legacy":
			fmt.Fprintf(sb, "%soption (j5.ext.v1.message).is_oneof_wrapper = true;\n", in)
		case "typed":
			fmt.Fprintf(sb, "%soption (j5.ext.v1.message).oneof = {};\n", in)
		}
	} else if m.ObjectOpt {
		fmt.Fprintf(sb, "%soption (j5.ext.v1.message).object = {};\n", in)
	}
	for _, e := range m.Enums {
		e.render(sb, in)
	}
	for _, n := range m.Nested {
		n.render(sb, in)
	}
	done := map[string]bool{}
	for _, f := range m.Fields {
		if f.Group == "" {
			f.renderLine(sb, in)
			continue
		}
		if done[f.Group] {
			continue
		}
		done[f.Group] = true
		fmt.Fprintf(sb, "%soneof %s {\n", in, f.Group)
		for _, g := range m.Groups {
			if g.Name == f.Group && g.Exposed {
				fmt.Fprintf(sb, "%s  option (j5.ext.v1.oneof).expose = true;\n", in)
			}
		}
		for _, f2 := range m.Fields {
			if f2.Group == f.Group {
				f2.renderLine(sb, in+"  ")
			}
		}
		fmt.Fprintf(sb, "%s}\n", in)
	}
	fmt.Fprintf(sb, "%s}\n\n", ind)
}

// ---- compiling text to linked descriptors -------------------------------------------------------

type emptyResolver struct{}

func (emptyResolver) FindFileByPath(path string) (protocompile.SearchResult, error) {
	return protocompile.SearchResult{}, protoregistry.NotFound
}

type compiledTypes struct {
	Files    *protoregistry.Files
	Types    *dynamicpb.Types
	FileSet  []*descriptorpb.FileDescriptorProto
	Sources  map[string]string
	ownPaths map[string]bool
}

func (ct *compiledTypes) message(full string) protoreflect.MessageDescriptor {
	d, err := ct.Files.FindDescriptorByName(protoreflect.FullName(full))
	if err != nil {
		return nil
	}
	md, _ := d.(protoreflect.MessageDescriptor)
	return md
}

// compileProtoText compiles .proto sources through the repository's own
// protosrc (protocompile + builtin resolver), the path user-written protos take.
func compileProtoText(sources map[string]string) (*compiledTypes, error) {
	mfs := fstest.MapFS{}
	for p, s := range sources {
		mfs[p] = &fstest.MapFile{Data: []byte(s)}
	}
	img, err := protosrc.ReadFSImage(context.Background(), mfs, nil, emptyResolver{})
	if err != nil {
		return nil, err
	}
	return linkFileSet(img.File, sources)
}

func linkFileSet(fds []*descriptorpb.FileDescriptorProto, sources map[string]string) (*compiledTypes, error) {
	files, err := protodesc.NewFiles(&descriptorpb.FileDescriptorSet{File: fds})
	if err != nil {
		return nil, err
	}
	ct := &compiledTypes{Files: files, Types: dynamicpb.NewTypes(files), FileSet: fds, Sources: sources, ownPaths: map[string]bool{}}
	for p := range sources {
		ct.ownPaths[p] = true
	}
	return ct, nil
}

// ---- G-PROTO, J5 subset: random and systematic type models -------------------------------------------

type protoGen struct {
	rng  *rand.Rand
	pkg  string
	seq  int
	file *tFile
}

func (g *protoGen) uname(base string) string {
	g.seq++
	return fmt.Sprintf("%s_%d", base, g.seq)
}

func (g *protoGen) newEnum(name string, n int) *tEnum {
	vals := []string{"UNSPECIFIED"}
	words := []string{"ACTIVE", "INACTIVE", "PENDING", "VALUE_1", "X2", "LONG_OPTION_NAME"}
	for i := 0; i < n; i++ {
		vals = append(vals, words[i%len(words)])
	}
	prefix := strings.ToUpper(camelToSnake(name)) + "_"
	if g.rng != nil && g.rng.Intn(3) == 0 {
		// an option whose short name itself begins with the enum's prefix; half of the time what follows the
		// prefix is the name of an earlier option (ACTIVE and <PREFIX>_ACTIVE are then two options)
		if g.rng.Intn(2) == 0 && len(vals) > 1 {
			vals = append(vals, prefix+vals[1])
		} else {
			vals = append(vals, prefix+"AGAIN")
		}
	}
	e := &tEnum{Full: g.pkg + "." + name, Name: name, Prefix: prefix, Values: vals}
	if g.rng != nil && n >= 2 {
		switch g.rng.Intn(4) {
		case 0:
			// sparse numbering: 0, 2, 3, 10, 11 ...
			e.Numbers = []int32{0}
			next := int32(2)
			for i := 1; i < len(vals); i++ {
				e.Numbers = append(e.Numbers, next)
				if i%2 == 0 {
					next += 7
				} else {
					next++
				}
			}
		case 1:
			// declared out of numeric order
			e.Numbers = []int32{0}
			for i := 1; i < len(vals); i++ {
				e.Numbers = append(e.Numbers, int32(len(vals)-i))
			}
		}
	}
	return e
}

func camelToSnake(s string) string {
	var sb strings.Builder
	for i, r := range s {
		if r >= 'A' && r <= 'Z' {
			if i > 0 {
				sb.WriteByte('_')
			}
			sb.WriteRune(r - 'A' + 'a')
		} else {
			sb.WriteRune(r)
		}
	}
	return sb.String()
}

func (g *protoGen) field(base, kind, ref, card string) *tField {
	name := g.uname(base)
	return &tField{Name: name, JSON: protocJSONName(name), Kind: kind, Ref: ref, Card: card}
}

func (m *tMsg) number(rng *rand.Rand) {
	// non-sequential, unique numbers (1 and 2 are deliberately rare: map entries use them)
	used := map[int]bool{}
	n := 0
	for _, f := range m.Fields {
		for {
			if rng == nil {
				n++
			} else {
				n += 1 + rng.Intn(7)
			}
			if !used[n] && (n < 19000 || n > 19999) {
				break
			}
		}
		used[n] = true
		f.Num = n
	}
}

// sinkModel is the systematic type: every scalar format in every container
// position, enums/objects/oneofs in every container, both Any kinds, flatten,
// exposed oneof, wrapper oneofs declared in each of the three ways, recursion.
func sinkModel(pkg string) *tModel {
	g := &protoGen{pkg: pkg}
	f := &tFile{Path: strings.ReplaceAll(pkg, ".", "/") + "/sink.proto", Pkg: pkg}
	g.file = f
	en := g.newEnum("Color", 3)
	f.Enums = append(f.Enums, en)

	leaf := &tMsg{Full: pkg + ".Leaf", Name: "Leaf"}
	for _, k := range scalarKinds {
		leaf.Fields = append(leaf.Fields, g.field("l_"+k, k, "", ""))
	}
	leaf.Fields = append(leaf.Fields, g.field("l_enum", kEnum, en.Full, ""))
	leaf.number(nil)

	flat := &tMsg{Full: pkg + ".Flat", Name: "Flat"}
	for _, k := range scalarKinds {
		flat.Fields = append(flat.Fields, g.field("f_"+k, k, "", ""))
	}
	flat.Fields = append(flat.Fields, g.field("f_enum", kEnum, en.Full, ""), g.field("f_leaf", kObject, leaf.Full, ""), g.field("f_r_string", kString, "", "repeated"))
	// a flattened object inside the flattened object
	flatInner := &tMsg{Full: pkg + ".FlatInner", Name: "FlatInner", Fields: []*tField{g.field("fi_string", kString, "", ""), g.field("fi_int64", kInt64, "", ""), g.field("fi_leaf", kObject, leaf.Full, ""), g.field("fi_r_enum", kEnum, en.Full, "repeated")}}
	flatInner.number(nil)
	{
		fi := g.field("f_inner", kObject, flatInner.Full, "")
		fi.Flatten = true
		flat.Fields = append(flat.Fields, fi)
	}
	flat.number(nil)
	// an enum with gaps in its numbering, declared out of numeric order
	sparse := &tEnum{Full: pkg + ".Sparse", Name: "Sparse", Prefix: "SPARSE_", Values: []string{"UNSPECIFIED", "LOW", "MID", "HIGH", "TOP"}, Numbers: []int32{0, 2, 3, 10, 7}}
	f.Enums = append(f.Enums, sparse)
	// an enum whose values carry no prefix at all
	bare := &tEnum{Full: pkg + ".Bare", Name: "Bare", Prefix: "", Values: []string{"UNSPECIFIED", "ONE", "TWO"}}
	f.Enums = append(f.Enums, bare)

	wrapScalar := &tMsg{Full: pkg + ".ScalarChoice", Name: "ScalarChoice", Wrapper: true, WrapperDecl: "legacy", Groups: []tGroup{{Name: "type"}}}
	for _, k := range scalarKinds {
		fl := g.field("w_"+k, k, "", "")
		fl.Group = "type"
		wrapScalar.Fields = append(wrapScalar.Fields, fl)
	}
	{
		fl := g.field("w_enum", kEnum, en.Full, "")
		fl.Group = "type"
		wrapScalar.Fields = append(wrapScalar.Fields, fl)
		fl = g.field("w_leaf", kObject, leaf.Full, "")
		fl.Group = "type"
		wrapScalar.Fields = append(wrapScalar.Fields, fl)
	}
	wrapScalar.number(nil)

	// implicit wrapper: shape only, all arms are messages; arms are nested messages
	armA := &tMsg{Full: pkg + ".Choice.ArmA", Name: "ArmA", Fields: []*tField{g.field("a_name", kString, "", ""), g.field("a_count", kInt64, "", "")}}
	armA.number(nil)
	armB := &tMsg{Full: pkg + ".Choice.ArmB", Name: "ArmB"}
	choice := &tMsg{Full: pkg + ".Choice", Name: "Choice", Wrapper: true, WrapperDecl: "implicit", Groups: []tGroup{{Name: "type"}}, Nested: []*tMsg{armA, armB}}
	for _, spec := range [][2]string{{"arm_a", armA.Full}, {"arm_b", armB.Full}, {"arm_leaf", leaf.Full}} {
		fl := g.field(spec[0], kObject, spec[1], "")
		fl.Group = "type"
		choice.Fields = append(choice.Fields, fl)
	}
	choice.number(nil)

	typed := &tMsg{Full: pkg + ".TypedChoice", Name: "TypedChoice", Wrapper: true, WrapperDecl: "typed", Groups: []tGroup{{Name: "type"}}}
	for _, spec := range [][3]string{{"t_leaf", kObject, leaf.Full}, {"t_choice", kOneof, choice.Full}, {"t_self", kOneof, pkg + ".TypedChoice"}} {
		fl := g.field(spec[0], spec[1], spec[2], "")
		fl.Group = "type"
		typed.Fields = append(typed.Fields, fl)
	}
	typed.number(nil)

	sink := &tMsg{Full: pkg + ".Sink", Name: "Sink", Groups: []tGroup{{Name: "exposed", Exposed: true}, {Name: "plain"}}}
	for _, k := range scalarKinds {
		sink.Fields = append(sink.Fields, g.field("s_"+k, k, "", ""), g.field("o_"+k, k, "", "optional"), g.field("r_"+k, k, "", "repeated"), g.field("m_"+k, k, "", "map"))
	}
	for _, spec := range [][3]string{{"enum", kEnum, en.Full}, {"sparse", kEnum, sparse.Full}, {"bare", kEnum, bare.Full}, {"leaf", kObject, leaf.Full}, {"choice", kOneof, choice.Full}, {"scalar_choice", kOneof, wrapScalar.Full}, {"typed_choice", kOneof, typed.Full}} {
		sink.Fields = append(sink.Fields, g.field("s_"+spec[0], spec[1], spec[2], ""), g.field("o_"+spec[0], spec[1], spec[2], "optional"), g.field("r_"+spec[0], spec[1], spec[2], "repeated"), g.field("m_"+spec[0], spec[1], spec[2], "map"))
	}
	// the type that Flat flattens, first as an ordinary nested object
	sink.Fields = append(sink.Fields, g.field("plain_inner", kObject, flatInner.Full, ""))
	fl := g.field("flat", kObject, flat.Full, "")
	fl.Flatten = true
	sink.Fields = append(sink.Fields, fl)
	sink.Fields = append(sink.Fields, g.field("j5any", kJ5Any, "", ""), g.field("pbany", kPbAny, "", ""))
	sink.Fields = append(sink.Fields, g.field("child", kObject, sink.Full, ""), g.field("children", kObject, sink.Full, "repeated"), g.field("child_map", kObject, sink.Full, "map"))
	for _, k := range scalarKinds {
		x := g.field("x_"+k, k, "", "")
		x.Group = "exposed"
		sink.Fields = append(sink.Fields, x)
	}
	for _, spec := range [][3]string{{"x_enum", kEnum, en.Full}, {"x_leaf", kObject, leaf.Full}, {"x_choice", kOneof, choice.Full}} {
		x := g.field(spec[0], spec[1], spec[2], "")
		x.Group = "exposed"
		sink.Fields = append(sink.Fields, x)
	}
	for _, spec := range [][3]string{{"p_string", kString, ""}, {"p_leaf", kObject, leaf.Full}, {"p_int64", kInt64, ""}} {
		x := g.field(spec[0], spec[1], spec[2], "")
		x.Group = "plain"
		sink.Fields = append(sink.Fields, x)
	}
	sink.number(nil)

	f.Msgs = []*tMsg{leaf, flatInner, flat, wrapScalar, choice, typed, sink}
	m := &tModel{Files: []*tFile{f}}
	m.index()
	return m
}

// randomModel builds a random J5-subset file.
func randomModel(rng *rand.Rand, pkg string) *tModel {
	g := &protoGen{rng: rng, pkg: pkg}
	f := &tFile{Path: strings.ReplaceAll(pkg, ".", "/") + "/gen.proto", Pkg: pkg}
	g.file = f
	nEnums := 1 + rng.Intn(2)
	var enums []*tEnum
	for i := 0; i < nEnums; i++ {
		e := g.newEnum(fmt.Sprintf("Kind%c", 'A'+i), 1+rng.Intn(4))
		enums = append(enums, e)
		f.Enums = append(f.Enums, e)
	}
	var objects, wrappers []*tMsg
	nMsgs := 2 + rng.Intn(5)
	msgNames := []string{"Alpha", "Beta", "Gamma", "Delta", "Epsilon", "Zeta", "Eta"}
	// declare names first so that fields can reference later (and recursive) types
	type decl struct {
		m      *tMsg
		parent *tMsg
	}
	var decls []decl
	for i := 0; i < nMsgs; i++ {
		m := &tMsg{Name: msgNames[i], Full: pkg + "." + msgNames[i]}
		if rng.Intn(4) == 0 {
			m.Wrapper = true
			m.WrapperDecl = []string{"implicit", "legacy", "typed"}[rng.Intn(3)]
			m.Groups = []tGroup{{Name: "type"}}
			wrappers = append(wrappers, m)
		} else {
			m.ObjectOpt = rng.Intn(5) == 0
			objects = append(objects, m)
		}
		decls = append(decls, decl{m: m})
		f.Msgs = append(f.Msgs, m)
		// a nested message
		if rng.Intn(3) == 0 {
			n := &tMsg{Name: "Inner", Full: m.Full + ".Inner"}
			m.Nested = append(m.Nested, n)
			objects = append(objects, n)
			decls = append(decls, decl{m: n, parent: m})
			if rng.Intn(3) == 0 {
				ne := &tEnum{Name: "Mode", Full: m.Full + ".Mode", Prefix: "MODE_", Values: []string{"UNSPECIFIED", "ON", "OFF"}}
				m.Enums = append(m.Enums, ne)
				enums = append(enums, ne)
			}
		}
	}
	if len(objects) == 0 {
		m := &tMsg{Name: "Omega", Full: pkg + ".Omega"}
		objects = append(objects, m)
		decls = append(decls, decl{m: m})
		f.Msgs = append(f.Msgs, m)
	}
	pickRefKind := func(messageOnly bool) (string, string) {
		for {
			switch rng.Intn(6) {
			case 0, 1:
				o := objects[rng.Intn(len(objects))]
				return kObject, o.Full
			case 2:
				if len(wrappers) > 0 {
					w := wrappers[rng.Intn(len(wrappers))]
					return kOneof, w.Full
				}
			case 3:
				if !messageOnly {
					e := enums[rng.Intn(len(enums))]
					return kEnum, e.Full
				}
			default:
				if !messageOnly {
					return scalarKinds[rng.Intn(len(scalarKinds))], ""
				}
			}
		}
	}
	processed := map[string]bool{}
	for _, d := range decls {
		m := d.m
		processed[m.Full] = true
		nf := rng.Intn(8)
		if m.Wrapper {
			nf = 1 + rng.Intn(4)
			for i := 0; i < nf; i++ {
				kind, ref := pickRefKind(m.WrapperDecl == "implicit")
				fl := g.field("opt", kind, ref, "")
				fl.Group = "type"
				m.Fields = append(m.Fields, fl)
			}
			m.number(rng)
			continue
		}
		flattened := map[string]bool{}
		for i := 0; i < nf; i++ {
			kind, ref := pickRefKind(false)
			card := []string{"", "", "optional", "repeated", "map"}[rng.Intn(5)]
			fl := g.field("fld", kind, ref, card)
			if kind == kObject && card == "" && rng.Intn(4) == 0 && ref != m.Full && !flattened[ref] {
				// flatten only acyclic: the flattened type must not (transitively) flatten back; keep it simple: only
				// flatten types declared earlier that have no flattened fields themselves
				// (chains of flattened objects are allowed: the target may itself flatten earlier types; what must
				// not happen is one type reaching this message twice, which would duplicate its JSON names)
				target := findMsg(f, ref)
				if target != nil && processed[ref] {
					closure := flattenClosure(f, target)
					clash := false
					for t := range closure {
						if flattened[t] {
							clash = true
						}
					}
					if !clash {
						fl.Flatten = true
						for t := range closure {
							flattened[t] = true
						}
					}
				}
			}
			m.Fields = append(m.Fields, fl)
		}
		if rng.Intn(3) == 0 {
			kind := []string{kJ5Any, kPbAny}[rng.Intn(2)]
			m.Fields = append(m.Fields, g.field("any", kind, "", ""))
		}
		if rng.Intn(3) == 0 {
			gname := g.uname("pick")
			exposed := rng.Intn(3) > 0
			m.Groups = append(m.Groups, tGroup{Name: gname, Exposed: exposed})
			for i := 1 + rng.Intn(3); i > 0; i-- {
				kind, ref := pickRefKind(false)
				fl := g.field("alt", kind, ref, "")
				fl.Group = gname
				m.Fields = append(m.Fields, fl)
			}
		}
		m.number(rng)
	}
	mod := &tModel{Files: []*tFile{f}}
	mod.index()
	return mod
}

func findMsg(f *tFile, full string) *tMsg {
	var found *tMsg
	var walk func(ms []*tMsg)
	walk = func(ms []*tMsg) {
		for _, m := range ms {
			if m.Full == full {
				found = m
			}
			walk(m.Nested)
		}
	}
	walk(f.Msgs)
	return found
}

// flattenClosure: the type and every type it (transitively) flattens
func flattenClosure(f *tFile, m *tMsg) map[string]bool {
	out := map[string]bool{m.Full: true}
	for _, fl := range m.Fields {
		if fl.Flatten {
			if t := findMsg(f, fl.Ref); t != nil {
				for k := range flattenClosure(f, t) {
					out[k] = true
				}
			}
		}
	}
	return out
}

func hasFlatten(m *tMsg) bool {
	for _, f := range m.Fields {
		if f.Flatten {
			return true
		}
	}
	return false
}
