//go:build verif

package props

import (
	"fmt"
	"sort"
	"strconv"
	"strings"
	"unicode/utf8"
)

// A strict RFC 8259 tokenizer/parser written for the monitors. It keeps the
// number/string distinction (numbers are kept as their literal), member order
// and duplicate keys, rejects trailing bytes, illegal escapes, control
// characters inside strings, illegal number grammar and invalid UTF-8.

type jKind int

const (
	jNull jKind = iota
	jBool
	jNum
	jStr
	jArr
	jObj
)

func (k jKind) String() string {
	return [...]string{"null", "bool", "number", "string", "array", "object"}[k]
}

type jMember struct {
	Key string
	Val *jVal
}

type jVal struct {
	Kind jKind
	B    bool
	Num  string // literal
	Str  string
	Arr  []*jVal
	Obj  []jMember
	// Sem is set on reference trees only: how the observed value is compared.
	// "" literal equality; "f32"/"f64" bare number that parses back to the same
	// value; "ts" RFC 3339 string in UTC denoting the same instant; "dec" string
	// denoting the same decimal number.
	Sem string
}

func (v *jVal) get(key string) *jVal {
	for _, m := range v.Obj {
		if m.Key == key {
			return m.Val
		}
	}
	return nil
}

type jParser struct {
	s   []byte
	pos int
}

func parseStrictJSON(b []byte) (*jVal, error) {
	p := &jParser{s: b}
	p.ws()
	v, err := p.value(0)
	if err != nil {
		return nil, err
	}
	p.ws()
	if p.pos != len(p.s) {
		return nil, fmt.Errorf("trailing bytes at offset %d", p.pos)
	}
	return v, nil
}

func (p *jParser) ws() {
	for p.pos < len(p.s) {
		switch p.s[p.pos] {
		case ' ', '\t', '\n', '\r':
			p.pos++
		default:
			return
		}
	}
}

func (p *jParser) value(depth int) (*jVal, error) {
	if depth > 10000 {
		return nil, fmt.Errorf("nesting too deep")
	}
	if p.pos >= len(p.s) {
		return nil, fmt.Errorf("unexpected end of input")
	}
	switch c := p.s[p.pos]; {
	case c == '{':
		p.pos++
		v := &jVal{Kind: jObj}
		p.ws()
		if p.pos < len(p.s) && p.s[p.pos] == '}' {
			p.pos++
			return v, nil
		}
		seen := map[string]bool{}
		for {
			p.ws()
			if p.pos >= len(p.s) || p.s[p.pos] != '"' {
				return nil, fmt.Errorf("expected object key at offset %d", p.pos)
			}
			k, err := p.str()
			if err != nil {
				return nil, err
			}
			if seen[k] {
				return nil, fmt.Errorf("duplicate object key %q", k)
			}
			seen[k] = true
			p.ws()
			if p.pos >= len(p.s) || p.s[p.pos] != ':' {
				return nil, fmt.Errorf("expected ':' at offset %d", p.pos)
			}
			p.pos++
			p.ws()
			mv, err := p.value(depth + 1)
			if err != nil {
				return nil, err
			}
			v.Obj = append(v.Obj, jMember{k, mv})
			p.ws()
			if p.pos >= len(p.s) {
				return nil, fmt.Errorf("unterminated object")
			}
			if p.s[p.pos] == ',' {
				p.pos++
				continue
			}
			if p.s[p.pos] == '}' {
				p.pos++
				return v, nil
			}
			return nil, fmt.Errorf("expected ',' or '}' at offset %d", p.pos)
		}
	case c == '[':
		p.pos++
		v := &jVal{Kind: jArr, Arr: []*jVal{}}
		p.ws()
		if p.pos < len(p.s) && p.s[p.pos] == ']' {
			p.pos++
			return v, nil
		}
		for {
			p.ws()
			e, err := p.value(depth + 1)
			if err != nil {
				return nil, err
			}
			v.Arr = append(v.Arr, e)
			p.ws()
			if p.pos >= len(p.s) {
				return nil, fmt.Errorf("unterminated array")
			}
			if p.s[p.pos] == ',' {
				p.pos++
				continue
			}
			if p.s[p.pos] == ']' {
				p.pos++
				return v, nil
			}
			return nil, fmt.Errorf("expected ',' or ']' at offset %d", p.pos)
		}
	case c == '"':
		s, err := p.str()
		if err != nil {
			return nil, err
		}
		return &jVal{Kind: jStr, Str: s}, nil
	case c == 't':
		if strings.HasPrefix(string(p.s[p.pos:]), "true") {
			p.pos += 4
			return &jVal{Kind: jBool, B: true}, nil
		}
	case c == 'f':
		if strings.HasPrefix(string(p.s[p.pos:]), "false") {
			p.pos += 5
			return &jVal{Kind: jBool}, nil
		}
	case c == 'n':
		if strings.HasPrefix(string(p.s[p.pos:]), "null") {
			p.pos += 4
			return &jVal{Kind: jNull}, nil
		}
	case c == '-' || (c >= '0' && c <= '9'):
		return p.num()
	}
	return nil, fmt.Errorf("unexpected byte %q at offset %d", p.s[p.pos], p.pos)
}

func (p *jParser) num() (*jVal, error) {
	start := p.pos
	if p.s[p.pos] == '-' {
		p.pos++
	}
	if p.pos >= len(p.s) {
		return nil, fmt.Errorf("bad number")
	}
	if p.s[p.pos] == '0' {
		p.pos++
	} else if p.s[p.pos] >= '1' && p.s[p.pos] <= '9' {
		for p.pos < len(p.s) && p.s[p.pos] >= '0' && p.s[p.pos] <= '9' {
			p.pos++
		}
	} else {
		return nil, fmt.Errorf("bad number at offset %d", start)
	}
	if p.pos < len(p.s) && p.s[p.pos] == '.' {
		p.pos++
		n := 0
		for p.pos < len(p.s) && p.s[p.pos] >= '0' && p.s[p.pos] <= '9' {
			p.pos++
			n++
		}
		if n == 0 {
			return nil, fmt.Errorf("bad number fraction at offset %d", start)
		}
	}
	if p.pos < len(p.s) && (p.s[p.pos] == 'e' || p.s[p.pos] == 'E') {
		p.pos++
		if p.pos < len(p.s) && (p.s[p.pos] == '+' || p.s[p.pos] == '-') {
			p.pos++
		}
		n := 0
		for p.pos < len(p.s) && p.s[p.pos] >= '0' && p.s[p.pos] <= '9' {
			p.pos++
			n++
		}
		if n == 0 {
			return nil, fmt.Errorf("bad number exponent at offset %d", start)
		}
	}
	return &jVal{Kind: jNum, Num: string(p.s[start:p.pos])}, nil
}

func (p *jParser) str() (string, error) {
	start := p.pos
	p.pos++ // opening quote
	var sb strings.Builder
	for {
		if p.pos >= len(p.s) {
			return "", fmt.Errorf("unterminated string starting at offset %d", start)
		}
		c := p.s[p.pos]
		switch {
		case c == '"':
			p.pos++
			return sb.String(), nil
		case c < 0x20:
			return "", fmt.Errorf("raw control character 0x%02x in string at offset %d", c, p.pos)
		case c == '\\':
			p.pos++
			if p.pos >= len(p.s) {
				return "", fmt.Errorf("unterminated escape")
			}
			e := p.s[p.pos]
			p.pos++
			switch e {
			case '"', '\\', '/':
				sb.WriteByte(e)
			case 'b':
				sb.WriteByte('\b')
			case 'f':
				sb.WriteByte('\f')
			case 'n':
				sb.WriteByte('\n')
			case 'r':
				sb.WriteByte('\r')
			case 't':
				sb.WriteByte('\t')
			case 'u':
				r, err := p.hex4()
				if err != nil {
					return "", err
				}
				if r >= 0xD800 && r < 0xDC00 {
					// need a low surrogate
					if p.pos+1 < len(p.s) && p.s[p.pos] == '\\' && p.s[p.pos+1] == 'u' {
						p.pos += 2
						r2, err := p.hex4()
						if err != nil {
							return "", err
						}
						if r2 < 0xDC00 || r2 > 0xDFFF {
							return "", fmt.Errorf("unpaired surrogate escape")
						}
						r = 0x10000 + (r-0xD800)<<10 + (r2 - 0xDC00)
					} else {
						return "", fmt.Errorf("unpaired surrogate escape")
					}
				} else if r >= 0xDC00 && r <= 0xDFFF {
					return "", fmt.Errorf("unpaired low surrogate escape")
				}
				sb.WriteRune(r)
			default:
				return "", fmt.Errorf("illegal escape \\%c at offset %d", e, p.pos-1)
			}
		case c < 0x80:
			sb.WriteByte(c)
			p.pos++
		default:
			r, size := utf8.DecodeRune(p.s[p.pos:])
			if r == utf8.RuneError && size <= 1 {
				return "", fmt.Errorf("invalid UTF-8 in string at offset %d", p.pos)
			}
			sb.WriteRune(r)
			p.pos += size
		}
	}
}

func (p *jParser) hex4() (rune, error) {
	if p.pos+4 > len(p.s) {
		return 0, fmt.Errorf("short \\u escape")
	}
	v, err := strconv.ParseUint(string(p.s[p.pos:p.pos+4]), 16, 32)
	if err != nil {
		return 0, fmt.Errorf("bad \\u escape")
	}
	p.pos += 4
	return rune(v), nil
}

// ---- rendering (for G-JSON: the mutator works on trees and re-renders) -------------

func jEscape(s string) string {
	var sb strings.Builder
	sb.WriteByte('"')
	for _, r := range s {
		switch {
		case r == '"':
			sb.WriteString(`\"`)
		case r == '\\':
			sb.WriteString(`\\`)
		case r == '\n':
			sb.WriteString(`\n`)
		case r == '\r':
			sb.WriteString(`\r`)
		case r == '\t':
			sb.WriteString(`\t`)
		case r < 0x20:
			fmt.Fprintf(&sb, `\u%04x`, r)
		default:
			sb.WriteRune(r)
		}
	}
	sb.WriteByte('"')
	return sb.String()
}

// render writes the tree; ws is inserted around structural tokens when not empty.
func (v *jVal) render(sb *strings.Builder, ws string) {
	switch v.Kind {
	case jNull:
		sb.WriteString("null")
	case jBool:
		if v.B {
			sb.WriteString("true")
		} else {
			sb.WriteString("false")
		}
	case jNum:
		sb.WriteString(v.Num)
	case jStr:
		sb.WriteString(jEscape(v.Str))
	case jArr:
		sb.WriteString("[" + ws)
		for i, e := range v.Arr {
			if i > 0 {
				sb.WriteString(ws + "," + ws)
			}
			e.render(sb, ws)
		}
		sb.WriteString(ws + "]")
	case jObj:
		sb.WriteString("{" + ws)
		for i, m := range v.Obj {
			if i > 0 {
				sb.WriteString(ws + "," + ws)
			}
			sb.WriteString(jEscape(m.Key))
			sb.WriteString(ws + ":" + ws)
			m.Val.render(sb, ws)
		}
		sb.WriteString(ws + "}")
	}
}

func (v *jVal) String() string {
	var sb strings.Builder
	v.render(&sb, "")
	return sb.String()
}

func (v *jVal) clone() *jVal {
	if v == nil {
		return nil
	}
	c := *v
	if v.Arr != nil {
		c.Arr = make([]*jVal, len(v.Arr))
		for i, e := range v.Arr {
			c.Arr[i] = e.clone()
		}
	}
	if v.Obj != nil {
		c.Obj = make([]jMember, len(v.Obj))
		for i, m := range v.Obj {
			c.Obj[i] = jMember{m.Key, m.Val.clone()}
		}
	}
	return &c
}

// jDiff compares an observed tree against a reference tree. Member order is
// not judged. Numbers are compared with numEq (literal equality unless the
// reference marks the number as float, in which case parse-back equality).
func jDiff(path string, got, want *jVal, out *[]string) {
	if len(*out) > 8 {
		return
	}
	if got.Kind != want.Kind {
		*out = append(*out, fmt.Sprintf("%s\x00got %s %s, want %s %s", path, got.Kind, clipS(got.String(), 80), want.Kind, clipS(want.String(), 80)))
		return
	}
	switch got.Kind {
	case jBool:
		if got.B != want.B {
			*out = append(*out, fmt.Sprintf("%s\x00got bool %v, want %v", path, got.B, want.B))
		}
	case jStr:
		if got.Str != want.Str {
			switch want.Sem {
			case "ts":
				if semTimestampEq(got.Str, want.Str) {
					return
				}
			case "dec":
				if semDecimalEq(got.Str, want.Str) {
					return
				}
			}
			*out = append(*out, fmt.Sprintf("%s\x00got string %q, want %q", path, clipS(got.Str, 80), clipS(want.Str, 80)))
		}
	case jNum:
		if got.Num != want.Num {
			switch want.Sem {
			case "f64":
				g, e1 := strconv.ParseFloat(got.Num, 64)
				w, e2 := strconv.ParseFloat(want.Num, 64)
				if e1 == nil && e2 == nil && g == w {
					return
				}
			case "f32":
				g, e1 := strconv.ParseFloat(got.Num, 64)
				w, e2 := strconv.ParseFloat(want.Num, 32)
				if e1 == nil && e2 == nil && float32(g) == float32(w) {
					return
				}
			}
			*out = append(*out, fmt.Sprintf("%s\x00got number %s, want %s", path, got.Num, want.Num))
		}
	case jArr:
		if len(got.Arr) != len(want.Arr) {
			*out = append(*out, fmt.Sprintf("%s\x00got %d elements, want %d", path, len(got.Arr), len(want.Arr)))
			return
		}
		for i := range got.Arr {
			jDiff(fmt.Sprintf("%s[%d]", path, i), got.Arr[i], want.Arr[i], out)
		}
	case jObj:
		gk := map[string]*jVal{}
		for _, m := range got.Obj {
			gk[m.Key] = m.Val
		}
		wk := map[string]*jVal{}
		for _, m := range want.Obj {
			wk[m.Key] = m.Val
		}
		var keys []string
		for k := range gk {
			keys = append(keys, k)
		}
		for k := range wk {
			if _, ok := gk[k]; !ok {
				keys = append(keys, k)
			}
		}
		sort.Strings(keys)
		for _, k := range keys {
			g, okg := gk[k]
			w, okw := wk[k]
			switch {
			case okg && !okw:
				*out = append(*out, fmt.Sprintf("%s\x00unexpected member %q = %s", path, k, clipS(g.String(), 80)))
			case !okg && okw:
				*out = append(*out, fmt.Sprintf("%s\x00missing member %q (want %s)", path, k, clipS(w.String(), 80)))
			default:
				jDiff(path+"."+k, g, w, out)
			}
		}
	}
}

func clipS(s string, n int) string {
	if len(s) > n {
		return s[:n] + "…"
	}
	return s
}
