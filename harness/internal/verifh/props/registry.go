//go:build verif

package props

import "github.com/pentops/j5/internal/verifh/rt"

// Registry maps a property id to the function that enumerates and monitors its
// cases. Filled by init() functions of the per-property files.
var Registry = map[string]func(r *rt.Runner){}
