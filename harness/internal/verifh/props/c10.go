//go:build verif

package props

import (
	"fmt"
	"google.golang.org/protobuf/reflect/protodesc"
	"google.golang.org/protobuf/types/descriptorpb"
	"math/rand"
	"net/url"
	"os"
	"runtime"
	"sort"
	"strings"
	"sync"
	"sync/atomic"
	"time"

	"github.com/anishathalye/porcupine"
	"github.com/pentops/j5/gen/j5/client/v1/client_j5pb"
	"github.com/pentops/j5/gen/j5/schema/v1/schema_j5pb"
	"github.com/pentops/j5/gen/test/schema/v1/schema_testpb"
	"github.com/pentops/j5/internal/codec"
	"github.com/pentops/j5/internal/verifh/rt"
	"github.com/pentops/j5/lib/j5codec"
	"github.com/pentops/j5/lib/j5schema"
	"google.golang.org/protobuf/proto"
	"google.golang.org/protobuf/reflect/protoreflect"
	"google.golang.org/protobuf/types/dynamicpb"
)

func init() { Registry["C10"] = runC10 }

const exitWatchdog = 96

// c10Item is one (type, message) pair with the results of the three calls when
// made alone on a private codec.
type c10Item struct {
	name    string
	md      protoreflect.MessageDescriptor
	newMsg  func() protoreflect.Message
	msg     proto.Message
	json    []byte
	query   url.Values
	env     *codecEnv // set for modelled (dynamic) types: decoded messages are normalised before digesting
	encWant string    // digest of canonical JSON | "error: ..."
	decWant string    // digest of decoded message | "error: ..."
	qryWant string
	// fixedJSON: decode this document instead of the encoder's output (documents that fail at a known field);
	// exactErr: the error text is part of the expected result (it names the field)
	fixedJSON []byte
	exactErr  bool
}

func canonJSONDigest(b []byte) string {
	t, err := parseStrictJSON(b)
	if err != nil {
		return "notjson:" + fmt.Sprint(rt.HashBytes(b))
	}
	sortMembers(t)
	return fmt.Sprintf("%016x", rt.HashBytes(renderTree(t, "")))
}

func sortMembers(v *jVal) {
	switch v.Kind {
	case jObj:
		sort.SliceStable(v.Obj, func(i, j int) bool { return v.Obj[i].Key < v.Obj[j].Key })
		for _, m := range v.Obj {
			sortMembers(m.Val)
		}
	case jArr:
		for _, e := range v.Arr {
			sortMembers(e)
		}
	}
}

func msgDigest(env *codecEnv, m proto.Message) string {
	if env != nil {
		// Any payloads embed a non-deterministic serialisation (map order): compare content
		n, err := normMessage(env.model, m.ProtoReflect(), env.decodeAny)
		if err != nil {
			return "unnormalisable"
		}
		m = n.Interface()
	}
	b, err := proto.MarshalOptions{Deterministic: true}.Marshal(m)
	if err != nil {
		return "marshal-error"
	}
	return fmt.Sprintf("%016x", rt.HashBytes(b))
}

func errDigest(it *c10Item, err error) string {
	// error texts may mention map iteration dependent details; keep the class only
	if it.exactErr {
		return "error: " + err.Error()
	}
	return "error"
}

func c10Run(cd *j5codec.Codec, it *c10Item, op int) string {
	switch op {
	case 0:
		b, err := cd.ProtoToJSON(it.msg.ProtoReflect())
		if err != nil {
			return errDigest(it, err)
		}
		return canonJSONDigest(b)
	case 1:
		m := it.newMsg()
		if err := cd.JSONToProto(it.json, m); err != nil {
			return errDigest(it, err)
		}
		return msgDigest(it.env, m.Interface())
	default:
		m := it.newMsg()
		if err := cd.QueryToProto(it.query, m); err != nil {
			return errDigest(it, err)
		}
		return msgDigest(it.env, m.Interface())
	}
}

type c10Pool struct {
	items []*c10Item
	types *dynamicpb.Types
}

var c10PoolCache *c10Pool

// buildC10Pool: types that share sub-schemas (the sink family), self- and
// mutually-recursive types (Sink, TypedChoice, j5.schema.v1.Field,
// client API), disjoint types (query family), generated Go types and dynamicpb
// types.
func buildC10Pool() *c10Pool {
	if c10PoolCache != nil {
		return c10PoolCache
	}
	pool := &c10Pool{}
	sink := sinkEnv()
	qenv := queryEnv()
	rng := rand.New(rand.NewSource(7))
	addDyn := func(env *codecEnv, root string, n int) {
		for i := 0; i < n; i++ {
			g := env.gen(rng, i, nil)
			g.maxDepth = 1
			m := g.message(root, 0)
			md := env.ct.message(root)
			pool.items = append(pool.items, &c10Item{name: fmt.Sprintf("%s#%d", root, i), md: md, msg: m, env: env,
				newMsg: func() protoreflect.Message { return dynamicpb.NewMessage(md) }})
		}
	}
	for _, root := range sink.roots {
		addDyn(sink, root, 2)
	}
	for _, root := range qenv.roots {
		addDyn(qenv, root, 2)
	}
	addGo := func(name string, m proto.Message) {
		pool.items = append(pool.items, &c10Item{name: name, md: m.ProtoReflect().Descriptor(), msg: m,
			newMsg: func() protoreflect.Message { return m.ProtoReflect().New() }})
	}
	addGo("FullSchema", &schema_testpb.FullSchema{SString: "x", RString: []string{"a", "b"}, SInt64: 7, SBar: &schema_testpb.Bar{BarId: "b"}, Enum: schema_testpb.Enum_ENUM_VALUE1,
		WrappedOneof: &schema_testpb.WrappedOneof{Type: &schema_testpb.WrappedOneof_WOneofString{WOneofString: "w"}}})
	addGo("FullSchema-empty", &schema_testpb.FullSchema{})
	addGo("Bar", &schema_testpb.Bar{BarId: "id", BarField: "f"})
	addGo("schema.Field", &schema_j5pb.Field{Type: &schema_j5pb.Field_Array{Array: &schema_j5pb.ArrayField{Items: &schema_j5pb.Field{Type: &schema_j5pb.Field_String_{String_: &schema_j5pb.StringField{}}}}}})
	addGo("schema.RootSchema", &schema_j5pb.RootSchema{Type: &schema_j5pb.RootSchema_Object{Object: &schema_j5pb.Object{Name: "Foo", Properties: []*schema_j5pb.ObjectProperty{{Name: "a", Schema: &schema_j5pb.Field{Type: &schema_j5pb.Field_Bool{Bool: &schema_j5pb.BoolField{}}}}}}}})
	addGo("client.API", &client_j5pb.API{Packages: []*client_j5pb.Package{{Name: "p", Label: "l"}}})
	addGo("client.Package", &client_j5pb.Package{Name: "p"})

	// a proto-form Any that holds a message with a proto-form Any of its own (two and three levels)
	{
		sinkMD := sink.ct.message("verif.sink.v1.Sink")
		leafMD := sink.ct.message("verif.sink.v1.Leaf")
		anyIn := func(inner proto.Message, name string) protoreflect.Message {
			m := dynamicpb.NewMessage(sinkMD)
			fd := sinkMD.Fields().ByName(protoreflect.Name(fieldOfKind(sink.model.msg("verif.sink.v1.Sink"), kPbAny)))
			a := dynamicpb.NewMessage(fd.Message())
			b, err := proto.MarshalOptions{Deterministic: true}.Marshal(inner)
			if err != nil {
				panic("harness: " + err.Error())
			}
			a.Set(fd.Message().Fields().ByName("type_url"), protoreflect.ValueOfString("type.googleapis.com/"+name))
			a.Set(fd.Message().Fields().ByName("value"), protoreflect.ValueOfBytes(b))
			m.Set(fd, protoreflect.ValueOfMessage(a))
			return m
		}
		leaf := dynamicpb.NewMessage(leafMD)
		leaf.Set(leafMD.Fields().ByName(protoreflect.Name(fieldOfKind(sink.model.msg("verif.sink.v1.Leaf"), kString))), protoreflect.ValueOfString("deep"))
		l1 := anyIn(leaf, "verif.sink.v1.Leaf")
		l2 := anyIn(l1.Interface(), "verif.sink.v1.Sink")
		l3 := anyIn(l2.Interface(), "verif.sink.v1.Sink")
		for i, m := range []protoreflect.Message{l2, l3} {
			pool.items = append(pool.items, &c10Item{name: fmt.Sprintf("nested-any/%d", i+2), md: sinkMD, msg: m.Interface(), env: sink,
				newMsg: func() protoreflect.Message { return dynamicpb.NewMessage(sinkMD) }})
		}
	}
	// the same generated types once more through a second instance of their descriptors (a dynamic registry
	// loaded beside the generated code)
	{
		gen := (&schema_testpb.FullSchema{}).ProtoReflect().Descriptor().ParentFile()
		set := &descriptorpb.FileDescriptorSet{}
		seen := map[string]bool{}
		var add func(f protoreflect.FileDescriptor)
		add = func(f protoreflect.FileDescriptor) {
			if seen[f.Path()] {
				return
			}
			seen[f.Path()] = true
			for i := 0; i < f.Imports().Len(); i++ {
				add(f.Imports().Get(i).FileDescriptor)
			}
			set.File = append(set.File, protodesc.ToFileDescriptorProto(f))
		}
		add(gen)
		files, err := protodesc.NewFiles(set)
		if err != nil {
			panic("harness: reloading the test schema descriptors: " + err.Error())
		}
		for _, full := range []string{"test.schema.v1.FullSchema", "test.schema.v1.Bar"} {
			d, err := files.FindDescriptorByName(protoreflect.FullName(full))
			if err != nil {
				panic("harness: " + err.Error())
			}
			md := d.(protoreflect.MessageDescriptor)
			m := dynamicpb.NewMessage(md)
			if fd := md.Fields().ByName("s_string"); fd != nil {
				m.Set(fd, protoreflect.ValueOfString("second instance"))
			}
			if fd := md.Fields().ByName("bar_id"); fd != nil {
				m.Set(fd, protoreflect.ValueOfString("second instance"))
			}
			pool.items = append(pool.items, &c10Item{name: "second-descriptor-instance/" + full, md: md, msg: m, newMsg: func() protoreflect.Message { return dynamicpb.NewMessage(md) }})
		}
	}
	// types the schema reader rejects, used beside the accepted ones: a failing first use takes the same
	// path through the cache (placeholder, build, clean-up) as a succeeding one
	badSrc := map[string]string{
		"verif/bad/v1/bad.proto":  "syntax = \"proto3\";\npackage verif.bad.v1;\nimport \"j5/ext/v1/annotations.proto\";\nmessage BadMap { map<int32, string> m = 1; string s = 2; }\nmessage Fine { string s = 1; int64 n = 2; }\nmessage HoldsBad { BadMap bad = 1; Fine fine = 2; }\nmessage WithChoice { string label = 1; oneof pick { option (j5.ext.v1.oneof).expose = true; string s = 2; int64 n = 3; Fine fine = 4; } }\nmessage Pick { oneof kind { string text = 1; string code = 2; } }\nmessage PickAnnotated { Pick pick = 1 [(j5.ext.v1.field).oneof = {}]; string s = 2; }\nmessage PickPlain { Pick pick = 1; string s = 2; }\nmessage ChoiceThenBad { WithChoice choice = 1; repeated WithChoice more = 2; map<int32, string> m = 3; string s = 4; }\n",
		"verif/bad2/v1/use.proto": "syntax = \"proto3\";\npackage verif.bad2.v1;\nimport \"verif/bad/v1/bad.proto\";\nmessage UsesBad { verif.bad.v1.BadMap bad = 1; string s = 2; }\nmessage UsesFine { verif.bad.v1.Fine fine = 1; repeated verif.bad.v1.Fine more = 2; }\nmessage UsesHolder { verif.bad.v1.HoldsBad h = 1; }\n",
	}
	badCT, err := compileProtoText(badSrc)
	if err != nil {
		panic("harness: C10 rejected-type protos do not compile: " + err.Error())
	}
	for _, full := range []string{"verif.bad.v1.BadMap", "verif.bad.v1.Fine", "verif.bad.v1.HoldsBad", "verif.bad.v1.WithChoice", "verif.bad.v1.ChoiceThenBad", "verif.bad.v1.Pick", "verif.bad.v1.PickAnnotated", "verif.bad.v1.PickPlain", "verif.bad2.v1.UsesBad", "verif.bad2.v1.UsesFine", "verif.bad2.v1.UsesHolder"} {
		md := badCT.message(full)
		m := dynamicpb.NewMessage(md)
		if fd := md.Fields().ByName("s"); fd != nil {
			m.Set(fd, protoreflect.ValueOfString("x"))
		}
		if fd := md.Fields().ByName("pick"); fd != nil {
			pm := m.Mutable(fd).Message()
			pm.Set(pm.Descriptor().Fields().ByName("text"), protoreflect.ValueOfString("picked"))
		}
		if fd := md.Fields().ByName("text"); fd != nil {
			m.Set(fd, protoreflect.ValueOfString("picked"))
		}
		pool.items = append(pool.items, &c10Item{name: "rejected-family/" + full, md: md, msg: m, newMsg: func() protoreflect.Message { return dynamicpb.NewMessage(md) }})
	}

	// documents that are rejected at one particular field: the error names that field whatever else is being decoded
	{
		sinkMD := sink.ct.message("verif.sink.v1.Sink")
		// (JSON names of the modelled types carry counters)
		tm := sink.model.msg("verif.sink.v1.Sink")
		jn := func(name string) string {
			for _, f := range tm.Fields {
				if strings.TrimRight(f.Name, "0123456789") == name+"_" {
					return f.JSON
				}
			}
			for _, f := range tm.Fields {
				if f.Name == name {
					return f.JSON
				}
			}
			panic("harness: no field " + name + " in the sink")
		}
		j5, pb, child, kids := jn("j5any"), jn("pbany"), jn("child"), jn("children")
		for i, doc := range []string{`{"` + j5 + `":{"value":{}}}`, `{"` + pb + `":{"value":{}}}`, `{"` + j5 + `":{"!type":"verif.sink.v1.Leaf"}}`, `{"` + pb + `":{"!type":"verif.sink.v1.Leaf"}}`,
			`{"` + child + `":{"` + j5 + `":{"value":{}}}}`, `{"` + kids + `":[{},{"` + pb + `":{"value":{}}}]}`, `{"` + jn("s_int32") + `":"x"}`, `{"` + child + `":{"` + jn("s_int64") + `":"x"}}`, `{"zzNoSuchMember":1}`} {
			pool.items = append(pool.items, &c10Item{name: fmt.Sprintf("rejected-at-field/%d", i), md: sinkMD, msg: dynamicpb.NewMessage(sinkMD), fixedJSON: []byte(doc), exactErr: true,
				newMsg: func() protoreflect.Message { return dynamicpb.NewMessage(sinkMD) }})
		}
	}
	// expected results: each call made alone on a private codec
	priv := j5codec.NewCodec(j5codec.WithResolver(sink.ct.Types), j5codec.WithProtoToAny())
	for _, it := range pool.items {
		b, err := priv.ProtoToJSON(it.msg.ProtoReflect())
		if err != nil {
			it.json = []byte("{}")
		} else {
			it.json = b
		}
		if it.fixedJSON != nil {
			it.json = it.fixedJSON
		}
		it.query = url.Values{}
		if t, perr := parseStrictJSON(it.json); perr == nil {
			// only scalar top-level members: always well-defined as a query
			for _, mbr := range t.Obj {
				if s, ok := scalarText(mbr.Val); ok {
					it.query.Add(mbr.Key, s)
				}
			}
		}
		it.encWant = c10Run(priv, it, 0)
		it.decWant = c10Run(priv, it, 1)
		it.qryWant = c10Run(priv, it, 2)
	}
	pool.types = sink.ct.Types
	c10PoolCache = pool
	return pool
}

type c10Op struct {
	G      int
	Op     int // 0 enc 1 dec 2 query 3 schema-lookup
	Item   int
	Call   int64
	Return int64
	Out    string
}

type c10In struct {
	op   int
	item string // type name for schema lookups, item name otherwise
}

// c10Trial runs one trial and checks it. It returns the hash of the observed
// completion order of first-uses (for the "distinct interleavings" count).
func c10Trial(c *rt.C, pool *c10Pool, rng *rand.Rand, useGlobal bool, warm *j5codec.Codec, warmCache *j5schema.SchemaCache) {
	nG := []int{2, 3, 4, 8, 16, 32}[rng.Intn(6)]
	procs := []int{2, 4, 16}[rng.Intn(3)]
	runtime.GOMAXPROCS(procs)
	var cd *j5codec.Codec
	var cache *j5schema.SchemaCache
	mode := "fresh"
	switch {
	case useGlobal:
		cd = j5codec.Global
		mode = "global"
	case warm != nil:
		cd, cache = warm, warmCache
		mode = "warm"
	default:
		cache = j5schema.NewSchemaCache()
		cd = codec.VerifNewCodecWithCache(cache, j5codec.WithResolver(pool.types), j5codec.WithProtoToAny())
	}
	items := pool.items
	if useGlobal {
		// the package-level codec resolves Any through the global registry: generated Go types only
		items = nil
		for _, it := range pool.items {
			if _, dyn := it.msg.(*dynamicpb.Message); !dyn {
				items = append(items, it)
			}
		}
	}
	// a small subset per trial so that goroutines collide on the same types
	sub := make([]int, 0, 6)
	for len(sub) < 2+rng.Intn(5) {
		sub = append(sub, rng.Intn(len(items)))
	}
	perG := 4 + rng.Intn(12)
	plans := make([][]c10Op, nG)
	for g := range plans {
		for k := 0; k < perG; k++ {
			op := rng.Intn(4)
			if cache == nil && op == 3 {
				op = rng.Intn(3)
			}
			plans[g] = append(plans[g], c10Op{G: g, Op: op, Item: sub[rng.Intn(len(sub))]})
		}
	}
	yield := make([][]bool, nG)
	for g := range yield {
		yield[g] = make([]bool, perG)
		for k := range yield[g] {
			yield[g][k] = rng.Intn(3) == 0
		}
	}
	var start sync.WaitGroup
	start.Add(1)
	var wg sync.WaitGroup
	t0 := time.Now()
	var panicked atomic.Value
	for g := 0; g < nG; g++ {
		wg.Add(1)
		go func(g int) {
			defer wg.Done()
			defer func() {
				if p := recover(); p != nil {
					buf := make([]byte, 8192)
					n := runtime.Stack(buf, false)
					panicked.Store(fmt.Sprintf("%v\n%s", p, buf[:n]))
				}
			}()
			start.Wait()
			for k := range plans[g] {
				op := &plans[g][k]
				it := items[op.Item]
				if yield[g][k] {
					runtime.Gosched()
				}
				op.Call = int64(time.Since(t0))
				if op.Op == 3 {
					s, err := cache.Schema(it.md)
					if err != nil {
						op.Out = "error"
					} else {
						op.Out = fmt.Sprintf("%p", s)
					}
				} else {
					op.Out = c10Run(cd, it, op.Op)
				}
				op.Return = int64(time.Since(t0))
			}
		}(g)
	}
	done := make(chan struct{})
	go func() { wg.Wait(); close(done) }()
	start.Done()
	select {
	case <-done:
	case <-time.After(120 * time.Second):
		// stuck or merely slow? five more seconds in which the whole process uses next to no CPU mean that
		// every goroutine of the trial is blocked for good
		cpu0 := rt.ProcessCPU()
		select {
		case <-done:
			return
		case <-time.After(5 * time.Second):
		}
		if rt.ProcessCPU()-cpu0 < int64(250*time.Millisecond) {
			rt.Blocked(fmt.Sprintf("C10 trial (%s codec, %d goroutines): calls on the shared codec have not returned after 125s and the process is idle", mode, nG))
		}
		buf := make([]byte, 1<<20)
		n := runtime.Stack(buf, true)
		fmt.Fprintf(os.Stderr, "VERIF-WATCHDOG trial did not finish in 120s (inconclusive)\n%s\n", buf[:n])
		os.Exit(exitWatchdog)
	}
	c.Feature("c10:mode:"+mode, fmt.Sprintf("c10:goroutines:%d", nG), fmt.Sprintf("c10:gomaxprocs:%d", procs))
	if p := panicked.Load(); p != nil {
		c.Violate("goroutine-panic/"+firstRepoFrame(p.(string)), fmt.Sprintf("a call on the shared codec panicked under concurrency (%s codec, %d goroutines): %s", mode, nG, rt.Clip(p.(string), 600)), map[string]any{"stack": p})
	}
	// ---- monitor 3: every result equals the result of the same call made alone -------------------
	var all []c10Op
	calls := 0
	for g := range plans {
		for _, op := range plans[g] {
			all = append(all, op)
			calls++
			if op.Op == 3 {
				continue
			}
			it := items[op.Item]
			want := []string{it.encWant, it.decWant, it.qryWant}[op.Op]
			if op.Out != want {
				c.Violate(fmt.Sprintf("result-differs/%s", []string{"encode", "decode", "query"}[op.Op]), fmt.Sprintf("%s of %s on a shared %s codec returned %s under concurrency (%d goroutines), %s when run alone", []string{"ProtoToJSON", "JSONToProto", "QueryToProto"}[op.Op], it.name, mode, op.Out, nG, want),
					map[string]any{"item": it.name, "mode": mode, "goroutines": nG, "history": c10HistoryText(all, items)})
			}
		}
	}
	c.EventN("calls", int64(calls))
	// ---- monitor 4: porcupine over the recorded history ------------------------------------------------
	var ops []porcupine.Operation
	for _, op := range all {
		it := items[op.Item]
		in := c10In{op: op.Op, item: it.name}
		if op.Op == 3 {
			in.item = string(it.md.FullName())
		}
		ops = append(ops, porcupine.Operation{ClientId: op.G, Input: in, Call: op.Call, Output: op.Out, Return: op.Return})
	}
	want := map[c10In]string{}
	for _, it := range items {
		want[c10In{0, it.name}] = it.encWant
		want[c10In{1, it.name}] = it.decWant
		want[c10In{2, it.name}] = it.qryWant
	}
	rejectedAlone := map[string]bool{}
	for _, it := range items {
		if _, err := j5schema.NewSchemaCache().Schema(it.md); err != nil {
			rejectedAlone[string(it.md.FullName())] = true
		}
	}
	model := porcupine.Model{
		Partition: func(h []porcupine.Operation) [][]porcupine.Operation {
			m := map[c10In][]porcupine.Operation{}
			var keys []c10In
			for _, o := range h {
				k := o.Input.(c10In)
				if _, ok := m[k]; !ok {
					keys = append(keys, k)
				}
				m[k] = append(m[k], o)
			}
			out := make([][]porcupine.Operation, 0, len(keys))
			for _, k := range keys {
				out = append(out, m[k])
			}
			return out
		},
		Init: func() interface{} { return "" },
		Step: func(state, input, output interface{}) (bool, interface{}) {
			in := input.(c10In)
			out := output.(string)
			if in.op != 3 {
				// the codec as a pure function of (op, type, input)
				return out == want[in], state
			}
			// the schema cache as a write-once register per type name; a type which the reader rejects when
			// it is reflected alone must be rejected every time
			if rejectedAlone[in.item] {
				return out == "error", state
			}
			if out == "error" {
				return false, state
			}
			if state.(string) == "" {
				return true, out
			}
			return state.(string) == out, state
		},
	}
	res := porcupine.CheckOperationsTimeout(model, ops, 30*time.Second)
	switch res {
	case porcupine.Ok:
		c.Event("porcupine_ok")
	case porcupine.Illegal:
		c.Violate("history-not-linearizable", fmt.Sprintf("recorded history of %d calls by %d goroutines on a %s codec is not linearizable against the sequential model (codec = pure function, schema cache = write-once register per type)", len(ops), nG, mode), map[string]any{"history": c10HistoryText(all, items)})
	default:
		c.Event("porcupine_unknown")
	}
	// interleaving fingerprint: order of completion of each goroutine's calls
	sort.Slice(all, func(i, j int) bool { return all[i].Return < all[j].Return })
	var sb strings.Builder
	for _, op := range all {
		fmt.Fprintf(&sb, "%d.", op.G)
	}
	overlap := 0
	for i := 1; i < len(all); i++ {
		if all[i].Call < all[i-1].Return && all[i].G != all[i-1].G {
			overlap++
		}
	}
	c.EventN("overlapping_call_pairs", int64(overlap))
	c.Eval(rt.Hash(mode, fmt.Sprint(nG), sb.String()), overlap > 0)
	if c.WantSample() && overlap > 0 {
		c.Sample(map[string]any{"mode": mode, "goroutines": nG, "gomaxprocs": procs, "calls": len(all), "overlapping_pairs": overlap, "history_head": rt.Clip(c10HistoryText(all, items), 700)})
	}
}

func firstRepoFrame(stack string) string {
	for _, l := range strings.Split(stack, "\n") {
		l = strings.TrimSpace(l)
		if strings.HasPrefix(l, "github.com/pentops/j5/") && !strings.Contains(l, "/internal/verifh/") {
			if i := strings.LastIndex(l, "("); i > 0 {
				l = l[:i]
			}
			l = strings.TrimPrefix(l, "github.com/pentops/j5/")
			l = strings.ReplaceAll(strings.ReplaceAll(l, "(*", ""), ")", "")
			return l
		}
	}
	return "unknown"
}

func c10HistoryText(all []c10Op, items []*c10Item) string {
	var sb strings.Builder
	for _, op := range all {
		fmt.Fprintf(&sb, "g%d %s %s [%d,%d] -> %s\n", op.G, []string{"enc", "dec", "qry", "schema"}[op.Op], items[op.Item].name, op.Call, op.Return, op.Out)
	}
	return sb.String()
}

// fieldOfKind: name of the first singular field of that kind (model field names carry a counter)
func fieldOfKind(m *tMsg, kind string) string {
	for _, f := range m.Fields {
		if f.Kind == kind && f.Card == "" && f.Group == "" {
			return f.Name
		}
	}
	panic("harness: no field of kind " + kind + " in " + m.Full)
}

func runC10(r *rt.Runner) {
	// the very first use of the package-level codec in this process happens concurrently
	r.DoAll("global/first-use", func(c *rt.C) {
		c.Input([]byte("building the C10 pool: every call once alone on a private codec"))
		c.Budget(40_000_000) // generous CPU allowance; what matters here is the blocked-for-good detection
		pool := buildC10Pool()
		c.EndBudget()
		c10Trial(c, pool, c.Rand(), true, nil, nil)
		for i := 0; i < 5; i++ {
			c10Trial(c, pool, c.Rand(), true, nil, nil)
		}
	})
	// state that grows with use: many distinct query keys, type names and map keys pass through a shared codec from
	// several goroutines; afterwards it must still answer ordinary calls, and answer them as it did alone
	r.Do("churn/query-keys", func(c *rt.C) {
		c.Input([]byte("churn: 8 goroutines x 400 distinct query keys on one codec"))
		c.Budget(40_000_000)
		pool := buildC10Pool()
		cd := j5codec.NewCodec(j5codec.WithResolver(pool.types), j5codec.WithProtoToAny())
		var item *c10Item
		for _, it := range pool.items {
			if it.name == "FullSchema" {
				item = it
			}
		}
		var wg sync.WaitGroup
		var calls atomic.Int64
		for g := 0; g < 8; g++ {
			wg.Add(1)
			go func(g int) {
				defer wg.Done()
				for i := 0; i < 400; i++ {
					q := url.Values{}
					q.Set(fmt.Sprintf("unknownKey%dx%d", g, i), "1")
					q.Set(fmt.Sprintf("sBar.nested%dx%d", g, i), "v")
					m := item.newMsg()
					_ = cd.QueryToProto(q, m)
					calls.Add(1)
					if i%50 == 0 {
						_ = c10Run(cd, item, 2)
					}
				}
			}(g)
		}
		done := make(chan struct{})
		go func() { wg.Wait(); close(done) }()
		select {
		case <-done:
		case <-time.After(120 * time.Second):
			cpu0 := rt.ProcessCPU()
			select {
			case <-done:
			case <-time.After(5 * time.Second):
				if rt.ProcessCPU()-cpu0 < int64(250*time.Millisecond) {
					rt.Blocked(fmt.Sprintf("query-key churn: %d calls returned, the rest have not after 125s and the process is idle", calls.Load()))
				}
				fmt.Fprintf(os.Stderr, "VERIF-WATCHDOG churn did not finish in 125s (inconclusive)\n")
				os.Exit(exitWatchdog)
			}
		}
		c.EndBudget()
		c.Eval(rt.Hash("churn/query-keys"), true)
		c.EventN("calls", calls.Load())
		for op := 0; op < 3; op++ {
			want := []string{item.encWant, item.decWant, item.qryWant}[op]
			if got := c10Run(cd, item, op); got != want {
				c.Violate("result-differs/after-churn", fmt.Sprintf("after 3200 query calls with distinct keys the shared codec answers %s of FullSchema with %s, alone it is %s", []string{"encode", "decode", "query"}[op], got, want), nil)
			}
		}
		c.Feature("c10:churn")
	})
	// the error path under contention: many goroutines decode documents that are rejected at different fields for the
	// same reason; each error must name the field of its own document
	r.Do("contention/rejected-at-field", func(c *rt.C) {
		c.Input([]byte("contention: 16 goroutines x 300 rejected documents on one codec"))
		c.Budget(40_000_000)
		pool := buildC10Pool()
		cd := j5codec.NewCodec(j5codec.WithResolver(pool.types), j5codec.WithProtoToAny())
		var items []*c10Item
		for _, it := range pool.items {
			if it.exactErr {
				items = append(items, it)
			}
		}
		if r.Arg("show", "") == "contention" {
			for _, it := range items {
				fmt.Printf("SHOW %s %s -> %s\n", it.name, it.json, it.decWant)
			}
		}
		var wg sync.WaitGroup
		var calls atomic.Int64
		var mu sync.Mutex
		wrong := map[string]string{}
		for g := 0; g < 16; g++ {
			wg.Add(1)
			go func(g int) {
				defer wg.Done()
				for i := 0; i < 300; i++ {
					it := items[(g+i)%len(items)]
					got := c10Run(cd, it, 1)
					calls.Add(1)
					if got != it.decWant {
						mu.Lock()
						wrong[it.name+" "+string(it.json)] = fmt.Sprintf("alone: %s; under contention: %s", it.decWant, got)
						mu.Unlock()
					}
				}
			}(g)
		}
		wg.Wait()
		c.EndBudget()
		c.Eval(rt.Hash("contention/rejected-at-field"), true)
		c.EventN("calls", calls.Load())
		for _, k := range rt.SortedKeys(wrong) {
			c.Violate("result-differs/decode-error-under-contention", fmt.Sprintf("decoding %s on a shared codec beside other rejected documents: %s", k, wrong[k]), nil)
			break
		}
		c.Feature("c10:contention-errors")
	})
	nb := r.Scale(200, 6000)
	for b := 0; b < nb; b++ {
		r.Do(fmt.Sprintf("trials/%d", b), func(c *rt.C) {
			c.Input([]byte("building the C10 pool: every call once alone on a private codec"))
			c.Budget(40_000_000)
			pool := buildC10Pool()
			c.EndBudget()
			rng := c.Rand()
			var warm *j5codec.Codec
			var warmCache *j5schema.SchemaCache
			for i := 0; i < 8; i++ {
				if i == 4 {
					// the second half re-uses one codec: warm cache
					warmCache = j5schema.NewSchemaCache()
					warm = codec.VerifNewCodecWithCache(warmCache, j5codec.WithResolver(pool.types), j5codec.WithProtoToAny())
				}
				c10Trial(c, pool, rng, false, warm, warmCache)
			}
		})
	}
}
