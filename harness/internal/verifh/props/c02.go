//go:build verif

package props

import (
	"fmt"
	"sort"
	"strings"

	"github.com/pentops/j5/gen/j5/messaging/v1/messaging_j5pb"
	"github.com/pentops/j5/internal/verifh/rt"
	"google.golang.org/genproto/googleapis/api/annotations"
	"google.golang.org/protobuf/proto"
	"google.golang.org/protobuf/types/descriptorpb"
)

func init() { Registry["C02"] = runC02 }

// ---- the expected protobuf contract, computed from the IR by harness code ---------------------

type xField struct {
	Name, JSON string
	Num        int32
	Type       string // TYPE_STRING ...
	TypeName   string // ".pkg.Name" for message / enum types
	Repeated   bool
	Proto3Opt  bool
	InOneof    bool
}

type xMsg struct {
	Name   string
	Fields []xField
	Nested []*xMsg
	Enums  []*xEnum
	// map entries are part of the contract of a map field
	MapEntry bool
}

type xEnum struct {
	Name   string
	Values []string // index = number
}

type xMethod struct {
	Name, In, Out    string
	Verb, Path, Body string
}

type xService struct {
	Name    string
	Methods []xMethod
	// topics
	IsTopic   bool
	TopicName string
	Role      string
}

type xFile struct {
	Name, Pkg string
	Needs     []string // imports that must be present (defining files of referenced types)
	Msgs      []*xMsg
	Enums     []*xEnum
	Services  []*xService
	// open: the file also contains generated elements this model does not describe (entities)
	Open bool
}

func lowerCamelToSnake(s string) string {
	var sb strings.Builder
	for i, r := range s {
		if r >= 'A' && r <= 'Z' {
			if i > 0 {
				sb.WriteByte('_')
			}
			sb.WriteRune(r - 'A' + 'a')
		} else {
			sb.WriteRune(r)
		}
	}
	return sb.String()
}

func upperFirst(s string) string {
	if s == "" {
		return s
	}
	return strings.ToUpper(s[:1]) + s[1:]
}

func screamingSnake(s string) string {
	return strings.ToUpper(lowerCamelToSnake(strings.ToLower(s[:1]) + s[1:]))
}

// protoc's name of a map entry message
func mapEntryName(snake string) string { return protocJSONNameUpper(snake) + "Entry" }

func protocJSONNameUpper(s string) string {
	j := protocJSONName(s)
	return upperFirst(j)
}

type xBuilder struct {
	bundle *jBundle
	// defining file (generated proto path) of every declared top-level type, by full name
	defFile map[string]string
}

func newXBuilder(b *jBundle) *xBuilder {
	xb := &xBuilder{bundle: b, defFile: map[string]string{}}
	for _, f := range b.Files {
		for _, e := range f.Elems {
			if e.Decl != nil {
				xb.defFile[f.Pkg+"."+e.Decl.Name] = f.Path + ".proto"
			}
		}
	}
	for p, src := range b.Protos {
		// hand-written protos of the bundle: message X { ... } at top level
		pkg := ""
		for _, line := range strings.Split(src, "\n") {
			line = strings.TrimSpace(line)
			if strings.HasPrefix(line, "package ") {
				pkg = strings.TrimSuffix(strings.TrimPrefix(line, "package "), ";")
			}
			if strings.HasPrefix(line, "message ") && pkg != "" {
				name := strings.Fields(line)[1]
				xb.defFile[pkg+"."+name] = p
			}
		}
	}
	return xb
}

var scalarProtoType = map[string]string{
	kString: "TYPE_STRING", kBool: "TYPE_BOOL", kBytes: "TYPE_BYTES", kKey: "TYPE_STRING",
	"integer:INT32": "TYPE_INT32", "integer:INT64": "TYPE_INT64", "integer:UINT32": "TYPE_UINT32", "integer:UINT64": "TYPE_UINT64",
	"float:FLOAT32": "TYPE_FLOAT", "float:FLOAT64": "TYPE_DOUBLE",
}

// elemType returns the proto type of a non-container type; inline types are
// added to parent (nested under the message that holds the field).
func (xb *xBuilder) elemType(t *jT, fieldName string, parent *xMsg, parentFull string, file *xFile) (typ, typeName string) {
	switch t.Kind {
	case "integer":
		return scalarProtoType["integer:"+t.IntFmt], ""
	case "float":
		return scalarProtoType["float:"+t.FloatFmt], ""
	case kTimestamp:
		file.need("google/protobuf/timestamp.proto")
		return "TYPE_MESSAGE", ".google.protobuf.Timestamp"
	case kDate:
		file.need("j5/types/date/v1/date.proto")
		return "TYPE_MESSAGE", ".j5.types.date.v1.Date"
	case kDecimal:
		file.need("j5/types/decimal/v1/decimal.proto")
		return "TYPE_MESSAGE", ".j5.types.decimal.v1.Decimal"
	case "any":
		file.need("j5/types/any/v1/any.proto")
		return "TYPE_MESSAGE", ".j5.types.any.v1.Any"
	case kObject, kOneof, kEnum:
		pt := "TYPE_MESSAGE"
		if t.Kind == kEnum {
			pt = "TYPE_ENUM"
		}
		if t.Inline == nil {
			if df, ok := xb.defFile[t.RefFull]; ok && df != file.Name {
				file.need(df)
			}
			return pt, "." + t.RefFull
		}
		name := t.InlineName
		if name == "" {
			name = upperFirst(fieldName)
		}
		full := parentFull + "." + name
		switch t.Kind {
		case kEnum:
			parent.Enums = append(parent.Enums, xEnumOf(name, t.Inline))
		case kObject:
			parent.Nested = append(parent.Nested, xb.message(name, full, t.Inline.Fields, false, file))
		case kOneof:
			parent.Nested = append(parent.Nested, xb.message(name, full, t.Inline.Fields, true, file))
		}
		return pt, "." + full
	}
	return scalarProtoType[t.Kind], ""
}

func (f *xFile) need(dep string) {
	for _, d := range f.Needs {
		if d == dep {
			return
		}
	}
	f.Needs = append(f.Needs, dep)
}

func xEnumOf(name string, d *jDecl) *xEnum {
	prefix := d.Prefix
	if prefix == "" {
		prefix = screamingSnake(name) + "_"
	}
	e := &xEnum{Name: name, Values: []string{prefix + "UNSPECIFIED"}}
	for _, o := range d.Options {
		if o == "UNSPECIFIED" && len(e.Values) == 1 {
			continue
		}
		e.Values = append(e.Values, prefix+o)
	}
	return e
}

// message builds the expected message for a list of properties. prepend: implicit leading fields.
func (xb *xBuilder) message(name, full string, fields []*jF, oneof bool, file *xFile, prepend ...xField) *xMsg {
	m := &xMsg{Name: name}
	m.Fields = append(m.Fields, prepend...)
	for _, f := range fields {
		num := int32(len(m.Fields) + 1)
		snake := lowerCamelToSnake(f.Name)
		xf := xField{Name: snake, JSON: f.Name, Num: num, Proto3Opt: f.Opt, InOneof: oneof}
		switch f.T.Kind {
		case "array":
			xf.Repeated = true
			xf.Type, xf.TypeName = xb.elemType(f.T.Item, f.Name, m, full, file)
		case "map":
			xf.Repeated = true
			entry := &xMsg{Name: mapEntryName(snake), MapEntry: true}
			vt, vtn := xb.elemType(f.T.Item, f.Name, m, full, file)
			entry.Fields = []xField{{Name: "key", JSON: "key", Num: 1, Type: "TYPE_STRING"}, {Name: "value", JSON: "value", Num: 2, Type: vt, TypeName: vtn}}
			m.Nested = append(m.Nested, entry)
			xf.Type, xf.TypeName = "TYPE_MESSAGE", "."+full+"."+entry.Name
		default:
			xf.Type, xf.TypeName = xb.elemType(f.T, f.Name, m, full, file)
		}
		m.Fields = append(m.Fields, xf)
	}
	return m
}

func httpPath(base, p string) string {
	full := p
	if base != "" {
		full = strings.TrimSuffix(base, "/") + "/" + strings.TrimPrefix(p, "/")
	}
	parts := strings.Split(full, "/")
	for i, part := range parts {
		if strings.HasPrefix(part, ":") {
			parts[i] = "{" + lowerCamelToSnake(part[1:]) + "}"
		}
	}
	return strings.Join(parts, "/")
}

func (xb *xBuilder) build() map[string]*xFile {
	out := map[string]*xFile{}
	get := func(name, pkg string) *xFile {
		if f, ok := out[name]; ok {
			return f
		}
		f := &xFile{Name: name, Pkg: pkg}
		out[name] = f
		return f
	}
	for _, jf := range xb.bundle.Files {
		main := get(jf.Path+".proto", jf.Pkg)
		dir := jf.Path[:strings.LastIndex(jf.Path, "/")]
		base := strings.TrimSuffix(jf.Path[strings.LastIndex(jf.Path, "/")+1:], ".j5s")
		for _, e := range jf.Elems {
			switch {
			case e.Decl != nil && e.Decl.Kind == kEnum:
				main.Enums = append(main.Enums, xEnumOf(e.Decl.Name, e.Decl))
			case e.Decl != nil:
				main.Msgs = append(main.Msgs, xb.message(e.Decl.Name, jf.Pkg+"."+e.Decl.Name, e.Decl.Fields, e.Decl.Kind == kOneof, main))
			case e.Service != nil:
				sf := get(fmt.Sprintf("%s/service/%s.p.j5s.proto", dir, base), jf.Pkg+".service")
				svc := &xService{Name: e.Service.Name + "Service"}
				for _, m := range e.Service.Methods {
					reqName := m.Name + "Request"
					sf.Msgs = append(sf.Msgs, xb.message(reqName, sf.Pkg+"."+reqName, m.Req, false, sf))
					xm := xMethod{Name: m.Name, In: "." + sf.Pkg + "." + reqName, Verb: m.HTTPMethod, Path: httpPath(e.Service.BasePath, m.Path)}
					if m.HasRes {
						resName := m.Name + "Response"
						sf.Msgs = append(sf.Msgs, xb.message(resName, sf.Pkg+"."+resName, m.Res, false, sf))
						xm.Out = "." + sf.Pkg + "." + resName
					} else {
						xm.Out = ".google.api.HttpBody"
					}
					if m.HTTPMethod != "GET" {
						xm.Body = "*"
					}
					svc.Methods = append(svc.Methods, xm)
				}
				sf.Services = append(sf.Services, svc)
			case e.Topic != nil:
				tf := get(fmt.Sprintf("%s/topic/%s.p.j5s.proto", dir, base), jf.Pkg+".topic")
				t := e.Topic
				topicName := lowerCamelToSnake(strings.ToLower(t.Name[:1]) + t.Name[1:])
				addTopic := func(svcName, role string, msgs []*jTopicMsg, defaultMethod string, prepend ...xField) {
					svc := &xService{Name: svcName, IsTopic: true, TopicName: topicName, Role: role}
					for _, m := range msgs {
						mname := m.Name
						if mname == "" {
							mname = defaultMethod
						}
						msgName := mname + "Message"
						tf.Msgs = append(tf.Msgs, xb.message(msgName, tf.Pkg+"."+msgName, m.Fields, false, tf, prepend...))
						svc.Methods = append(svc.Methods, xMethod{Name: mname, In: "." + tf.Pkg + "." + msgName, Out: ".google.protobuf.Empty"})
					}
					tf.Services = append(tf.Services, svc)
				}
				switch t.Type {
				case "publish":
					addTopic(t.Name+"Topic", "publish", t.Messages, t.Name)
				case "upsert":
					// README names the service <Name>UpsertTopic, the name is not part of C02's statement: matched by role
					addTopic("", "upsert", t.Messages, t.Name, xField{Name: "upsert", JSON: "upsert", Num: 1, Type: "TYPE_MESSAGE", TypeName: ".j5.messaging.v1.UpsertMetadata"})
				case "reqres":
					md := xField{Name: "request", JSON: "request", Num: 1, Type: "TYPE_MESSAGE", TypeName: ".j5.messaging.v1.RequestMetadata"}
					addTopic(t.Name+"RequestTopic", "request", []*jTopicMsg{t.Request}, t.Name+"Request", md)
					addTopic(t.Name+"ReplyTopic", "reply", []*jTopicMsg{t.Reply}, t.Name+"Reply", md)
				}
			case e.Entity != nil:
				main.Open = true
				if sf, ok := out[fmt.Sprintf("%s/service/%s.p.j5s.proto", dir, base)]; ok {
					sf.Open = true
				} else {
					get(fmt.Sprintf("%s/service/%s.p.j5s.proto", dir, base), jf.Pkg+".service").Open = true
				}
				get(fmt.Sprintf("%s/topic/%s.p.j5s.proto", dir, base), jf.Pkg+".topic").Open = true
			}
		}
	}
	return out
}

// ---- comparing the observed descriptors with the expected contract ------------------------------------------

type c02Diff struct{ kind, text string }

func cmpFields(path string, want []xField, got []*descriptorpb.FieldDescriptorProto, m *descriptorpb.DescriptorProto, out *[]c02Diff) {
	if len(want) != len(got) {
		var names []string
		for _, g := range got {
			names = append(names, g.GetName())
		}
		*out = append(*out, c02Diff{"field-count", fmt.Sprintf("%s: %d fields declared, %d generated (%v)", path, len(want), len(got), names)})
		return
	}
	for i, w := range want {
		g := got[i]
		p := path + "." + w.Name
		if g.GetName() != w.Name {
			*out = append(*out, c02Diff{"field-name", fmt.Sprintf("%s: field %d is named %q, declared %q", path, i+1, g.GetName(), w.Name)})
			continue
		}
		if g.GetJsonName() != w.JSON && !m.GetOptions().GetMapEntry() {
			*out = append(*out, c02Diff{"json-name", fmt.Sprintf("%s: JSON name %q, declared %q", p, g.GetJsonName(), w.JSON)})
		}
		if g.GetNumber() != w.Num {
			*out = append(*out, c02Diff{"field-number", fmt.Sprintf("%s: number %d, position in the declaration %d", p, g.GetNumber(), w.Num)})
		}
		if g.GetType().String() != w.Type {
			*out = append(*out, c02Diff{"field-type", fmt.Sprintf("%s: type %s, declared %s", p, g.GetType(), w.Type)})
		}
		if w.TypeName != "" && g.GetTypeName() != w.TypeName {
			*out = append(*out, c02Diff{"type-reference", fmt.Sprintf("%s: refers to %s, declared %s", p, g.GetTypeName(), w.TypeName)})
		}
		rep := g.GetLabel() == descriptorpb.FieldDescriptorProto_LABEL_REPEATED
		if rep != w.Repeated {
			*out = append(*out, c02Diff{"cardinality", fmt.Sprintf("%s: repeated=%v, declared %v", p, rep, w.Repeated)})
		}
		if g.GetProto3Optional() != w.Proto3Opt {
			*out = append(*out, c02Diff{"optionality", fmt.Sprintf("%s: proto3_optional=%v, declared optional=%v", p, g.GetProto3Optional(), w.Proto3Opt)})
		}
		inReal := false
		if g.OneofIndex != nil && !g.GetProto3Optional() {
			inReal = true
		}
		if inReal != w.InOneof {
			*out = append(*out, c02Diff{"oneof-membership", fmt.Sprintf("%s: member of a oneof=%v, declared %v", p, inReal, w.InOneof)})
		}
	}
}

func cmpEnum(path string, want *xEnum, got *descriptorpb.EnumDescriptorProto, out *[]c02Diff) {
	var names []string
	for _, v := range got.Value {
		names = append(names, fmt.Sprintf("%s=%d", v.GetName(), v.GetNumber()))
	}
	var wn []string
	for i, v := range want.Values {
		wn = append(wn, fmt.Sprintf("%s=%d", v, i))
	}
	if strings.Join(names, ",") != strings.Join(wn, ",") {
		*out = append(*out, c02Diff{"enum-values", fmt.Sprintf("%s: enum %s has values [%s], declared [%s]", path, want.Name, strings.Join(names, ", "), strings.Join(wn, ", "))})
	}
}

func cmpMsg(path string, want *xMsg, got *descriptorpb.DescriptorProto, out *[]c02Diff) {
	p := path + "." + want.Name
	cmpFields(p, want.Fields, got.Field, got, out)
	if got.GetOptions().GetMapEntry() != want.MapEntry {
		*out = append(*out, c02Diff{"map-entry", fmt.Sprintf("%s: map_entry=%v, expected %v", p, got.GetOptions().GetMapEntry(), want.MapEntry)})
	}
	gn := map[string]*descriptorpb.DescriptorProto{}
	for _, n := range got.NestedType {
		gn[n.GetName()] = n
	}
	wn := map[string]bool{}
	for _, n := range want.Nested {
		wn[n.Name] = true
		g, ok := gn[n.Name]
		if !ok {
			var have []string
			for k := range gn {
				have = append(have, k)
			}
			sort.Strings(have)
			*out = append(*out, c02Diff{"nesting", fmt.Sprintf("%s: nested type %s is missing (nested types generated: %v)", p, n.Name, have)})
			continue
		}
		cmpMsg(p, n, g, out)
	}
	for k := range gn {
		if !wn[k] {
			*out = append(*out, c02Diff{"nesting", fmt.Sprintf("%s: undeclared nested type %s", p, k)})
		}
	}
	ge := map[string]*descriptorpb.EnumDescriptorProto{}
	for _, e := range got.EnumType {
		ge[e.GetName()] = e
	}
	for _, e := range want.Enums {
		g, ok := ge[e.Name]
		if !ok {
			*out = append(*out, c02Diff{"nesting", fmt.Sprintf("%s: nested enum %s is missing", p, e.Name)})
			continue
		}
		cmpEnum(p, e, g, out)
	}
	if len(ge) != len(want.Enums) {
		*out = append(*out, c02Diff{"nesting", fmt.Sprintf("%s: %d nested enums generated, %d declared", p, len(ge), len(want.Enums))})
	}
}

func cmpFile(want *xFile, got *descriptorpb.FileDescriptorProto, out *[]c02Diff) {
	if got.GetPackage() != want.Pkg {
		*out = append(*out, c02Diff{"package", fmt.Sprintf("%s: package %q, expected %q", want.Name, got.GetPackage(), want.Pkg)})
	}
	for _, need := range want.Needs {
		found := false
		for _, d := range got.Dependency {
			if d == need {
				found = true
			}
		}
		if !found {
			*out = append(*out, c02Diff{"import", fmt.Sprintf("%s: does not import %s (imports %v)", want.Name, need, got.Dependency)})
		}
	}
	gm := map[string]*descriptorpb.DescriptorProto{}
	for _, m := range got.MessageType {
		gm[m.GetName()] = m
	}
	wm := map[string]bool{}
	for _, m := range want.Msgs {
		wm[m.Name] = true
		g, ok := gm[m.Name]
		if !ok {
			*out = append(*out, c02Diff{"missing-message", fmt.Sprintf("%s: message %s is missing", want.Name, m.Name)})
			continue
		}
		cmpMsg(want.Pkg, m, g, out)
	}
	if !want.Open {
		for k := range gm {
			if !wm[k] {
				*out = append(*out, c02Diff{"extra-message", fmt.Sprintf("%s: undeclared message %s", want.Name, k)})
			}
		}
	}
	ge := map[string]*descriptorpb.EnumDescriptorProto{}
	for _, e := range got.EnumType {
		ge[e.GetName()] = e
	}
	we := map[string]bool{}
	for _, e := range want.Enums {
		we[e.Name] = true
		g, ok := ge[e.Name]
		if !ok {
			*out = append(*out, c02Diff{"missing-enum", fmt.Sprintf("%s: enum %s is missing", want.Name, e.Name)})
			continue
		}
		cmpEnum(want.Pkg, e, g, out)
	}
	if !want.Open {
		for k := range ge {
			if !we[k] {
				*out = append(*out, c02Diff{"extra-enum", fmt.Sprintf("%s: undeclared enum %s", want.Name, k)})
			}
		}
	}
	// services and topics
	used := map[int]bool{}
	for _, ws := range want.Services {
		var gs *descriptorpb.ServiceDescriptorProto
		for i, s := range got.Service {
			if used[i] {
				continue
			}
			role, _ := topicRole(s)
			if (ws.Name != "" && s.GetName() == ws.Name) || (ws.Name == "" && ws.IsTopic && role == ws.Role) {
				gs = s
				used[i] = true
				break
			}
		}
		if gs == nil {
			var have []string
			for _, s := range got.Service {
				have = append(have, s.GetName())
			}
			*out = append(*out, c02Diff{"missing-service", fmt.Sprintf("%s: service %q (%s) is missing; services generated: %v", want.Name, ws.Name, ws.Role, have)})
			continue
		}
		if ws.IsTopic {
			role, topic := topicRole(gs)
			if role != ws.Role {
				*out = append(*out, c02Diff{"messaging-role", fmt.Sprintf("%s: service %s has messaging role %q, declared %q", want.Name, gs.GetName(), role, ws.Role)})
			}
			if topic != ws.TopicName {
				*out = append(*out, c02Diff{"topic-name", fmt.Sprintf("%s: service %s has topic name %q, expected %q", want.Name, gs.GetName(), topic, ws.TopicName)})
			}
		}
		if len(gs.Method) != len(ws.Methods) {
			*out = append(*out, c02Diff{"method-count", fmt.Sprintf("%s: service %s has %d methods, declared %d", want.Name, gs.GetName(), len(gs.Method), len(ws.Methods))})
			continue
		}
		for i, wmth := range ws.Methods {
			gmth := gs.Method[i]
			mp := want.Name + ": " + gs.GetName() + "." + wmth.Name
			if gmth.GetName() != wmth.Name {
				*out = append(*out, c02Diff{"method-name", fmt.Sprintf("%s: method %d is named %q", mp, i, gmth.GetName())})
				continue
			}
			if norm(gmth.GetInputType()) != wmth.In {
				*out = append(*out, c02Diff{"method-input", fmt.Sprintf("%s: input %s, expected %s", mp, gmth.GetInputType(), wmth.In)})
			}
			if norm(gmth.GetOutputType()) != wmth.Out {
				*out = append(*out, c02Diff{"method-output", fmt.Sprintf("%s: output %s, expected %s", mp, gmth.GetOutputType(), wmth.Out)})
			}
			if wmth.Verb != "" {
				verb, path, body := httpRuleOf(gmth)
				if verb != wmth.Verb {
					*out = append(*out, c02Diff{"http-verb", fmt.Sprintf("%s: HTTP verb %q, declared %q", mp, verb, wmth.Verb)})
				}
				if path != wmth.Path {
					*out = append(*out, c02Diff{"http-path", fmt.Sprintf("%s: HTTP path %q, expected %q", mp, path, wmth.Path)})
				}
				if body != wmth.Body {
					*out = append(*out, c02Diff{"http-body", fmt.Sprintf("%s: HTTP body %q, expected %q", mp, body, wmth.Body)})
				}
			}
		}
	}
	if !want.Open {
		for i, s := range got.Service {
			if !used[i] {
				*out = append(*out, c02Diff{"extra-service", fmt.Sprintf("%s: undeclared service %s", want.Name, s.GetName())})
			}
		}
	}
}

func norm(typeName string) string {
	if !strings.HasPrefix(typeName, ".") {
		return "." + typeName
	}
	return typeName
}

func httpRuleOf(m *descriptorpb.MethodDescriptorProto) (verb, path, body string) {
	if m.Options == nil || !proto.HasExtension(m.Options, annotations.E_Http) {
		return "", "", ""
	}
	h := proto.GetExtension(m.Options, annotations.E_Http).(*annotations.HttpRule)
	switch p := h.Pattern.(type) {
	case *annotations.HttpRule_Get:
		return "GET", p.Get, h.Body
	case *annotations.HttpRule_Post:
		return "POST", p.Post, h.Body
	case *annotations.HttpRule_Put:
		return "PUT", p.Put, h.Body
	case *annotations.HttpRule_Patch:
		return "PATCH", p.Patch, h.Body
	case *annotations.HttpRule_Delete:
		return "DELETE", p.Delete, h.Body
	}
	return "", "", h.Body
}

func topicRole(s *descriptorpb.ServiceDescriptorProto) (role, topic string) {
	if s.Options == nil || !proto.HasExtension(s.Options, messaging_j5pb.E_Service) {
		return "", ""
	}
	cfg := proto.GetExtension(s.Options, messaging_j5pb.E_Service).(*messaging_j5pb.ServiceConfig)
	topic = cfg.GetTopicName()
	switch cfg.Role.(type) {
	case *messaging_j5pb.ServiceConfig_Publish_:
		role = "publish"
	case *messaging_j5pb.ServiceConfig_Request_:
		role = "request"
	case *messaging_j5pb.ServiceConfig_Reply_:
		role = "reply"
	case *messaging_j5pb.ServiceConfig_Upsert_:
		role = "upsert"
	case *messaging_j5pb.ServiceConfig_Event_:
		role = "event"
	}
	return
}

// reparseProtos re-marshals descriptors so that extensions are typed (global registry).
func typedProtos(in []*descriptorpb.FileDescriptorProto) []*descriptorpb.FileDescriptorProto {
	out := make([]*descriptorpb.FileDescriptorProto, 0, len(in))
	for _, fd := range in {
		b, err := proto.Marshal(fd)
		if err != nil {
			out = append(out, fd)
			continue
		}
		n := &descriptorpb.FileDescriptorProto{}
		if err := proto.Unmarshal(b, n); err != nil {
			out = append(out, fd)
			continue
		}
		out = append(out, n)
	}
	return out
}

func c02Check(c *rt.C, b *jBundle, id, class string) {
	src := b.sources()
	want := newXBuilder(b).build()
	mb := newMemBundle(src)
	got := map[string]*descriptorpb.FileDescriptorProto{}
	for _, pkg := range mb.packages {
		var cp *compiledPackage
		var err error
		c.Input(bundleBytes(src))
		ok, _, _, _ := rt.Guard(func() { cp, err = compileBundlePackage(mb, pkg) })
		c.EndBudget()
		if !ok || err != nil {
			// no descriptors at all for a package written within the documented language: the declared
			// contract is not what the compiler delivered (C07 judges the same event as "not accepted")
			c.Event("bundle_does_not_compile")
			sig := "panic"
			if err != nil {
				sig = errSig(err)
			}
			d := srcDetail(src)
			d["id"] = id
			c.Violate("rejected/"+sig, fmt.Sprintf("%s: package %s of a valid bundle yields no descriptors: %v", id, pkg, err), d)
			return
		}
		for _, fd := range typedProtos(cp.Protos) {
			got[fd.GetName()] = fd
		}
	}
	nontrivial := len(src) > 1
	for _, f := range b.Files {
		for _, e := range f.Elems {
			if e.Decl != nil && len(e.Decl.Fields) >= 8 {
				nontrivial = true
			}
			if e.Decl != nil {
				for _, fl := range e.Decl.Fields {
					if fl.T.Inline != nil || fl.T.Ref != "" || (fl.T.Item != nil && (fl.T.Item.Inline != nil || fl.T.Item.Ref != "")) {
						nontrivial = true
					}
				}
			}
			if e.Service != nil || e.Topic != nil {
				nontrivial = true
			}
		}
	}
	c.Eval(rt.HashBytes(bundleBytes(src)), nontrivial)
	c.Feature("c02:" + class)
	var diffs []c02Diff
	names := make([]string, 0, len(want))
	for n := range want {
		names = append(names, n)
	}
	sort.Strings(names)
	for _, n := range names {
		wf := want[n]
		gf, ok := got[n]
		if !ok {
			if len(wf.Msgs)+len(wf.Enums)+len(wf.Services) == 0 {
				continue
			}
			var have []string
			for k := range got {
				have = append(have, k)
			}
			sort.Strings(have)
			diffs = append(diffs, c02Diff{"missing-file", fmt.Sprintf("expected output file %s is missing (generated: %v)", n, have)})
			continue
		}
		cmpFile(wf, gf, &diffs)
	}
	// every generated .j5s.proto must correspond to a source
	for n := range got {
		if strings.HasSuffix(n, ".j5s.proto") {
			if _, ok := want[n]; !ok {
				diffs = append(diffs, c02Diff{"extra-file", fmt.Sprintf("unexpected output file %s", n)})
			}
		}
	}
	seen := map[string]bool{}
	for _, d := range diffs {
		if seen[d.kind] {
			continue
		}
		seen[d.kind] = true
		det := srcDetail(src)
		det["id"] = id
		var all []string
		for _, x := range diffs {
			all = append(all, x.kind+": "+x.text)
		}
		det["differences"] = all
		sig := "contract/" + d.kind
		if class == "isolation" {
			sig += "/" + id
		}
		c.Violate(sig, fmt.Sprintf("compiled descriptors differ from the declared contract (%s): %s", id, d.text), det)
	}
	if c.WantSample() && nontrivial && len(diffs) == 0 {
		c.Sample(map[string]any{"id": id, "sources": src, "files_checked": names})
	}
}

// c02Naming: names whose case conversion is not a round trip (acronyms, digits, single letters). For these
// only what the statement fixes without reference to a snake_case convention is judged: the JSON name is the
// declared name and the number is the position; the same for path parameters' request fields.
func c02Naming(c *rt.C, names []string, id string) {
	var fields []*jF
	for i, n := range names {
		t := []*jT{tScalar(kString), tInt("INT64"), tScalar(kBool), tArr(tScalar(kString)), tMap(tInt("INT32"))}[i%5]
		fields = append(fields, fld(n, t))
	}
	b := elemsBundle(objDecl("Named", fields...), &jElem{Decl: &jDecl{Kind: kOneof, Name: "NamedChoice", Fields: []*jF{fld(names[0], &jT{Kind: kObject, Inline: &jDecl{Kind: kObject, Fields: []*jF{fld(names[len(names)-1], tScalar(kString))}}})}}})
	src := b.sources()
	det := srcDetail(src)
	det["id"] = id
	c.Feature("c02:naming-stress")
	cp, err := compileBundlePackage(newMemBundle(src), "iso.v1")
	if err != nil {
		c.Violate("rejected/"+errSig(err), fmt.Sprintf("%s: a package whose field names are legal lowerCamel identifiers yields no descriptors: %v", id, err), det)
		return
	}
	c.Eval(rt.Hash(id, string(bundleBytes(src))), true)
	for _, fd := range typedProtos(cp.Protos) {
		for _, m := range fd.MessageType {
			if m.GetName() != "Named" {
				continue
			}
			if len(m.Field) != len(names) {
				c.Violate("naming/field-count", fmt.Sprintf("%s: Named declares %d fields, %d compiled", id, len(names), len(m.Field)), det)
				return
			}
			for i, f := range m.Field {
				c.Event("stress_names_checked")
				if f.GetJsonName() != names[i] {
					c.Violate("naming/json-name", fmt.Sprintf("%s: field declared as %q has JSON name %q (proto name %q)", id, names[i], f.GetJsonName(), f.GetName()), det)
				}
				if int(f.GetNumber()) != i+1 {
					c.Violate("naming/number", fmt.Sprintf("%s: field %q at position %d has number %d", id, names[i], i+1, f.GetNumber()), det)
				}
			}
		}
	}
}

var c02StressNames = []string{"userID", "apiURLPrefix", "line2items", "vendorSKU", "x", "aB", "fooBAR", "v2Id", "isOK", "htmlBody2x", "a1b2", "iPhone", "eTag", "oAuth2Token", "utf8Text", "ipV4", "x509Cert", "sha256sum"}

func runC02(r *rt.Runner) {
	for i := 0; i < len(c02StressNames); i += 3 {
		i := i
		r.Do(fmt.Sprintf("naming/%d", i), func(c *rt.C) { c02Naming(c, c02StressNames[i:i+3], fmt.Sprintf("naming:%d", i)) })
	}
	r.Do("naming/all", func(c *rt.C) { c02Naming(c, c02StressNames, "naming:all") })
	for _, cell := range isolationMatrix() {
		cell := cell
		if cell.TotalityOnly {
			continue
		}
		r.Do("iso/"+cell.ID, func(c *rt.C) {
			c02Check(c, cell.Bundle, "iso:"+cell.ID, "isolation")
		})
	}
	for b := 0; b < r.Scale(1200, 30000); b++ {
		r.Do(fmt.Sprintf("bundle/%d", b), func(c *rt.C) {
			g := &j5Gen{rng: c.Rand()}
			c02Check(c, g.randomBundle(), fmt.Sprintf("random:%d", b), "random")
		})
	}
}
