//go:build verif

package props

import (
	"fmt"
	"github.com/pentops/j5/internal/bcl/genlsp"
	"os"
	"os/exec"
	"path/filepath"
	"sort"
	"strings"
	"unicode"
	"unicode/utf8"

	"github.com/pentops/j5/internal/bcl"
	"github.com/pentops/j5/internal/verifh/rt"
)

func init() {
	Registry["C09"] = func(r *rt.Runner) {
		runFmtProps(r, c09Check)
		// the formatter as users run it: `j5 j5s fmt --file F --write` (the repository's own command, built without
		// harness code) rewrites the file in place; what is in the file afterwards must be Fmt's output
		r.Do("cli-write", func(c *rt.C) { c09CLI(c) })
	}
	Registry["C19"] = func(r *rt.Runner) {
		// the same document with CRLF line ends (what an editor on another platform sends) is judged for C19 only:
		// edits and formatter must still agree
		runFmtProps(r, func(c *rt.C, x string, class string) {
			c19Check(c, x, class)
			if strings.Contains(x, "\n") && c.Rand().Intn(4) == 0 {
				c19Check(c, strings.ReplaceAll(x, "\n", "\r\n"), "crlf")
			}
		})
	}
}

func firstDiff(a, b string) string {
	n := len(a)
	if len(b) < n {
		n = len(b)
	}
	i := 0
	for i < n && a[i] == b[i] {
		i++
	}
	lo := i - 30
	if lo < 0 {
		lo = 0
	}
	ha, hb := i+40, i+40
	if ha > len(a) {
		ha = len(a)
	}
	if hb > len(b) {
		hb = len(b)
	}
	return fmt.Sprintf("at byte %d: %q vs %q", i, a[lo:ha], b[lo:hb])
}

// c09Features classifies what an accepted input contains, for the coverage floor.
func fmtFeatures(c *rt.C, x string, prefix string) {
	if strings.Contains(x, `\"`) || strings.Contains(x, `\\`) {
		c.Feature(prefix + ":string-escape")
	}
	if strings.Contains(x, "\\\n") {
		c.Feature(prefix + ":escaped-newline")
	}
	if strings.Contains(x, "é") || strings.Contains(x, "日") || strings.Contains(x, "😀") {
		c.Feature(prefix + ":non-ascii")
	}
	if strings.Contains(x, "/*") {
		c.Feature(prefix + ":block-comment")
	}
	if strings.Contains(x, "//") {
		c.Feature(prefix + ":line-comment-or-regex-slash")
	}
	if strings.Contains(x, "|") {
		c.Feature(prefix + ":description")
	}
	if strings.Contains(x, "[") {
		c.Feature(prefix + ":array")
	}
	if strings.Contains(x, "\n\n\n") {
		c.Feature(prefix + ":blank-lines")
	}
}

func c09Check(c *rt.C, x string, class string) {
	var tree *bcl.VerifFile
	var err error
	ok, _, _, _ := rt.Guard(func() { tree, err = bcl.VerifParseFile(x, true) })
	if !ok || err != nil || tree == nil {
		c.Event("not_accepted_by_parser")
		return // C09 quantifies over accepted inputs; totality is C11's subject
	}
	det := map[string]any{"input": x, "class": class}
	_, skelX := bcl.VerifTree(tree)
	nontrivial := skelX != ""
	c.Eval(rt.Hash(x), nontrivial)
	c.Feature("c09:accepted", "c09:class:"+class)
	fmtFeatures(c, x, "c09")
	c.Input([]byte(x))
	var y string
	ok, pv, fn, st := rt.Guard(func() { y, err = bcl.VerifFmt(x) })
	c.EndBudget()
	if !ok {
		det["stack"] = st
		c.Violate("fmt-panic/"+fn, fmt.Sprintf("Fmt panicked on accepted input %q: %v", rt.Clip(x, 300), pv), det)
		return
	}
	if err != nil {
		c.Violate("fmt/fails-on-accepted", fmt.Sprintf("Fmt fails on input the parser accepts %q: %v", rt.Clip(x, 300), err), det)
		return
	}
	det["formatted"] = y
	var tree2 *bcl.VerifFile
	ok, pv, fn, _ = rt.Guard(func() { tree2, err = bcl.VerifParseFile(y, true) })
	if !ok {
		c.Violate("reparse-panic/"+fn, fmt.Sprintf("parser panicked on formatter output %q: %v", rt.Clip(y, 300), pv), det)
		return
	}
	if err != nil || tree2 == nil {
		c.Violate("output/unparseable", fmt.Sprintf("formatter output is rejected by the parser: input %q -> output %q: %v", rt.Clip(x, 300), rt.Clip(y, 300), err), det)
		return
	}
	_, skelY := bcl.VerifTree(tree2)
	if skelX != skelY {
		c.Violate("output/meaning-differs", fmt.Sprintf("formatter changed the document: input %q -> output %q; trees differ %s", rt.Clip(x, 300), rt.Clip(y, 300), firstDiff(skelX, skelY)), det)
	}
	cx, okx := bcl.VerifComments(x)
	cy, oky := bcl.VerifComments(y)
	if okx && oky {
		if strings.Join(cx, "\x00") != strings.Join(cy, "\x00") {
			c.Violate("output/comments-differ", fmt.Sprintf("formatter changed the comments: input %q -> output %q; %q vs %q", rt.Clip(x, 300), rt.Clip(y, 300), cx, cy), det)
		}
		if len(cx) > 0 {
			c.Feature("c09:comments")
		}
	}
	var y2 string
	ok, pv, fn, _ = rt.Guard(func() { y2, err = bcl.VerifFmt(y) })
	if !ok {
		c.Violate("fmt2-panic/"+fn, fmt.Sprintf("Fmt panicked on its own output %q: %v", rt.Clip(y, 300), pv), det)
		return
	}
	if err != nil {
		c.Violate("idempotence/fails", fmt.Sprintf("Fmt fails on its own output %q: %v", rt.Clip(y, 300), err), det)
		return
	}
	if y2 != y {
		det["formatted_twice"] = y2
		c.Violate("idempotence/differs", fmt.Sprintf("formatting twice changes the text: input %q; %s", rt.Clip(x, 300), firstDiff(y, y2)), det)
	}
	if c.WantSample() && len(x) > 40 {
		c.Sample(map[string]any{"input": x, "formatted": y, "class": class})
	}
}

// applyLineEdits is the harness's own LSP-style applier: an edit replaces the
// text from the start of line From to the start of line To (clamped to the end
// of the document) with NewText; all edits refer to the original document.
func applyLineEdits(x string, edits []bcl.VerifFmtDiff) string {
	var starts []int
	starts = append(starts, 0)
	for i := 0; i < len(x); i++ {
		if x[i] == '\n' {
			starts = append(starts, i+1)
		}
	}
	off := func(line int) int {
		if line >= len(starts) {
			return len(x)
		}
		return starts[line]
	}
	out := x
	for i := len(edits) - 1; i >= 0; i-- {
		e := edits[i]
		out = out[:off(e.FromLine)] + e.NewText + out[off(e.ToLine):]
	}
	return out
}

func trimTrailingBlank(s string) string {
	// blank = made of characters the lexer skips as white space
	return strings.TrimRightFunc(s, unicode.IsSpace)
}

func c19Check(c *rt.C, x string, class string) {
	var y string
	var err error
	ok, _, _, _ := rt.Guard(func() { y, err = bcl.VerifFmt(x) })
	if !ok || err != nil {
		c.Event("not_accepted_by_formatter")
		return
	}
	c.Eval(rt.Hash(x), strings.TrimSpace(x) != "")
	c.Feature("c19:accepted", "c19:class:"+class)
	fmtFeatures(c, x, "c19")
	det := map[string]any{"input": x, "class": class, "formatted": y}
	var edits []bcl.VerifFmtDiff
	c.Input([]byte(x))
	ok, pv, fn, st := rt.Guard(func() { edits, err = bcl.VerifFmtDiffs(x) })
	c.EndBudget()
	if !ok {
		det["stack"] = st
		c.Violate("diffs-panic/"+fn, fmt.Sprintf("FmtDiffs panicked on input the formatter accepts %q: %v", rt.Clip(x, 300), pv), det)
		return
	}
	if err != nil {
		c.Violate("diffs/fails", fmt.Sprintf("FmtDiffs fails on input the formatter accepts %q: %v", rt.Clip(x, 300), err), det)
		return
	}
	nlines := strings.Count(x, "\n") + 1
	var es []string
	for _, e := range edits {
		es = append(es, fmt.Sprintf("{%d,%d,%q}", e.FromLine, e.ToLine, e.NewText))
	}
	det["edits"] = es
	wellFormed := true
	for i, e := range edits {
		if e.FromLine < 0 || e.FromLine > e.ToLine || e.ToLine > nlines {
			c.Violate("edits/range", fmt.Sprintf("edit %d of %q has range [%d,%d) outside 0 <= from <= to <= %d lines", i, rt.Clip(x, 300), e.FromLine, e.ToLine, nlines), det)
			wellFormed = false
		}
		if i > 0 {
			p := edits[i-1]
			if e.FromLine < p.FromLine {
				c.Violate("edits/order", fmt.Sprintf("edits %d and %d of %q are not in ascending order: [%d,%d) then [%d,%d)", i-1, i, rt.Clip(x, 300), p.FromLine, p.ToLine, e.FromLine, e.ToLine), det)
				wellFormed = false
			} else if e.FromLine < p.ToLine {
				c.Violate("edits/overlap", fmt.Sprintf("edits %d and %d of %q overlap: [%d,%d) then [%d,%d)", i-1, i, rt.Clip(x, 300), p.FromLine, p.ToLine, e.FromLine, e.ToLine), det)
				wellFormed = false
			}
		}
	}
	if len(edits) > 0 {
		c.Feature("c19:has-edits")
	}
	if len(edits) > 1 {
		c.Feature("c19:multi-edit")
	}
	if !wellFormed {
		return
	}
	got := applyLineEdits(x, edits)
	if trimTrailingBlank(got) != trimTrailingBlank(y) {
		det["applied"] = got
		c.Violate("edits/result-differs", fmt.Sprintf("applying the edits to %q does not give the formatter's output: %s", rt.Clip(x, 300), firstDiff(trimTrailingBlank(got), trimTrailingBlank(y))), det)
	}
	// the same edits as the language server hands them to an editor (LSP ranges, applied the way the protocol
	// says: a position past the last line means the end of the document)
	var lsp []genlsp.VerifTextEdit
	ok, pv, fn, st = rt.Guard(func() { lsp, err = genlsp.VerifFormat(x) })
	if !ok {
		det["stack"] = st
		c.Violate("lsp-panic/"+fn, fmt.Sprintf("the language server's formatter panicked on %q: %v", rt.Clip(x, 300), pv), det)
		return
	}
	if err != nil {
		c.Violate("lsp/fails", fmt.Sprintf("the language server's formatter fails on input the formatter accepts %q: %v", rt.Clip(x, 300), err), det)
		return
	}
	c.Event("lsp_edit_lists_applied")
	if gotLSP := applyLSPEdits(x, lsp); trimTrailingBlank(gotLSP) != trimTrailingBlank(y) {
		det["applied_lsp"] = gotLSP
		c.Violate("lsp-edits/result-differs", fmt.Sprintf("applying the language server's text edits to %q does not give the formatter's output: %s", rt.Clip(x, 300), firstDiff(trimTrailingBlank(gotLSP), trimTrailingBlank(y))), det)
	}
	if c.WantSample() && len(edits) > 1 {
		c.Sample(map[string]any{"input": x, "edits": es, "class": class})
	}
}

// applyLSPEdits applies text edits with LSP semantics: positions are (line, UTF-16 character); a line past the
// end of the document denotes its end; edits refer to the original document and do not overlap.
func applyLSPEdits(x string, edits []genlsp.VerifTextEdit) string {
	starts := []int{0}
	for i := 0; i < len(x); i++ {
		if x[i] == '\n' {
			starts = append(starts, i+1)
		}
	}
	off := func(line, char uint32) int {
		if int(line) >= len(starts) {
			return len(x)
		}
		o := starts[line]
		end := len(x)
		if int(line)+1 < len(starts) {
			end = starts[line+1] - 1
		}
		// characters are UTF-16 code units
		units := uint32(0)
		for o < end && units < char {
			r, size := utf8.DecodeRuneInString(x[o:])
			if r >= 0x10000 {
				units += 2
			} else {
				units++
			}
			o += size
		}
		return o
	}
	type span struct {
		from, to int
		text     string
	}
	var spans []span
	for _, e := range edits {
		spans = append(spans, span{off(e.StartLine, e.StartChar), off(e.EndLine, e.EndChar), e.NewText})
	}
	sort.SliceStable(spans, func(i, j int) bool { return spans[i].from < spans[j].from })
	out := x
	for i := len(spans) - 1; i >= 0; i-- {
		sp := spans[i]
		if sp.to < sp.from {
			sp.to = sp.from
		}
		out = out[:sp.from] + sp.text + out[sp.to:]
	}
	return out
}

func c09CLI(c *rt.C) {
	bin := os.Getenv("VERIF_J5_BIN")
	if bin == "" {
		c.Feature("c09:cli-not-built")
		return
	}
	dir, err := os.MkdirTemp("", "verif-c09-cli-")
	if err != nil {
		panic("harness: " + err.Error())
	}
	defer os.RemoveAll(dir)
	rng := c.Rand()
	inputs := []string{"a = 1\n", "a   =   1\n\n\n\nb = 2\n\n\n", "x {\n\n\n   a = 1\n\n\n}\n\n\n\n", "/* c */ a = 1 // d\n", "x {\n| words   here\n}\n", "a = [1 ,2 ,3 ]\n      b = \"s\"\n"}
	for i := 0; i < 40; i++ {
		x := genBCL(rng, true)
		// make most of them longer than their formatted form: blank lines and trailing spaces the formatter removes
		x = strings.ReplaceAll(x, "\n", " \n\n\n")
		inputs = append(inputs, x)
	}
	for i, x := range inputs {
		var want string
		ok, _, _, _ := rt.Guard(func() { want, err = bcl.VerifFmt(x) })
		if !ok || err != nil || strings.Contains(x, "\r") {
			continue
		}
		path := filepath.Join(dir, fmt.Sprintf("f%d.j5s", i))
		if err := os.WriteFile(path, []byte(x), 0o644); err != nil {
			panic("harness: " + err.Error())
		}
		c.Eval(rt.Hash("cli", x), true)
		cmd := exec.Command(bin, "j5s", "fmt", "--file", path, "--write")
		cmd.Dir = dir
		out, rerr := cmd.CombinedOutput()
		det := map[string]any{"input": x, "formatter_output": want, "cli_output": rt.Clip(string(out), 2000)}
		if rerr != nil {
			c.Violate("cli/fails", fmt.Sprintf("`j5 j5s fmt --write` fails on a file the formatter accepts: %v: %s", rerr, rt.Clip(string(out), 300)), det)
			continue
		}
		got, err := os.ReadFile(path)
		if err != nil {
			panic("harness: " + err.Error())
		}
		c.Event("cli_files_rewritten")
		if len(want) < len(x) {
			c.Feature("c09:cli-write-shrinks")
		}
		if string(got) != want {
			det["file_after"] = string(got)
			c.Violate("cli/file-differs", fmt.Sprintf("after `j5 j5s fmt --write` the file does not hold the formatter's output: %s", firstDiff(string(got), want)), det)
		}
	}
	c.Feature("c09:cli-write")
}

// runFmtProps drives C09 and C19 over the same space of inputs.
func runFmtProps(r *rt.Runner, checkAny func(c *rt.C, x string, class string)) {
	// C09/C19 quantify over CRLF-free text
	check := func(c *rt.C, x string, class string) {
		if strings.Contains(x, "\r") {
			c.Event("skipped_contains_CR")
			return
		}
		checkAny(c, x, class)
	}
	// --- systematic: every token kind in every grammatical position -----------------------
	r.Do("systematic", func(c *rt.C) {
		refs := []string{"a", "a.b", "true", "a.b.c2", "é"}
		values := []string{"b", "b.c", `"s"`, `""`, `"a b"`, `"é日😀"`, `"q\"q"`, `"b\\s"`, "\"n\\\nl\"", "\"tab\there\"", `"//"`, `"/*"`, `"|"`, `"{"`, `"%d"`,
			"/r/", "/a//b/", `/\d+/`, `/^[a-z]{2}$/`, "/ /", `/"/`, "1", "007", "2.5", "3.", "true", "false", "[]", "[1]", "[1,2]", "[a, \"b\", /c/]", "[[1],[2,[3]]]", "[ ]", "[1 ,2 ]",
			"// c", "/* c */", "| d"}
		ops := []string{"=", "+=", " = ", "  +=  ", "\t=\t"}
		trail := []string{"", " ", " // c", "// c", " //", "\t// c  "}
		for _, k := range refs {
			for _, v := range values {
				for _, op := range ops {
					for _, t := range trail {
						check(c, k+op+v+t+"\n", "systematic-assign")
					}
				}
			}
		}
		tags := []string{"", " n", " n.m", ` "s"`, " ! n", " ? n", " !n", ` ? "s"`, " n m", " true", ` n "s\"x" ! o.p`}
		quals := []string{"", ":q", ":q:r", ": q", ":q.r", `:"s"`, ":! q", " : q : r.s"}
		ends := []string{"", " {\n}", "{\n}", " { // c\n}", " | d", " | d d  d", " // c", " {\n\ta = 1\n}", " {\n| d\n| e\n\n}", " {\n} // c", " {\n\tx {\n\t}\n}", " {\n}\n\n\nz"}
		for _, k := range refs {
			for _, tg := range tags {
				for _, q := range quals {
					for _, e := range ends {
						check(c, k+tg+q+e+"\n", "systematic-block")
						check(c, "  "+k+tg+q+e, "systematic-block")
					}
				}
			}
		}
		descs := []string{"| a", "|a", "|", "| a\n| b", "| a\n|\n| b", "| a\n|\n|\n| b", "|\n| a", "| a\n|", "|  a   b  ", "| " + strings.Repeat("word ", 30), "| a\n\n| b", "\t| a\n  | b",
			"| see " + strings.Repeat("x", 76) + " for details", "| see " + strings.Repeat("x", 80) + " for more details and then some", "| before " + strings.Repeat("y", 120) + " after\n| next line",
			"| " + strings.Repeat("z", 90), "| a b c d e f g h i j k l m n o p q r s t u v w x y z a b c d e f g h i j k l m n " + strings.Repeat("w", 70) + " tail words here"}
		for _, d := range descs {
			check(c, d+"\n", "systematic-description")
			check(c, "x {\n"+d+"\n}\n", "systematic-description")
			check(c, "x {\n\ty {\n"+d+"\n\t}\n}\n", "systematic-description")
		}
		comments := []string{"// c", "//c", "//", "// c  ", "/* c */", "/**/", "/* a\nb */", "/* a\n\n  b\n*/", "/* c */ // d", "// a\n// b", "/* c */ a = 1", "/* c */ x {\n}"}
		for _, m := range comments {
			check(c, m+"\n", "systematic-comment")
			check(c, "x {\n"+m+"\n}\n", "systematic-comment")
			check(c, "a = 1\n"+m+"\nb = 2\n", "systematic-comment")
			check(c, "\n\n"+m+"\n\n\n", "systematic-comment")
		}
		layouts := []string{"\n\na = 1\n", "a = 1\n\n\n\nb = 2\n", "a = 1\n\n", "a = 1", "x {\n\n\n}\n", "x {\n}\ny {\n}\n", "x {\n} y {\n}\n", "x {\ny {\n} }\n", "x {\ny {\n}\n}\n", "}\n", "x {\n}\n}\n}\n",
			"      a = 1\n", "x {\na = 1\n\t\t\tb = 2\n}\n", "a = 1 // c\n\n// d\nb = 2\n", "x { // c\n\n}\n", "x // c\ny\n", "x | d\ny\n", "\n", "\n\n\n", "", " ", "\t\n",
			"a = \"x\\\ny\"\nb = 1\n", "a = [1,\"x\\\ny\"]\n\n\nb = 1\n", "x \"s\\\nt\" {\n}\n", "/* a\nb */\n/* c\nd */\n", "/* a\nb */ x = 1\n", "a = /* c\nd */\n"}
		for _, l := range layouts {
			check(c, l, "systematic-layout")
		}
		c.Feature("fmt:systematic")
	})

	// --- repository files ----------------------------------------------------------------------
	for _, f := range repoSourceFiles() {
		data, err := os.ReadFile(f)
		if err != nil {
			continue
		}
		r.Do("file/"+strings.TrimPrefix(f, os.Getenv("VERIF_REPO_DIR")), func(c *rt.C) {
			check(c, string(data), "repo-file")
			c.Feature("fmt:repo-file")
		})
	}

	// --- generated files ------------------------------------------------------------------------
	nb := r.Scale(1500, 300000)
	for b := 0; b < nb; b++ {
		r.Do(fmt.Sprintf("gen/%d", b), func(c *rt.C) {
			rng := c.Rand()
			for i := 0; i < 20; i++ {
				x := genBCL(rng, i%2 == 0)
				check(c, x, "generated")
				if i%4 == 0 {
					check(c, mutateBCL(rng, x), "generated-mutation")
				}
			}
			c.Feature("fmt:generated")
		})
	}
}
