//go:build verif

package props

import (
	"fmt"
	"math/rand"
	"strings"

	"github.com/pentops/j5/gen/j5/ext/v1/ext_j5pb"
	"github.com/pentops/j5/gen/j5/schema/v1/schema_j5pb"
	"github.com/pentops/j5/internal/verifh/rt"
	"github.com/pentops/j5/lib/j5codec"
	"github.com/pentops/j5/lib/j5reflect"
	"github.com/pentops/j5/lib/j5schema"
	"google.golang.org/protobuf/proto"
	"google.golang.org/protobuf/reflect/protoreflect"
	"google.golang.org/protobuf/types/dynamicpb"
)

func init() { Registry["C18"] = runC18 }

// ---- G-PROTO, arbitrary proto3 dialect ------------------------------------------------------------

var arbScalarTypes = []string{"double", "float", "int32", "int64", "uint32", "uint64", "sint32", "sint64", "fixed32", "fixed64", "sfixed32", "sfixed64", "bool", "string", "bytes"}

var arbWKT = []string{"google.protobuf.Timestamp", "google.protobuf.Duration", "google.protobuf.Struct", "google.protobuf.Value", "google.protobuf.ListValue", "google.protobuf.Empty", "google.protobuf.FieldMask",
	"google.protobuf.StringValue", "google.protobuf.Int64Value", "google.protobuf.BoolValue", "google.protobuf.BytesValue", "google.protobuf.DoubleValue", "google.protobuf.Any",
	"j5.types.date.v1.Date", "j5.types.decimal.v1.Decimal", "j5.types.any.v1.Any"}

// option snippets that are type-correct for any field (the option message is
// well-formed) but need not fit the field they are put on.
var arbFieldOptions = []string{
	"(buf.validate.field).required = true",
	"(buf.validate.field).string.min_len = 1",
	"(buf.validate.field).string = {min_len: 1, max_len: 5, pattern: \"^a$\"}",
	"(buf.validate.field).string.uuid = true",
	"(buf.validate.field).string.email = true",
	"(buf.validate.field).string.pattern = \"^[0-9A-Za-z]{22}$\"",
	"(buf.validate.field).string.ip = true",
	"(buf.validate.field).int32.gt = 0",
	"(buf.validate.field).int32 = {gte: 1, lt: 10}",
	"(buf.validate.field).int32.const = 5",
	"(buf.validate.field).int32 = {in: [1, 2]}",
	"(buf.validate.field).int64.lte = 5",
	"(buf.validate.field).sint32.gt = 1",
	"(buf.validate.field).sint64.lt = 1",
	"(buf.validate.field).uint32.gt = 1",
	"(buf.validate.field).uint64.lt = 18446744073709551615",
	"(buf.validate.field).uint64.gte = 9223372036854775808",
	"(buf.validate.field).fixed64.gt = 1",
	"(buf.validate.field).float.gt = 0.5",
	"(buf.validate.field).double.lte = 1",
	"(buf.validate.field).bool.const = true",
	"(buf.validate.field).bool.const = false",
	"(buf.validate.field).bytes.min_len = 1",
	"(buf.validate.field).enum.defined_only = true",
	"(buf.validate.field).enum = {in: [1, 2]}",
	"(buf.validate.field).enum = {not_in: [0]}",
	"(buf.validate.field).enum = {in: [99]}",
	"(buf.validate.field).enum = {not_in: [99]}",
	"(buf.validate.field).repeated.min_items = 1",
	"(buf.validate.field).repeated = {max_items: 3, unique: true}",
	"(buf.validate.field).repeated.items.string.min_len = 1",
	"(buf.validate.field).repeated.items.enum.defined_only = true",
	"(buf.validate.field).map.min_pairs = 1",
	"(buf.validate.field).map.values.string.min_len = 1",
	"(buf.validate.field).map.keys.string.min_len = 1",
	"(buf.validate.field).timestamp.lt = {seconds: 5}",
	"(buf.validate.field).timestamp.gt_now = true",
	"(buf.validate.field).timestamp.within = {seconds: 5}",
	"(buf.validate.field).duration.gt = {seconds: 5}",
	"(buf.validate.field).any.in = [\"a.B\"]",
	"(buf.validate.field).ignore = IGNORE_ALWAYS",
	"(buf.validate.field) = {ignore: IGNORE_IF_UNPOPULATED, repeated: {items: {string: {min_len: 1}}}}",
	"(buf.validate.field) = {ignore: IGNORE_IF_UNPOPULATED, string: {min_len: 1}}",
	"(buf.validate.field) = {ignore: IGNORE_IF_UNPOPULATED, repeated: {min_items: 1}}",
	"(buf.validate.field) = {ignore: IGNORE_IF_UNPOPULATED, repeated: {}}",
	"(buf.validate.field) = {ignore: IGNORE_IF_UNPOPULATED, map: {min_pairs: 1}}",
	"(buf.validate.field) = {ignore: IGNORE_IF_UNPOPULATED, map: {keys: {string: {min_len: 1}}}}",
	"(buf.validate.field) = {ignore: IGNORE_IF_DEFAULT_VALUE, repeated: {max_items: 2}}",
	"(buf.validate.field).ignore = IGNORE_IF_UNPOPULATED",
	"(buf.validate.field) = {required: true, ignore: IGNORE_IF_UNPOPULATED}",
	"(j5.ext.v1.field).key = {}",
	"(j5.ext.v1.field).key = {format: FORMAT_UUID}",
	"(j5.ext.v1.field).key = {format: FORMAT_ID62}",
	"(j5.ext.v1.field).key = {pattern: \"^x$\"}",
	"(j5.ext.v1.field).message.flatten = true",
	"(j5.ext.v1.field).object.flatten = true",
	"(j5.ext.v1.field).object = {}",
	"(j5.ext.v1.field).oneof = {}",
	"(j5.ext.v1.field).enum = {}",
	"(j5.ext.v1.field).map = {single_form: \"x\"}",
	"(j5.ext.v1.field).array = {single_form: \"y\"}",
	"(j5.ext.v1.field).string = {}",
	"(j5.ext.v1.field).integer = {rules: {minimum: 1, exclusive_minimum: true}}",
	"(j5.ext.v1.field).float = {}",
	"(j5.ext.v1.field).bool = {}",
	"(j5.ext.v1.field).bytes = {}",
	"(j5.ext.v1.field).decimal = {rules: {minimum: \"1\"}}",
	"(j5.ext.v1.field).date = {rules: {maximum: \"2020-01-01\", exclusive_maximum: true}}",
	"(j5.ext.v1.field).timestamp = {}",
	"(j5.ext.v1.field).any = {only_defined: true, types: [\"a.B\"]}",
	"(j5.ext.v1.field).description = \"described\"",
	"(j5.ext.v1.key).primary_key = true",
	"(j5.ext.v1.key) = {foreign_key: {package: \"a.v1\", entity: \"b\"}}",
	"(j5.ext.v1.key).tenant_type = \"t\"",
	"(j5.list.v1.field).string.open_text.searching.searchable = true",
	"(j5.list.v1.field).string.foreign_key.uuid.filtering.filterable = true",
	"(j5.list.v1.field).string.foreign_key.id62 = {}",
	"(j5.list.v1.field).string.foreign_key.unique_string = {}",
	"(j5.list.v1.field).string.date.filtering.filterable = true",
	"(j5.list.v1.field).int32 = {filtering: {filterable: true}, sorting: {sortable: true}}",
	"(j5.list.v1.field).int64.sorting.sortable = true",
	"(j5.list.v1.field).uint32.filtering.filterable = true",
	"(j5.list.v1.field).uint64.filtering.filterable = true",
	"(j5.list.v1.field).fixed64.filtering.filterable = true",
	"(j5.list.v1.field).double.sorting.sortable = true",
	"(j5.list.v1.field).float.sorting.sortable = true",
	"(j5.list.v1.field).bool.filtering.filterable = true",
	"(j5.list.v1.field).enum.filtering = {filterable: true, default_filters: \"X\"}",
	"(j5.list.v1.field).oneof.filtering.filterable = true",
	"(j5.list.v1.field).timestamp = {filtering: {filterable: true}, sorting: {sortable: true, default_sort: true}}",
	"(j5.list.v1.field).date.filtering.filterable = true",
	"(j5.list.v1.field).decimal.sorting.sortable = true",
	"(j5.list.v1.field).any.filtering.filterable = true",
}

var arbMessageOptions = []string{
	"option (j5.ext.v1.message).is_oneof_wrapper = true;",
	"option (j5.ext.v1.message).oneof = {};",
	"option (j5.ext.v1.message).object = {};",
	"option (j5.ext.v1.message).object = {any_member: [\"foo\"]};",
	"option (j5.ext.v1.message).description = \"d\";",
	"option (j5.ext.v1.psm).entity_name = \"thing\";",
	"option (j5.ext.v1.psm) = {entity_name: \"thing\", entity_part: ENTITY_PART_KEYS};",
	"option (j5.list.v1.list_request) = {default_sort: [\"a\"]};",
}

var arbOneofOptions = []string{
	"option (j5.ext.v1.oneof).expose = true;",
	"option (j5.ext.v1.oneof).expose = false;",
	"option (j5.list.v1.oneof).filtering.filterable = true;",
}

var arbEnumOptions = []string{
	"option (j5.ext.v1.enum).no_default = true;",
	"option (j5.ext.v1.enum) = {info_fields: [{name: \"a\", label: \"A\"}]};",
}

type arbGen struct {
	rng  *rand.Rand
	pkg  string
	sb   strings.Builder
	msgs []string // declared top-level message names (for references)
	enms []string
	nf   int
	// feature knobs (systematic mode switches exactly one thing on)
	optProb int // 1/optProb chance of an option on a field (0 = never)
	// usedSpecial: "message/name" pairs of the special field names already used
	usedSpecial map[string]bool
}

func (g *arbGen) fieldName(base string) string {
	g.nf++
	return fmt.Sprintf("%s_%d", base, g.nf)
}

func (g *arbGen) pickType(self string) string {
	switch g.rng.Intn(10) {
	case 0, 1, 2, 3:
		return arbScalarTypes[g.rng.Intn(len(arbScalarTypes))]
	case 4:
		return arbWKT[g.rng.Intn(len(arbWKT))]
	case 5:
		if len(g.enms) > 0 {
			return g.enms[g.rng.Intn(len(g.enms))]
		}
	case 6:
		return self
	}
	if len(g.msgs) > 0 {
		return g.msgs[g.rng.Intn(len(g.msgs))]
	}
	return "string"
}

func (g *arbGen) options() string {
	if g.optProb == 0 || g.rng.Intn(g.optProb) != 0 {
		return ""
	}
	n := 1 + g.rng.Intn(2)
	seenExt := map[string]bool{}
	var opts []string
	for i := 0; i < n; i++ {
		o := arbFieldOptions[g.rng.Intn(len(arbFieldOptions))]
		ext := o[:strings.Index(o, ")")+1]
		if seenExt[ext] {
			continue // the same extension twice in different spellings is a proto compile error, not our subject
		}
		seenExt[ext] = true
		opts = append(opts, o)
	}
	return " [" + strings.Join(opts, ", ") + "]"
}

func (g *arbGen) field(ind, self string, inOneof bool, num int) {
	t := g.pickType(self)
	label := ""
	if !inOneof {
		switch g.rng.Intn(8) {
		case 0:
			label = "optional "
		case 1, 2:
			label = "repeated "
		case 3:
			key := []string{"string", "string", "int32", "int64", "bool", "uint64", "sint32", "fixed32"}[g.rng.Intn(8)]
			t = "map<" + key + ", " + t + ">"
		}
	}
	name := g.fieldName("f")
	if g.rng.Intn(12) == 0 {
		// names that mean something to the schema reader (entity parts looked up by field name)
		special := []string{"keys", "data", "status", "metadata", "event", "state"}[g.rng.Intn(6)]
		if g.usedSpecial == nil {
			g.usedSpecial = map[string]bool{}
		}
		if k := self + "/" + special; !g.usedSpecial[k] {
			g.usedSpecial[k] = true
			name = special
		}
	}
	fmt.Fprintf(&g.sb, "%s%s%s %s = %d%s;\n", ind, label, t, name, num, g.options())
}

func (g *arbGen) message(ind, name, full string, depth int) {
	fmt.Fprintf(&g.sb, "%smessage %s {\n", ind, name)
	in := ind + "  "
	if g.rng.Intn(6) == 0 {
		fmt.Fprintf(&g.sb, "%s%s\n", in, arbMessageOptions[g.rng.Intn(len(arbMessageOptions))])
	}
	if depth < 2 && g.rng.Intn(4) == 0 {
		g.message(in, "Nested", full+".Nested", depth+1)
	}
	if g.rng.Intn(5) == 0 {
		g.enum(in, "InnerEnum")
	}
	num := 0
	nf := g.rng.Intn(7)
	for i := 0; i < nf; i++ {
		num += 1 + g.rng.Intn(3)
		g.field(in, full, false, num)
	}
	// real oneofs
	for k := g.rng.Intn(3); k > 0; k-- {
		oname := []string{"type", "choice", "value", "kind"}[g.rng.Intn(4)] + fmt.Sprint(k)
		if g.rng.Intn(2) == 0 && k == 1 {
			oname = "type"
		}
		fmt.Fprintf(&g.sb, "%soneof %s {\n", in, oname)
		if g.rng.Intn(2) == 0 {
			fmt.Fprintf(&g.sb, "%s  %s\n", in, arbOneofOptions[g.rng.Intn(len(arbOneofOptions))])
		}
		for j := 1 + g.rng.Intn(3); j > 0; j-- {
			num += 1 + g.rng.Intn(3)
			g.field(in+"  ", full, true, num)
		}
		fmt.Fprintf(&g.sb, "%s}\n", in)
	}
	fmt.Fprintf(&g.sb, "%s}\n\n", ind)
}

func (g *arbGen) enum(ind, name string) {
	fmt.Fprintf(&g.sb, "%senum %s {\n", ind, name)
	if g.rng.Intn(6) == 0 {
		fmt.Fprintf(&g.sb, "%s  %s\n", ind, arbEnumOptions[g.rng.Intn(len(arbEnumOptions))])
	}
	prefix := strings.ToUpper(camelToSnake(name)) + "_"
	switch g.rng.Intn(6) {
	case 0: // no _UNSPECIFIED zero value
		fmt.Fprintf(&g.sb, "%s  %sFIRST = 0;\n", ind, prefix)
	case 1: // unprefixed
		fmt.Fprintf(&g.sb, "%s  %s_UNKNOWN_%d = 0;\n", ind, strings.ToUpper(name), g.rng.Intn(1000))
	default:
		fmt.Fprintf(&g.sb, "%s  %sUNSPECIFIED = 0;\n", ind, prefix)
	}
	for i := 1; i <= g.rng.Intn(4); i++ {
		fmt.Fprintf(&g.sb, "%s  %sV%d = %d;\n", ind, prefix, i, i*(1+g.rng.Intn(3)))
	}
	fmt.Fprintf(&g.sb, "%s}\n\n", ind)
}

const arbHeader = `syntax = "proto3";

package %s;

import "buf/validate/validate.proto";
import "google/protobuf/any.proto";
import "google/protobuf/duration.proto";
import "google/protobuf/empty.proto";
import "google/protobuf/field_mask.proto";
import "google/protobuf/struct.proto";
import "google/protobuf/timestamp.proto";
import "google/protobuf/wrappers.proto";
import "j5/ext/v1/annotations.proto";
import "j5/list/v1/annotations.proto";
import "j5/schema/v1/schema.proto";
import "j5/types/any/v1/any.proto";
import "j5/types/date/v1/date.proto";
import "j5/types/decimal/v1/decimal.proto";

`

func genArbitraryProto(rng *rand.Rand, pkg string, optProb int) string {
	g := &arbGen{rng: rng, pkg: pkg, optProb: optProb}
	fmt.Fprintf(&g.sb, arbHeader, pkg)
	nm := 1 + rng.Intn(4)
	names := []string{"Aa", "Bb", "Cc", "Dd", "Ee"}[:nm]
	for _, n := range names {
		g.msgs = append(g.msgs, n)
	}
	for i := 0; i < 1+rng.Intn(2); i++ {
		n := fmt.Sprintf("Enum%c", 'A'+i)
		g.enms = append(g.enms, n)
	}
	for _, n := range g.enms {
		g.enum("", n)
	}
	for _, n := range names {
		g.message("", n, n, 0)
	}
	return g.sb.String()
}

// ---- generic (descriptor-driven) message population -----------------------------------------------

func genericValue(rng *rand.Rand, fd protoreflect.FieldDescriptor, depth int) (protoreflect.Value, bool) {
	switch fd.Kind() {
	case protoreflect.BoolKind:
		return protoreflect.ValueOfBool(true), true
	case protoreflect.Int32Kind, protoreflect.Sint32Kind, protoreflect.Sfixed32Kind:
		return protoreflect.ValueOfInt32(int32(rng.Intn(100) - 50)), true
	case protoreflect.Int64Kind, protoreflect.Sint64Kind, protoreflect.Sfixed64Kind:
		return protoreflect.ValueOfInt64(int64(rng.Intn(100) - 50)), true
	case protoreflect.Uint32Kind, protoreflect.Fixed32Kind:
		return protoreflect.ValueOfUint32(uint32(rng.Intn(100) + 1)), true
	case protoreflect.Uint64Kind, protoreflect.Fixed64Kind:
		return protoreflect.ValueOfUint64(uint64(rng.Intn(100) + 1)), true
	case protoreflect.FloatKind:
		return protoreflect.ValueOfFloat32(1.5), true
	case protoreflect.DoubleKind:
		return protoreflect.ValueOfFloat64(2.5), true
	case protoreflect.StringKind:
		return protoreflect.ValueOfString("abc"), true
	case protoreflect.BytesKind:
		return protoreflect.ValueOfBytes([]byte{1, 2, 3}), true
	case protoreflect.EnumKind:
		vals := fd.Enum().Values()
		n := vals.Get(rng.Intn(vals.Len())).Number()
		if eo, ok := proto.GetExtension(fd.Enum().Options(), ext_j5pb.E_Enum).(*ext_j5pb.EnumOptions); ok && eo != nil && eo.NoDefault && n == 0 {
			// the annotation disallows the zero value: not a representable message
			if vals.Len() < 2 {
				return protoreflect.Value{}, false
			}
			n = vals.Get(1).Number()
			if n == 0 {
				return protoreflect.Value{}, false
			}
		}
		return protoreflect.ValueOfEnum(n), true
	case protoreflect.MessageKind:
		if depth > 3 {
			return protoreflect.Value{}, false
		}
		switch fd.Message().FullName() {
		case "google.protobuf.Any", "j5.types.any.v1.Any":
			return protoreflect.Value{}, false // payload types are the subject of C01; an Any without type is not a value
		}
		return protoreflect.ValueOfMessage(genericMessage(rng, fd.Message(), depth+1)), true
	}
	return protoreflect.Value{}, false
}

func genericMessage(rng *rand.Rand, md protoreflect.MessageDescriptor, depth int) *dynamicpb.Message {
	m := dynamicpb.NewMessage(md)
	switch md.FullName() {
	case "google.protobuf.Timestamp":
		setByName(m, "seconds", protoreflect.ValueOfInt64(1700000000))
		return m
	case "google.protobuf.Duration":
		setByName(m, "seconds", protoreflect.ValueOfInt64(3))
		setByName(m, "nanos", protoreflect.ValueOfInt32(500000000))
		return m
	case "j5.types.date.v1.Date":
		setByName(m, "year", protoreflect.ValueOfInt32(2020))
		setByName(m, "month", protoreflect.ValueOfInt32(2))
		setByName(m, "day", protoreflect.ValueOfInt32(3))
		return m
	case "j5.types.decimal.v1.Decimal":
		setByName(m, "value", protoreflect.ValueOfString("1.5"))
		return m
	case "google.protobuf.Any", "j5.types.any.v1.Any":
		return m // left empty: payload types are the subject of C01
	case "google.protobuf.Value":
		setByName(m, "string_value", protoreflect.ValueOfString("v"))
		return m
	}
	fields := md.Fields()
	oneofDone := map[string]bool{}
	for i := 0; i < fields.Len(); i++ {
		fd := fields.Get(i)
		if oo := fd.ContainingOneof(); oo != nil && !oo.IsSynthetic() {
			if oneofDone[string(oo.Name())] {
				continue
			}
			oneofDone[string(oo.Name())] = true
		}
		switch {
		case fd.IsList():
			l := m.Mutable(fd).List()
			for k := 0; k < 2; k++ {
				if v, ok := genericValue(rng, fd, depth); ok {
					l.Append(v)
				}
			}
		case fd.IsMap():
			mp := m.Mutable(fd).Map()
			var key protoreflect.MapKey
			switch fd.MapKey().Kind() {
			case protoreflect.StringKind:
				key = protoreflect.ValueOfString("k").MapKey()
			case protoreflect.BoolKind:
				key = protoreflect.ValueOfBool(true).MapKey()
			case protoreflect.Int32Kind, protoreflect.Sint32Kind, protoreflect.Sfixed32Kind:
				key = protoreflect.ValueOfInt32(1).MapKey()
			case protoreflect.Int64Kind, protoreflect.Sint64Kind, protoreflect.Sfixed64Kind:
				key = protoreflect.ValueOfInt64(1).MapKey()
			case protoreflect.Uint32Kind, protoreflect.Fixed32Kind:
				key = protoreflect.ValueOfUint32(1).MapKey()
			default:
				key = protoreflect.ValueOfUint64(1).MapKey()
			}
			if v, ok := genericValue(rng, fd.MapValue(), depth); ok {
				mp.Set(key, v)
			}
		default:
			if v, ok := genericValue(rng, fd, depth); ok {
				m.Set(fd, v)
			}
		}
	}
	return m
}

// ---- the oracle -----------------------------------------------------------------------------------------

func kindMatches(sch j5schema.FieldSchema, fd protoreflect.FieldDescriptor, element bool) string {
	if !element {
		switch sch.(type) {
		case *j5schema.ArrayField:
			if !fd.IsList() {
				return "array property on a non-repeated field"
			}
			return kindMatches(sch.(*j5schema.ArrayField).Schema, fd, true)
		case *j5schema.MapField:
			if !fd.IsMap() {
				if fd.Kind() == protoreflect.MessageKind && fd.Message().FullName() == "google.protobuf.Struct" {
					return "" // Struct is presented as a map
				}
				return "map property on a non-map field"
			}
			if fd.MapKey().Kind() != protoreflect.StringKind {
				return "map property with non-string keys"
			}
			return kindMatches(sch.(*j5schema.MapField).Schema, fd.MapValue(), true)
		}
		if fd.IsList() || fd.IsMap() {
			return fmt.Sprintf("%T property on a repeated/map field", sch)
		}
	}
	switch st := sch.(type) {
	case *j5schema.ObjectField, *j5schema.OneofField, *j5schema.AnyField:
		if fd.Kind() != protoreflect.MessageKind {
			return fmt.Sprintf("%T on proto kind %s", sch, fd.Kind())
		}
	case *j5schema.EnumField:
		if fd.Kind() != protoreflect.EnumKind {
			return fmt.Sprintf("enum on proto kind %s", fd.Kind())
		}
	case *j5schema.ScalarSchema:
		if st.WellKnownTypeName != "" {
			if fd.Kind() != protoreflect.MessageKind || fd.Message().FullName() != st.WellKnownTypeName {
				return fmt.Sprintf("scalar %s on proto kind %s", st.WellKnownTypeName, fd.Kind())
			}
			return ""
		}
		want := map[protoreflect.Kind]bool{}
		switch t := st.Proto.Type.(type) {
		case *schema_j5pb.Field_Bool:
			want[protoreflect.BoolKind] = true
		case *schema_j5pb.Field_String_, *schema_j5pb.Field_Key:
			want[protoreflect.StringKind] = true
		case *schema_j5pb.Field_Bytes:
			want[protoreflect.BytesKind] = true
		case *schema_j5pb.Field_Float:
			if t.Float.Format == schema_j5pb.FloatField_FORMAT_FLOAT32 {
				want[protoreflect.FloatKind] = true
			} else {
				want[protoreflect.DoubleKind] = true
			}
		case *schema_j5pb.Field_Integer:
			switch t.Integer.Format {
			case schema_j5pb.IntegerField_FORMAT_INT32:
				want[protoreflect.Int32Kind], want[protoreflect.Sint32Kind], want[protoreflect.Sfixed32Kind] = true, true, true
			case schema_j5pb.IntegerField_FORMAT_INT64:
				want[protoreflect.Int64Kind], want[protoreflect.Sint64Kind], want[protoreflect.Sfixed64Kind] = true, true, true
			case schema_j5pb.IntegerField_FORMAT_UINT32:
				want[protoreflect.Uint32Kind], want[protoreflect.Fixed32Kind] = true, true
			case schema_j5pb.IntegerField_FORMAT_UINT64:
				want[protoreflect.Uint64Kind], want[protoreflect.Fixed64Kind] = true, true
			}
		default:
			return fmt.Sprintf("scalar schema %T without well-known type on kind %s", t, fd.Kind())
		}
		if !want[fd.Kind()] {
			return fmt.Sprintf("scalar schema %T on proto kind %s", st.Proto.Type, fd.Kind())
		}
	}
	return ""
}

// c18CheckRoot checks the self-consistency clauses for one reflected schema.
func c18CheckRoot(c *rt.C, root j5schema.RootSchema, md protoreflect.MessageDescriptor, det map[string]any) {
	var props []*j5schema.ObjectProperty
	switch rt := root.(type) {
	case *j5schema.ObjectSchema:
		props = rt.Properties
	case *j5schema.OneofSchema:
		props = rt.Properties
	default:
		return
	}
	names := map[string]bool{}
	for _, p := range props {
		if names[p.JSONName] {
			c.Violate("consistency/duplicate-property-name", fmt.Sprintf("schema %s has two properties named %q", root.FullName(), p.JSONName), det)
		}
		names[p.JSONName] = true
		if len(p.ProtoField) == 0 {
			if _, ok := p.Schema.(*j5schema.OneofField); !ok {
				c.Violate("consistency/no-proto-path", fmt.Sprintf("property %s of %s (%T) has no proto field path", p.JSONName, root.FullName(), p.Schema), det)
			}
			continue
		}
		walk := md
		var fd protoreflect.FieldDescriptor
		bad := ""
		for i, num := range p.ProtoField {
			fd = walk.Fields().ByNumber(num)
			if fd == nil {
				bad = fmt.Sprintf("field number %d does not exist in %s", num, walk.FullName())
				break
			}
			if i < len(p.ProtoField)-1 {
				if fd.Kind() != protoreflect.MessageKind || fd.IsList() || fd.IsMap() {
					bad = fmt.Sprintf("path element %s is not a singular message", fd.FullName())
					break
				}
				walk = fd.Message()
			}
		}
		if bad != "" {
			c.Violate("consistency/path-unresolvable", fmt.Sprintf("property %s of %s: %s", p.JSONName, root.FullName(), bad), det)
			continue
		}
		c.Event("paths_resolved")
		if why := kindMatches(p.Schema, fd, false); why != "" {
			c.Violate("consistency/kind-mismatch/"+sigWords(why), fmt.Sprintf("property %s of %s: recorded path resolves to %s (%s): %s", p.JSONName, root.FullName(), fd.FullName(), fd.Kind(), why), det)
		}
	}
	// the names a client sees (flattened members inlined) must be unique as well
	if obj, ok := root.(*j5schema.ObjectSchema); ok {
		var cps []*j5schema.ObjectProperty
		okc, _, _, _ := rt.Guard(func() { cps = obj.ClientProperties() })
		if okc {
			seen := map[string]bool{}
			for _, p := range cps {
				if seen[p.JSONName] {
					c.Violate("consistency/duplicate-client-property-name", fmt.Sprintf("object %s exposes two members named %q (flattened members collide)", root.FullName(), p.JSONName), det)
					break
				}
				seen[p.JSONName] = true
			}
		}
	}
}

func sigWords(s string) string {
	s = reGenName.ReplaceAllString(s, "N")
	s = strings.Map(func(r rune) rune {
		if r == '*' || r == '"' {
			return -1
		}
		return r
	}, s)
	if len(s) > 70 {
		s = s[:70]
	}
	return s
}

func allMessages(files []protoreflect.FileDescriptor) []protoreflect.MessageDescriptor {
	var out []protoreflect.MessageDescriptor
	var walk func(ms protoreflect.MessageDescriptors)
	walk = func(ms protoreflect.MessageDescriptors) {
		for i := 0; i < ms.Len(); i++ {
			m := ms.Get(i)
			if m.IsMapEntry() {
				continue
			}
			out = append(out, m)
			walk(m.Messages())
		}
	}
	for _, f := range files {
		walk(f.Messages())
	}
	return out
}

// c18CheckSource runs all entry points over one generated proto file.
func c18CheckSource(c *rt.C, path, src, class string) {
	det := map[string]any{"proto_source": src, "class": class}
	ct, err := compileProtoText(map[string]string{path: src})
	if err != nil {
		// the generator produced something protocompile rejects: not in the
		// quantified space ("linked proto3 descriptor set")
		c.Event("generated_proto_rejected_by_protocompile")
		if c.WantSample() {
			c.Sample(map[string]any{"rejected_by_protocompile": rt.Clip(err.Error(), 200)})
		}
		return
	}
	c.Eval(rt.Hash(src), true)
	c.Feature("c18:" + class)
	own, _ := ct.Files.FindFileByPath(path)
	msgs := allMessages([]protoreflect.FileDescriptor{own})

	// --- SchemaSetFromFiles ---
	c.Input([]byte(src))
	var set *j5schema.SchemaSet
	ok, pv, fn, st := rt.Guard(func() {
		set, err = j5schema.SchemaSetFromFiles(ct.Files, func(f protoreflect.FileDescriptor) bool { return f.Path() == path })
	})
	c.EndBudget()
	if !ok {
		d := cloneDet(det, "stack", st)
		c.Violate("schemaset-panic/"+fn, fmt.Sprintf("SchemaSetFromFiles panicked: %v", pv), d)
	} else if err != nil {
		c.Event("schemaset_error")
	} else {
		c.Event("schemaset_ok")
		if set == nil {
			c.Violate("schemaset/nil-nil", "SchemaSetFromFiles returned neither a schema set nor an error", det)
		} else {
			for _, md := range msgs {
				pkgName := string(md.ParentFile().Package())
				pkg, okp := set.Packages[pkgName]
				if !okp {
					continue
				}
				name := strings.ReplaceAll(strings.TrimPrefix(string(md.FullName()), pkgName+"."), ".", "_")
				if ref, okr := pkg.Schemas[name]; okr && ref.To != nil {
					c18CheckRoot(c, ref.To, md, cloneDet(det, "entry", "SchemaSetFromFiles", "message", string(md.FullName())))
				}
			}
		}
	}

	// --- SchemaCache.Schema + Reflector.NewRoot + codec, per message --------------------------
	rng := c.Rand()
	for _, md := range msgs {
		mdet := cloneDet(det, "message", string(md.FullName()))
		cache := j5schema.NewSchemaCache()
		var root j5schema.RootSchema
		c.Input([]byte(string(md.FullName()) + "\n" + src))
		ok, pv, fn, st = rt.Guard(func() { root, err = cache.Schema(md) })
		c.EndBudget()
		if !ok {
			c.Violate("schema-panic/"+fn, fmt.Sprintf("SchemaCache.Schema(%s) panicked: %v", md.FullName(), pv), cloneDet(mdet, "stack", st))
			continue
		}
		refl := j5reflect.NewWithCache(j5schema.NewSchemaCache())
		var rroot j5reflect.Root
		var rerr error
		ok, pv, fn, st = rt.Guard(func() { rroot, rerr = refl.NewRoot(dynamicpb.NewMessage(md)) })
		if !ok {
			c.Violate("newroot-panic/"+fn, fmt.Sprintf("Reflector.NewRoot(%s) panicked: %v", md.FullName(), pv), cloneDet(mdet, "stack", st))
		} else if rroot == nil && rerr == nil {
			c.Violate("newroot/nil-nil", fmt.Sprintf("Reflector.NewRoot(%s) returned neither a root nor an error (schema error: %v)", md.FullName(), err), mdet)
		}
		if err != nil {
			c.Event("schema_error")
			continue
		}
		if root == nil {
			c.Violate("schema/nil-nil", fmt.Sprintf("SchemaCache.Schema(%s) returned neither a schema nor an error", md.FullName()), mdet)
			continue
		}
		c.Event("schema_ok")
		c18CheckRoot(c, root, md, cloneDet(mdet, "entry", "SchemaCache.Schema"))

		// the codec must handle an empty and a populated message of every reflected type
		cd := j5codec.NewCodec(j5codec.WithResolver(ct.Types))
		for pass, m := range []*dynamicpb.Message{dynamicpb.NewMessage(md), genericMessage(rng, md, 0)} {
			which := []string{"empty", "populated"}[pass]
			var b []byte
			var eerr error
			c.Input([]byte(which + " " + msgText(m)))
			ok, pv, fn, st = rt.Guard(func() { b, eerr = cd.ProtoToJSON(m) })
			c.EndBudget()
			if !ok {
				c.Violate("codec-encode-panic/"+fn, fmt.Sprintf("ProtoToJSON panicked on a %s message of reflected type %s: %v", which, md.FullName(), pv), cloneDet(mdet, "value", msgText(m), "stack", st))
				continue
			}
			if eerr != nil {
				c.Violate("codec-encode-error/"+which+"/"+errSig(eerr), fmt.Sprintf("reflection of %s succeeded but the codec cannot encode a %s message: %v", md.FullName(), which, eerr), cloneDet(mdet, "value", msgText(m)))
				continue
			}
			m2 := dynamicpb.NewMessage(md)
			var derr error
			c.Input(b)
			ok, pv, fn, st = rt.Guard(func() { derr = cd.JSONToProto(b, m2) })
			c.EndBudget()
			if !ok {
				c.Violate("codec-decode-panic/"+fn, fmt.Sprintf("JSONToProto panicked on the encoding of a %s message of reflected type %s: %v; json=%s", which, md.FullName(), pv, rt.Clip(string(b), 300)), cloneDet(mdet, "json", string(b), "stack", st))
				continue
			}
			if derr != nil {
				c.Violate("codec-decode-error/"+which+"/"+errSig(derr), fmt.Sprintf("reflection of %s succeeded but the codec cannot decode its own encoding of a %s message: %v; json=%s", md.FullName(), which, derr, rt.Clip(string(b), 300)), cloneDet(mdet, "json", string(b)))
				continue
			}
			c.Event("codec_roundtrips_ok")
		}
	}
	// --- one codec (one Reflector), the same file linked twice: equal names, distinct descriptor instances -----------
	// (what a long-lived process sees when it reloads an image; nothing kept per type name may hold on to descriptors
	// of the first instance)
	if ct2, err2 := compileProtoText(map[string]string{path: src}); err2 == nil {
		cd := j5codec.NewCodec(j5codec.WithResolver(ct.Types))
		for _, md := range msgs {
			md2 := ct2.message(string(md.FullName()))
			if md2 == nil {
				continue
			}
			mdet := cloneDet(det, "message", string(md.FullName()))
			var firstErr error
			for inst, d := range []protoreflect.MessageDescriptor{md, md2, md} {
				m := genericMessage(rand.New(rand.NewSource(int64(len(md.FullName())))), d, 0)
				var b []byte
				var eerr error
				ok, pv, fn, st := rt.Guard(func() {
					b, eerr = cd.ProtoToJSON(m)
					if eerr == nil {
						eerr = cd.JSONToProto(b, dynamicpb.NewMessage(d))
					}
				})
				c.Event("second_instance_calls")
				if !ok {
					c.Violate("second-instance-panic/"+fn, fmt.Sprintf("encode/decode of %s panicked on descriptor instance %d of the same file on one codec: %v", md.FullName(), inst+1, pv), cloneDet(mdet, "stack", st))
					break
				}
				if inst == 0 {
					firstErr = eerr
				} else if (eerr == nil) != (firstErr == nil) {
					c.Violate("second-instance-differs", fmt.Sprintf("%s: instance 1 of the descriptor gave error %v, instance %d of the same file on the same codec gave %v", md.FullName(), firstErr, inst+1, eerr), mdet)
					break
				}
			}
		}
	}
	c18SharedCache(c, msgs, det)
	if c.WantSample() {
		c.Sample(map[string]any{"class": class, "proto": rt.Clip(src[strings.Index(src, "decimal.proto\";")+16:], 900)})
	}
}

// c18SharedCache: what a schema cache answers for a message must not depend on what it was asked before.
// Every message is reflected on a fresh cache and then, in declaration order and in reverse order, on one
// shared cache; success / failure and the exported schema must agree.
func c18SharedCache(c *rt.C, msgs []protoreflect.MessageDescriptor, det map[string]any) {
	type outcome struct {
		ok   bool
		root *schema_j5pb.RootSchema
	}
	reflect := func(cache *j5schema.SchemaCache, md protoreflect.MessageDescriptor, where string) (outcome, bool) {
		var root j5schema.RootSchema
		var err error
		var exported *schema_j5pb.RootSchema
		ok, pv, fn, st := rt.Guard(func() {
			root, err = cache.Schema(md)
			if err == nil && root != nil {
				exported = root.ToJ5Root()
				// every reference below it must be usable
				_ = j5schema.WalkSchemaFields(root, false, func(j5schema.WalkProperty) error { return nil })
			}
		})
		if !ok {
			c.Violate("cache-state/panic/"+fn, fmt.Sprintf("reflecting %s on %s panicked: %v", md.FullName(), where, pv), cloneDet(det, "message", string(md.FullName()), "stack", st))
			return outcome{}, false
		}
		return outcome{ok: err == nil && root != nil, root: exported}, true
	}
	fresh := map[protoreflect.FullName]outcome{}
	for _, md := range msgs {
		o, ok := reflect(j5schema.NewSchemaCache(), md, "a fresh cache")
		if !ok {
			return
		}
		fresh[md.FullName()] = o
	}
	orders := [][]protoreflect.MessageDescriptor{msgs, nil}
	for i := len(msgs) - 1; i >= 0; i-- {
		orders[1] = append(orders[1], msgs[i])
	}
	for oi, order := range orders {
		shared := j5schema.NewSchemaCache()
		for _, md := range order {
			o, ok := reflect(shared, md, "a cache that reflected other messages of the file before")
			if !ok {
				return
			}
			c.Event("shared_cache_reflections")
			want := fresh[md.FullName()]
			mdet := cloneDet(det, "message", string(md.FullName()), "order", []string{"declaration", "reverse"}[oi])
			switch {
			case o.ok && !want.ok:
				c.Violate("cache-state/accepted-after-earlier-failure", fmt.Sprintf("%s is rejected on a fresh cache but accepted on a cache that reflected other messages before", md.FullName()), mdet)
			case !o.ok && want.ok:
				c.Violate("cache-state/rejected-after-earlier-use", fmt.Sprintf("%s is accepted on a fresh cache but rejected on a cache that reflected other messages before", md.FullName()), mdet)
			case o.ok && !proto.Equal(o.root, want.root) && schemaNameCollides(md, msgs):
				// two messages of one package whose names differ only in "." vs "_" share one schema name
				c.Violate("cache-state/schema-name-collision", fmt.Sprintf("%s gets the schema of another message with the same flattened name once both were reflected on one cache", md.FullName()), mdet)
			case o.ok && !proto.Equal(o.root, want.root):
				c.Violate("cache-state/schema-differs", fmt.Sprintf("the schema of %s differs between a fresh cache and one that reflected other messages before (%s)", md.FullName(), protoPathDiff(want.root.ProtoReflect(), o.root.ProtoReflect())), mdet)
			}
		}
	}
}

func schemaNameCollides(md protoreflect.MessageDescriptor, msgs []protoreflect.MessageDescriptor) bool {
	flat := func(m protoreflect.MessageDescriptor) string {
		pkg := string(m.ParentFile().Package())
		return pkg + "/" + strings.ReplaceAll(strings.TrimPrefix(string(m.FullName()), pkg+"."), ".", "_")
	}
	for _, o := range msgs {
		if o.FullName() != md.FullName() && flat(o) == flat(md) {
			return true
		}
	}
	return false
}

// c18CheckFiles: several files / packages; only the shared-cache oracle (the per-message oracles run in c18CheckSource)
func c18CheckFiles(c *rt.C, files map[string]string, class string) {
	det := map[string]any{"proto_sources": files, "class": class}
	ct, err := compileProtoText(files)
	if err != nil {
		c.Event("generated_proto_rejected_by_protocompile")
		c.Feature("c18:rejected-by-protocompile/" + errSig(err))
		return
	}
	c.Eval(rt.Hash(string(bundleBytes(files))), true)
	c.Feature("c18:" + class)
	var own []protoreflect.FileDescriptor
	for _, p := range rt.SortedKeys(files) {
		if f, err := ct.Files.FindFileByPath(p); err == nil {
			own = append(own, f)
		}
	}
	msgs := allMessages(own)
	c.Input(bundleBytes(files))
	c18SharedCache(c, msgs, det)
	c.EndBudget()
}

func runC18(r *rt.Runner) {
	// --- systematic: one field of every type, bare ------------------------------------------------------
	var sysTypes []string
	sysTypes = append(sysTypes, arbScalarTypes...)
	sysTypes = append(sysTypes, arbWKT...)
	sysTypes = append(sysTypes, "EnumGood", "EnumNoUnspecified", "Other", "Holder")
	const sysDecls = `enum EnumGood { ENUM_GOOD_UNSPECIFIED = 0; ENUM_GOOD_A = 1; }
enum EnumNoUnspecified { ENUM_NO_UNSPECIFIED_FIRST = 0; ENUM_NO_UNSPECIFIED_SECOND = 1; }
message Other { string name = 1; }
`
	for _, t := range sysTypes {
		for _, form := range []string{"singular", "optional", "repeated", "map", "oneof", "exposed-oneof"} {
			r.Do("sys/type/"+t+"/"+form, func(c *rt.C) {
				var body string
				switch form {
				case "singular":
					body = fmt.Sprintf("  %s the_field = 3;\n", t)
				case "optional":
					body = fmt.Sprintf("  optional %s the_field = 3;\n", t)
				case "repeated":
					body = fmt.Sprintf("  repeated %s the_field = 3;\n", t)
				case "map":
					body = fmt.Sprintf("  map<string, %s> the_field = 3;\n", t)
				case "oneof":
					body = fmt.Sprintf("  oneof pick {\n    %s the_field = 3;\n    string other = 4;\n  }\n", t)
				default:
					body = fmt.Sprintf("  oneof pick {\n    option (j5.ext.v1.oneof).expose = true;\n    %s the_field = 3;\n    string other = 4;\n  }\n", t)
				}
				src := fmt.Sprintf(arbHeader, "verif.arb.v1") + sysDecls + "message Holder {\n" + body + "}\n"
				c18CheckSource(c, "verif/arb/v1/sys.proto", src, "systematic-type")
			})
		}
	}
	// --- systematic: every option snippet on a field of every broad kind -----------------------------------
	hostTypes := []string{"string", "int32", "int64", "uint64", "fixed64", "bool", "double", "bytes", "EnumGood", "Other", "google.protobuf.Timestamp", "j5.types.date.v1.Date", "j5.types.decimal.v1.Decimal", "j5.types.any.v1.Any", "Holder"}
	for oi, opt := range arbFieldOptions {
		r.Do(fmt.Sprintf("sys/option/%d", oi), func(c *rt.C) {
			for _, t := range hostTypes {
				for _, label := range []string{"", "repeated ", "map"} {
					decl := fmt.Sprintf("  %s%s the_field = 3 [%s];\n", label, t, opt)
					if label == "map" {
						decl = fmt.Sprintf("  map<string, %s> the_field = 3 [%s];\n", t, opt)
					}
					src := fmt.Sprintf(arbHeader, "verif.arb.v1") + sysDecls + "message Holder {\n" + decl + "}\n"
					c18CheckSource(c, "verif/arb/v1/opt.proto", src, "systematic-option")
				}
			}
		})
	}
	// --- systematic: recursion and flatten shapes ---------------------------------------------------------------
	recShapes := map[string]string{
		"self":                            "message A { A next = 1; }",
		"self-repeated":                   "message A { repeated A kids = 1; }",
		"self-map":                        "message A { map<string, A> kids = 1; }",
		"self-flatten":                    "message A { A next = 1 [(j5.ext.v1.field).message.flatten = true]; string x = 2; }",
		"self-flatten-object":             "message A { A next = 1 [(j5.ext.v1.field).object.flatten = true]; }",
		"mutual":                          "message A { B b = 1; }\nmessage B { A a = 1; }",
		"mutual-flatten":                  "message A { B b = 1 [(j5.ext.v1.field).message.flatten = true]; }\nmessage B { A a = 1 [(j5.ext.v1.field).message.flatten = true]; }",
		"mutual-flatten-after-plain":      "message P { string p = 1; }\nmessage A { P plain = 1; B b = 2 [(j5.ext.v1.field).message.flatten = true]; }\nmessage B { P plain = 1; string s = 2; A a = 3 [(j5.ext.v1.field).message.flatten = true]; }",
		"mutual-flatten-after-plain-list": "message P { string p = 1; }\nmessage A { repeated P plains = 1; Q q = 2; B b = 3 [(j5.ext.v1.field).object.flatten = true]; }\nmessage Q { P p = 1; }\nmessage B { Q q = 1; A a = 2 [(j5.ext.v1.field).object.flatten = true]; }",
		"plain-then-flatten-same-type":    "message P { string p = 1; }\nmessage A { P plain = 1; P flat = 2 [(j5.ext.v1.field).object.flatten = true]; }",
		"mutual-flatten-one":              "message A { B b = 1 [(j5.ext.v1.field).message.flatten = true]; }\nmessage B { A a = 1; }",
		"flatten-collision":               "message A { B b = 1 [(j5.ext.v1.field).message.flatten = true]; string name = 2; }\nmessage B { string name = 1; }",
		"flatten-twice":                   "message A { B b = 1 [(j5.ext.v1.field).message.flatten = true]; B c = 2 [(j5.ext.v1.field).message.flatten = true]; }\nmessage B { string name = 1; }",
		"flatten-repeated":                "message A { repeated B b = 1 [(j5.ext.v1.field).message.flatten = true]; }\nmessage B { string name = 1; }",
		"flatten-scalar":                  "message A { string b = 1 [(j5.ext.v1.field).message.flatten = true]; }",
		"flatten-wkt":                     "message A { google.protobuf.Timestamp b = 1 [(j5.ext.v1.field).message.flatten = true]; }",
		"flatten-oneof":                   "message A { W w = 1 [(j5.ext.v1.field).message.flatten = true]; }\nmessage W { oneof type { A a = 1; W w = 2; } }",
		"wrapper-self":                    "message W { oneof type { W w = 1; } }",
		"wrapper-scalar-arm":              "message W { option (j5.ext.v1.message).is_oneof_wrapper = true; oneof type { string s = 1; int64 i = 2; } }",
		"wrapper-no-oneof":                "message W { option (j5.ext.v1.message).is_oneof_wrapper = true; string s = 1; }",
		"wrapper-two-oneofs":              "message W { option (j5.ext.v1.message).oneof = {}; oneof type { string s = 1; } oneof other { string t = 2; } }",
		"wrapper-empty":                   "message W { option (j5.ext.v1.message).oneof = {}; }",
		"exposed-self":                    "message A { oneof type { option (j5.ext.v1.oneof).expose = true; A a = 1; string s = 2; } }",
		"exposed-two":                     "message A { oneof x { option (j5.ext.v1.oneof).expose = true; string s = 1; } oneof y { option (j5.ext.v1.oneof).expose = true; string t = 2; } }",
		"nested-same-name":                "message A { message A { string s = 1; } A inner = 1; }",
		"nested-underscore":               "message A_B { string s = 1; }\nmessage A { message B { string t = 1; } B b = 1; A_B ab = 2; }",
		"psm-unknown-suffix":              "message Thing { option (j5.ext.v1.psm).entity_name = \"t\"; string s = 1; }",
		"psm-keys-legacy":                 "message ThingKeys { option (j5.ext.v1.psm).entity_name = \"t\"; string id = 1; }\nmessage ThingState { ThingKeys keys = 1; }",
		"enum-only-zero":                  "enum E { E_UNSPECIFIED = 0; }\nmessage A { E e = 1; }",
		"enum-alias":                      "enum E { option allow_alias = true; E_UNSPECIFIED = 0; E_A = 1; E_B = 1; }\nmessage A { E e = 1; repeated E es = 2; }",
		"enum-negative":                   "enum E { E_UNSPECIFIED = 0; E_NEG = -1; }\nmessage A { E e = 1; }",
		"empty-message":                   "message A { }",
		"fields-named-like-entity-parts":  "message A { repeated string keys = 1; int64 data = 2; bool status = 3; string metadata = 4; bytes event = 5; }\nmessage BState { int64 keys = 1; string data = 2; }\nmessage CEvent { string keys = 1; string event = 2; }\nmessage D { map<string, string> keys = 1; }\nenum E { E_UNSPECIFIED = 0; }\nmessage F { E keys = 1; repeated E status = 2; }",
		"map-of-wrapper":                  "message W { oneof type { A a = 1; B b = 2; } }\nmessage A { string s = 1; }\nmessage B { int64 n = 1; }\nmessage H { map<string, W> ws = 1; repeated W list = 2; W one = 3; }",
		"map-of-typed-wrapper":            "message W { option (j5.ext.v1.message).oneof = {}; oneof type { string s = 1; A a = 2; } }\nmessage A { string s = 1; }\nmessage H { map<string, W> ws = 1; repeated W list = 2; optional string x = 3; }",
		"exposed-oneof-name-clash":        "message A { oneof contact_info { option (j5.ext.v1.oneof).expose = true; string email = 1; string phone = 2; } string contactInfo = 3; }",
		"exposed-oneof-name-clash-snake":  "message A { oneof pick { option (j5.ext.v1.oneof).expose = true; string email = 1; string phone = 2; } string pick = 3; }",
		"json-name-clash":                 "message A { string foo_bar = 1; string fooBar = 2; }",
		"flatten-chain":                   "message A { B b = 1 [(j5.ext.v1.field).object.flatten = true]; string own = 2; }\nmessage B { C c = 1 [(j5.ext.v1.field).object.flatten = true]; int64 count = 2; }\nmessage C { string name = 1; Leaf leaf = 2; repeated string tags = 3; }\nmessage Leaf { string text = 1; }",
		"flatten-chain-3":                 "message A { B b = 1 [(j5.ext.v1.field).message.flatten = true]; }\nmessage B { C c = 1 [(j5.ext.v1.field).message.flatten = true]; }\nmessage C { D d = 1 [(j5.ext.v1.field).message.flatten = true]; string c_name = 2; }\nmessage D { string d_name = 1; optional int32 d_count = 2; }",
		"flatten-chain-oneof":             "message A { B b = 1 [(j5.ext.v1.field).object.flatten = true]; }\nmessage B { C c = 1 [(j5.ext.v1.field).object.flatten = true]; }\nmessage C { oneof pick { option (j5.ext.v1.oneof).expose = true; string s = 1; int64 i = 2; } string name = 3; }",
		"flatten-chain-item":              "message A { repeated B bs = 1; map<string, B> by_name = 2; }\nmessage B { C c = 1 [(j5.ext.v1.field).object.flatten = true]; }\nmessage C { D d = 1 [(j5.ext.v1.field).object.flatten = true]; string c_name = 2; }\nmessage D { string d_name = 1; }",
		"plain-then-flatten-mutual":       "message A { B b = 1; B b2 = 2 [(j5.ext.v1.field).message.flatten = true]; }\nmessage B { A a = 1 [(j5.ext.v1.field).message.flatten = true]; string x = 2; }",
		"plain-then-flatten-nested":       "message Outer { message A { B b = 1; B b2 = 2 [(j5.ext.v1.field).object.flatten = true]; } message B { A a = 1 [(j5.ext.v1.field).object.flatten = true]; string x = 2; } A a = 1; }",
		"self-flatten-nested":             "message Outer { message Node { Node next = 1 [(j5.ext.v1.field).message.flatten = true]; string x = 2; } Node node = 1; }",
		"flatten-twice-through-cycle":     "message A { B b1 = 1 [(j5.ext.v1.field).message.flatten = true]; B b2 = 2 [(j5.ext.v1.field).message.flatten = true]; }\nmessage B { string name = 1; A back = 2; }",
		"flatten-collision-through-cycle": "message A { B b = 1 [(j5.ext.v1.field).object.flatten = true]; string name = 2; }\nmessage B { string name = 1; oneof pick { A back = 2; string other = 3; } }",
		"deep-nesting":                    "message A { message B { message C { message D { string s = 1; } D d = 1; } C c = 1; } B b = 1; }",
	}
	for _, name := range rt.SortedKeys(recShapes) {
		decls := recShapes[name]
		r.Do("sys/shape/"+name, func(c *rt.C) {
			src := fmt.Sprintf(arbHeader, "verif.arb.v1") + decls + "\n"
			c18CheckSource(c, "verif/arb/v1/shape.proto", src, "systematic-shape")
		})
	}
	// --- several packages: what fails in one must not leak into what is asked next -----------------------
	bad := map[string]string{
		"map-int-key":   "message Bad { map<int32, string> m = 1; }",
		"fixed64":       "message Bad { fixed64 f = 1; }",
		"self-flatten":  "message Bad { Bad next = 1 [(j5.ext.v1.field).object.flatten = true]; }",
		"wrapper-empty": "message Bad { option (j5.ext.v1.message).oneof = {}; }",
	}
	for _, name := range rt.SortedKeys(bad) {
		decl := bad[name]
		r.Do("sys/shared-cache/"+name, func(c *rt.C) {
			files := map[string]string{
				"verif/dep/v1/dep.proto":   fmt.Sprintf(arbHeader, "verif.dep.v1") + decl + "\nmessage Good { string name = 1; }\nmessage Holder { Bad bad = 1; Good good = 2; }\n",
				"verif/main/v1/main.proto": strings.Replace(fmt.Sprintf(arbHeader, "verif.main.v1"), "syntax = \"proto3\";", "syntax = \"proto3\";\nimport \"verif/dep/v1/dep.proto\";", 1) + "message X { verif.dep.v1.Bad bad = 1; }\nmessage Y { verif.dep.v1.Bad bad = 1; string s = 2; }\nmessage Z { verif.dep.v1.Good good = 1; }\nmessage W { verif.dep.v1.Holder holder = 1; repeated Z zs = 2; }\n",
			}
			c18CheckFiles(c, files, "shared-cache")
		})
	}
	// --- random files ----------------------------------------------------------------------------------------------
	for b := 0; b < r.Scale(1200, 400000); b++ {
		r.Do(fmt.Sprintf("rand/%d", b), func(c *rt.C) {
			rng := c.Rand()
			optProb := []int{0, 2, 4, 8}[b%4]
			src := genArbitraryProto(rng, fmt.Sprintf("verif.arb%d.v1", b%50), optProb)
			c18CheckSource(c, fmt.Sprintf("verif/arb%d/v1/rand.proto", b%50), src, "random")
		})
	}
}
