//go:build verif

package props

import (
	"fmt"
	"regexp"
	"strings"

	"buf.build/gen/go/bufbuild/protovalidate/protocolbuffers/go/buf/validate"
	"github.com/pentops/j5/gen/j5/client/v1/client_j5pb"
	"github.com/pentops/j5/gen/j5/ext/v1/ext_j5pb"
	"github.com/pentops/j5/gen/j5/messaging/v1/messaging_j5pb"
	"github.com/pentops/j5/gen/j5/schema/v1/schema_j5pb"
	"github.com/pentops/j5/gen/j5/source/v1/source_j5pb"
	"github.com/pentops/j5/internal/j5client"
	"github.com/pentops/j5/internal/structure"
	"github.com/pentops/j5/internal/verifh/rt"
	"google.golang.org/protobuf/proto"
	"google.golang.org/protobuf/types/descriptorpb"
)

// C17: the expansion of an entity declaration, observed on the compiled
// descriptors (CompilePackage output) and on the client API derived from them.
// The expectation is computed from the generator's own plan of the entity:
// names from its word list, keys / statuses / events / commands / summaries as
// declared.

func init() { Registry["C17"] = runC17 }

// plainCamel: names that every case convention spells the same way
var plainCamel = regexp.MustCompile(`^([A-Z][a-z]+)+$`)

type c17Index struct {
	msgs  map[string]*descriptorpb.DescriptorProto
	enums map[string]*descriptorpb.EnumDescriptorProto
	svcs  map[string]*descriptorpb.ServiceDescriptorProto
	// services per proto package in file order
	svcByPkg map[string][]string
}

func c17IndexOf(files []*descriptorpb.FileDescriptorProto) *c17Index {
	ix := &c17Index{msgs: map[string]*descriptorpb.DescriptorProto{}, enums: map[string]*descriptorpb.EnumDescriptorProto{}, svcs: map[string]*descriptorpb.ServiceDescriptorProto{}, svcByPkg: map[string][]string{}}
	var walk func(prefix string, ms []*descriptorpb.DescriptorProto)
	walk = func(prefix string, ms []*descriptorpb.DescriptorProto) {
		for _, m := range ms {
			full := prefix + "." + m.GetName()
			ix.msgs[full] = m
			for _, e := range m.EnumType {
				ix.enums[full+"."+e.GetName()] = e
			}
			walk(full, m.NestedType)
		}
	}
	for _, f := range files {
		walk(f.GetPackage(), f.MessageType)
		for _, e := range f.EnumType {
			ix.enums[f.GetPackage()+"."+e.GetName()] = e
		}
		for _, s := range f.Service {
			ix.svcs[f.GetPackage()+"."+s.GetName()] = s
			ix.svcByPkg[f.GetPackage()] = append(ix.svcByPkg[f.GetPackage()], s.GetName())
		}
	}
	return ix
}

func psmOf(m *descriptorpb.DescriptorProto) *ext_j5pb.PSMOptions {
	if m.Options == nil || !proto.HasExtension(m.Options, ext_j5pb.E_Psm) {
		return nil
	}
	return proto.GetExtension(m.Options, ext_j5pb.E_Psm).(*ext_j5pb.PSMOptions)
}

func fieldRequired(f *descriptorpb.FieldDescriptorProto) bool {
	if f.Options == nil || !proto.HasExtension(f.Options, validate.E_Field) {
		return false
	}
	return proto.GetExtension(f.Options, validate.E_Field).(*validate.FieldConstraints).GetRequired()
}

func fieldFlatten(f *descriptorpb.FieldDescriptorProto) bool {
	if f.Options == nil || !proto.HasExtension(f.Options, ext_j5pb.E_Field) {
		return false
	}
	return proto.GetExtension(f.Options, ext_j5pb.E_Field).(*ext_j5pb.FieldOptions).GetObject().GetFlatten()
}

func fieldPrimary(f *descriptorpb.FieldDescriptorProto) bool {
	if f.Options == nil || !proto.HasExtension(f.Options, ext_j5pb.E_Key) {
		return false
	}
	return proto.GetExtension(f.Options, ext_j5pb.E_Key).(*ext_j5pb.PSMKeyFieldOptions).GetPrimaryKey()
}

func fieldNames(m *descriptorpb.DescriptorProto) []string {
	out := []string{}
	for _, f := range m.Field {
		out = append(out, f.GetName())
	}
	return out
}

type c17Reporter struct {
	c   *rt.C
	id  string
	ent string
	det func() map[string]any
}

func (r *c17Reporter) bad(sig, format string, args ...any) {
	r.c.Violate("entity/"+sig, fmt.Sprintf("%s: entity %s: %s", r.id, r.ent, fmt.Sprintf(format, args...)), r.det())
}

func pathParamsOf(path string) []string {
	var out []string
	for _, part := range strings.Split(path, "/") {
		if strings.HasPrefix(part, "{") && strings.HasSuffix(part, "}") {
			out = append(out, part[1:len(part)-1])
		}
	}
	return out
}

func c17Descriptors(c *rt.C, p *jEntityPlan, ix *c17Index, id string, det func() map[string]any) {
	r := &c17Reporter{c: c, id: id, ent: p.E.Name, det: det}
	C, P := p.Names.Camel, p.Pkg
	c.Event("entities_checked")
	c.Feature(fmt.Sprintf("c17:name-style/%s", map[bool]string{true: "multi-word", false: "single-word"}[len(p.Names.Words) > 1]))
	switch p.E.Name {
	case p.Names.Camel:
		c.Feature("c17:name-case/UpperCamel")
	case p.Names.Lower:
		c.Feature("c17:name-case/lowerCamel")
	case p.Names.Snake:
		c.Feature("c17:name-case/snake")
	}
	entityNames := map[string][]string{} // annotation value -> where seen

	// ---- the six schemas -----------------------------------------------------------------------------
	parts := map[string]schema_j5pb.EntityPart{"Keys": schema_j5pb.EntityPart_KEYS, "Data": schema_j5pb.EntityPart_DATA, "State": schema_j5pb.EntityPart_STATE, "Event": schema_j5pb.EntityPart_EVENT}
	for _, suffix := range []string{"Keys", "Data", "State", "EventType", "Event"} {
		m := ix.msgs[P+"."+C+suffix]
		if m == nil {
			r.bad("schema-missing/"+suffix, "no message %s.%s%s", P, C, suffix)
			continue
		}
		if part, ok := parts[suffix]; ok {
			psm := psmOf(m)
			if psm == nil {
				r.bad("annotation-missing/"+suffix, "%s%s carries no (j5.ext.v1.psm) annotation", C, suffix)
				continue
			}
			entityNames[psm.EntityName] = append(entityNames[psm.EntityName], C+suffix)
			if psm.EntityPart == nil || *psm.EntityPart != part {
				r.bad("annotation-part/"+suffix, "%s%s is annotated as part %v", C, suffix, psm.EntityPart)
			}
		}
	}
	status := ix.enums[P+"."+C+"Status"]
	if status == nil {
		r.bad("schema-missing/Status", "no enum %s.%sStatus", P, C)
	} else {
		want := []string{p.Names.Scream + "_STATUS_UNSPECIFIED"}
		for _, s := range p.E.Statuses {
			want = append(want, p.Names.Scream+"_STATUS_"+s)
		}
		var got []string
		numbered := true
		for i, v := range status.Value {
			got = append(got, v.GetName())
			if int(v.GetNumber()) != i {
				numbered = false
			}
		}
		if !sameStrings(got, want) || !numbered {
			r.bad("status-values", "statuses %v compile to %v (numbered in order: %v), want %v numbered 0..%d", p.E.Statuses, got, numbered, want, len(want)-1)
		}
		c.Feature(fmt.Sprintf("c17:statuses/%d", len(p.E.Statuses)))
	}

	// ---- Keys: declaration order, primary keys required and marked ------------------------------
	if keys := ix.msgs[P+"."+C+"Keys"]; keys != nil {
		var want []string
		for _, k := range p.E.Keys {
			want = append(want, lowerCamelToSnake(k.Name))
		}
		if got := fieldNames(keys); !sameStrings(got, want) {
			r.bad("keys-fields", "%sKeys holds %v, the declaration lists %v", C, got, want)
		} else {
			for i, k := range p.E.Keys {
				f := keys.Field[i]
				primary := k.T.Primary != nil && *k.T.Primary
				if primary != fieldPrimary(f) {
					r.bad("keys-primary-flag", "key %s is declared primary=%v, the descriptor says %v", k.Name, primary, fieldPrimary(f))
				}
				if primary && !fieldRequired(f) {
					r.bad("keys-primary-not-required", "primary key %s is not required in %sKeys", k.Name, C)
				}
			}
		}
		c.Feature(fmt.Sprintf("c17:keys/%d", len(p.E.Keys)))
		c.Feature(fmt.Sprintf("c17:primary-keys/%d", len(p.PrimaryKeys)))
	}
	if data := ix.msgs[P+"."+C+"Data"]; data != nil {
		var want []string
		for _, f := range p.E.Data {
			want = append(want, lowerCamelToSnake(f.Name))
		}
		if got := fieldNames(data); !sameStrings(got, want) {
			r.bad("data-fields", "%sData holds %v, the declaration lists %v", C, got, want)
		}
		if len(p.E.Data) == 0 {
			c.Feature("c17:data/none")
		} else {
			c.Feature("c17:data/some")
		}
	}

	// ---- State and Event ----------------------------------------------------------------------------------
	type wantField struct {
		name, typ string
		flatten   bool
	}
	shape := func(suffix string, want []wantField) {
		m := ix.msgs[P+"."+C+suffix]
		if m == nil {
			return
		}
		if len(m.Field) != len(want) {
			r.bad("shape/"+suffix, "%s%s holds %v, want %d fields", C, suffix, fieldNames(m), len(want))
			return
		}
		for i, w := range want {
			f := m.Field[i]
			if f.GetName() != w.name || f.GetTypeName() != w.typ {
				r.bad("shape/"+suffix+"/"+w.name, "field %d of %s%s is %s %s, want %s %s", i+1, C, suffix, f.GetTypeName(), f.GetName(), w.typ, w.name)
			}
			if fieldFlatten(f) != w.flatten {
				r.bad("shape/"+suffix+"/"+w.name+"-flatten", "field %s of %s%s has flatten=%v, want %v", w.name, C, suffix, fieldFlatten(f), w.flatten)
			}
		}
	}
	shape("State", []wantField{{"metadata", ".j5.state.v1.StateMetadata", false}, {"keys", "." + P + "." + C + "Keys", true}, {"data", "." + P + "." + C + "Data", false}, {"status", "." + P + "." + C + "Status", false}})
	shape("Event", []wantField{{"metadata", ".j5.state.v1.EventMetadata", false}, {"keys", "." + P + "." + C + "Keys", true}, {"event", "." + P + "." + C + "EventType", false}})

	// ---- the event oneof ------------------------------------------------------------------------------------
	if et := ix.msgs[P+"."+C+"EventType"]; et != nil {
		var wantFields, wantNested []string
		for _, ev := range p.E.Events {
			wantFields = append(wantFields, lowerCamelToSnake(strings.ToLower(ev.Name[:1])+ev.Name[1:]))
			wantNested = append(wantNested, ev.Name)
		}
		var nested []string
		for _, n := range et.NestedType {
			nested = append(nested, n.GetName())
		}
		// the statement fixes the number of options and the message each points at; how an option is spelled is only
		// compared for plain CamelCase event names (URLChanged -> urlchanged is the compiler's business)
		plain := true
		for _, ev := range p.E.Events {
			if !plainCamel.MatchString(ev.Name) {
				plain = false
			}
		}
		if got := fieldNames(et); len(got) != len(wantFields) || (plain && !sameStrings(got, wantFields)) {
			r.bad("event-options", "%sEventType has options %v for the declared events %v", C, got, wantNested)
		} else {
			for i, f := range et.Field {
				if f.GetTypeName() != "."+P+"."+C+"EventType."+wantNested[i] {
					r.bad("event-option-type", "option %s of %sEventType points at %s, want the nested message %s", f.GetName(), C, f.GetTypeName(), wantNested[i])
				}
				if f.OneofIndex == nil || f.GetProto3Optional() {
					r.bad("event-option-not-in-oneof", "option %s of %sEventType is not a member of the oneof", f.GetName(), C)
				}
			}
		}
		if !sameStrings(nested, wantNested) {
			r.bad("event-nested", "%sEventType nests %v for the declared events %v", C, nested, wantNested)
		}
		c.Feature(fmt.Sprintf("c17:events/%d", len(p.E.Events)))
	}

	// ---- query service ---------------------------------------------------------------------------------------
	base := "/" + strings.ReplaceAll(P, ".", "/") + "/" + p.Names.Snake
	snakeAll := func(xs []string) []string {
		out := []string{}
		for _, x := range xs {
			out = append(out, lowerCamelToSnake(x))
		}
		return out
	}
	isKey := map[string]bool{}
	for _, k := range p.E.Keys {
		isKey[lowerCamelToSnake(k.Name)] = true
	}
	q := ix.svcs[P+".service."+C+"QueryService"]
	if q == nil {
		r.bad("query-missing", "no service %s.service.%sQueryService", P, C)
	} else {
		if q.Options != nil && proto.HasExtension(q.Options, ext_j5pb.E_Service) {
			so := proto.GetExtension(q.Options, ext_j5pb.E_Service).(*ext_j5pb.ServiceOptions)
			if sq := so.GetStateQuery(); sq != nil {
				entityNames[sq.Entity] = append(entityNames[sq.Entity], C+"QueryService")
			} else {
				r.bad("query-annotation", "%sQueryService is not annotated as a state query", C)
			}
		} else {
			r.bad("query-annotation", "%sQueryService carries no (j5.ext.v1.service) annotation", C)
		}
		var names []string
		for _, m := range q.Method {
			names = append(names, m.GetName())
		}
		if want := []string{C + "Get", C + "List", C + "Events"}; !sameStrings(names, want) {
			r.bad("query-methods", "%sQueryService has methods %v, want %v", C, names, want)
		} else {
			for i, m := range q.Method {
				verb, path, _ := httpRuleOf(m)
				if verb != "GET" {
					r.bad("query-verb", "%s is %s, want GET", m.GetName(), verb)
				}
				if !strings.HasPrefix(path, base+"/q") {
					r.bad("query-path-base", "%s has path %q, want it under %q", m.GetName(), path, base+"/q")
				}
				params := pathParamsOf(path)
				for _, pp := range params {
					if !isKey[pp] {
						r.bad("query-path-unknown-key", "%s has path parameter %q which is not a declared key", m.GetName(), pp)
					}
				}
				if i == 0 || i == 2 {
					// the primary keys, in declaration order, are path parameters
					var prim []string
					isPrim := map[string]bool{}
					for _, k := range p.PrimaryKeys {
						isPrim[lowerCamelToSnake(k)] = true
					}
					for _, pp := range params {
						if isPrim[pp] {
							prim = append(prim, pp)
						}
					}
					if !sameStrings(prim, snakeAll(p.PrimaryKeys)) {
						r.bad("query-path-primary-keys", "%s has path %q: primary keys in it %v, declared %v", m.GetName(), path, prim, snakeAll(p.PrimaryKeys))
					}
					if want := snakeAll(p.PathKeys); !sameStrings(params, want) {
						r.bad("query-path-keys", "%s has path parameters %v, the declared primary and shard keys are %v", m.GetName(), params, want)
					}
					if i == 2 && !strings.HasSuffix(path, "/events") {
						r.bad("query-events-path", "%s has path %q, want it to end in /events", m.GetName(), path)
					}
					// the request carries exactly these keys (before page / query)
					req := ix.msgs[P+".service."+m.GetName()+"Request"]
					if req == nil {
						r.bad("query-request-missing", "no request message for %s", m.GetName())
					} else {
						got := fieldNames(req)
						want := snakeAll(p.PathKeys)
						if i == 2 {
							want = append(want, "page", "query")
						}
						if !sameStrings(got, want) {
							r.bad("query-request-fields", "%sRequest holds %v, want %v", m.GetName(), got, want)
						}
					}
				}
				var sq *ext_j5pb.StateQueryMethodOptions
				if m.Options != nil && proto.HasExtension(m.Options, ext_j5pb.E_Method) {
					sq = proto.GetExtension(m.Options, ext_j5pb.E_Method).(*ext_j5pb.MethodOptions).GetStateQuery()
				}
				okPart := sq != nil && [](bool){sq.GetGet(), sq.GetList(), sq.GetListEvents()}[i]
				if !okPart {
					r.bad("query-method-annotation", "%s is not annotated as the %s part of the state query", m.GetName(), []string{"get", "list", "list_events"}[i])
				}
			}
		}
		if res := ix.msgs[P+".service."+C+"GetResponse"]; res != nil {
			want := []string{p.Names.Snake}
			if p.E.EventsInGet {
				want = append(want, "events")
				c.Feature("c17:events-in-get")
			}
			if got := fieldNames(res); !sameStrings(got, want) {
				r.bad("query-get-response", "%sGetResponse holds %v, want %v", C, got, want)
			} else if res.Field[0].GetTypeName() != "."+P+"."+C+"State" {
				r.bad("query-get-response", "%sGetResponse.%s is %s, want the state", C, want[0], res.Field[0].GetTypeName())
			}
		}
	}
	if len(p.ListKeys) > 0 {
		c.Feature("c17:shard-key")
	}

	// ---- command services --------------------------------------------------------------------------------
	for i, cs := range p.E.Commands {
		name := p.CommandSvc[i] + "Service"
		s := ix.svcs[P+".service."+name]
		if s == nil {
			r.bad("command-missing", "no service %s.service.%s for the declared command", P, name)
			continue
		}
		if s.Options != nil && proto.HasExtension(s.Options, ext_j5pb.E_Service) {
			if sc := proto.GetExtension(s.Options, ext_j5pb.E_Service).(*ext_j5pb.ServiceOptions).GetStateCommand(); sc != nil {
				entityNames[sc.Entity] = append(entityNames[sc.Entity], name)
			} else {
				r.bad("command-annotation", "%s is not annotated as a state command", name)
			}
		} else {
			r.bad("command-annotation", "%s carries no (j5.ext.v1.service) annotation", name)
		}
		var got, want []string
		for _, m := range s.Method {
			got = append(got, m.GetName())
		}
		for _, m := range cs.Methods {
			want = append(want, m.Name)
		}
		if !sameStrings(got, want) {
			r.bad("command-methods", "%s has methods %v, declared %v", name, got, want)
		}
	}
	c.Feature(fmt.Sprintf("c17:commands/%d", len(p.E.Commands)))

	// ---- topics ------------------------------------------------------------------------------------------------
	full := P + "." + C
	for ti, tn := range p.TopicNames {
		s := ix.svcs[P+".topic."+tn+"Topic"]
		if s == nil {
			r.bad("topic-missing", "no topic service %s.topic.%sTopic", P, tn)
			continue
		}
		var cfg *messaging_j5pb.ServiceConfig
		if s.Options != nil && proto.HasExtension(s.Options, messaging_j5pb.E_Service) {
			cfg = proto.GetExtension(s.Options, messaging_j5pb.E_Service).(*messaging_j5pb.ServiceConfig)
		}
		if ti == 0 {
			if cfg.GetEvent() == nil {
				r.bad("topic-role/publish", "%sTopic is not an event-publishing topic", tn)
			} else if cfg.GetEvent().EntityName != full {
				r.bad("topic-entity/publish", "%sTopic names entity %q, want %q", tn, cfg.GetEvent().EntityName, full)
			}
			if len(s.Method) != 1 || s.Method[0].GetInputType() != "."+P+".topic."+C+"EventMessage" {
				r.bad("topic-message/publish", "%sTopic does not carry exactly the %sEventMessage", tn, C)
			}
		} else {
			if cfg.GetUpsert() == nil {
				r.bad("topic-role/summary", "%sTopic is not an upsert topic", tn)
			} else if cfg.GetUpsert().EntityName != full {
				r.bad("topic-entity/summary", "%sTopic names entity %q, want %q", tn, cfg.GetUpsert().EntityName, full)
			}
			if len(s.Method) != 1 || s.Method[0].GetInputType() != "."+P+".topic."+tn+"Message" {
				r.bad("topic-message/summary", "%sTopic does not carry exactly the %sMessage", tn, tn)
			}
		}
	}
	c.Feature(fmt.Sprintf("c17:summaries/%d", len(p.E.Summary)))
	// ---- one annotation value everywhere ---------------------------------------------------------
	if len(entityNames) != 1 || len(entityNames[p.Names.Snake]) == 0 {
		r.bad("annotation-differs", "the parts do not carry one entity name %q: %v", p.Names.Snake, entityNames)
	}
}

func c17Client(c *rt.C, p *jEntityPlan, client *client_j5pb.API, id string, det func() map[string]any) {
	r := &c17Reporter{c: c, id: id, ent: p.E.Name, det: det}
	var ent *client_j5pb.StateEntity
	for _, pkg := range client.Packages {
		if pkg.Name != p.Pkg {
			continue
		}
		for _, e := range pkg.StateEntities {
			if e.Name == p.Names.Snake {
				ent = e
			}
		}
	}
	if ent == nil {
		r.bad("client/missing", "the client API of %s lists no state entity %q", p.Pkg, p.Names.Snake)
		return
	}
	c.Event("client_entities_checked")
	if ent.FullName != p.Pkg+"/"+p.Names.Snake {
		r.bad("client/full-name", "client full name %q, want %q", ent.FullName, p.Pkg+"/"+p.Names.Snake)
	}
	if ent.SchemaName != p.Pkg+"."+p.Names.Camel+"State" {
		r.bad("client/schema-name", "client schema name %q, want %q", ent.SchemaName, p.Pkg+"."+p.Names.Camel+"State")
	}
	if !sameStrings(ent.PrimaryKey, p.PrimaryKeys) && !(len(ent.PrimaryKey) == 0 && len(p.PrimaryKeys) == 0) {
		r.bad("client/primary-key", "client primary key %v, declared %v", ent.PrimaryKey, p.PrimaryKeys)
	}
	var ev, wantEv []string
	for _, e := range ent.Events {
		ev = append(ev, e.Name)
	}
	for _, e := range p.E.Events {
		wantEv = append(wantEv, strings.ToLower(e.Name[:1])+e.Name[1:])
	}
	plainEv := true
	for _, e := range p.E.Events {
		if !plainCamel.MatchString(e.Name) {
			plainEv = false
		}
	}
	if len(ev) != len(wantEv) || (plainEv && !sameStrings(ev, wantEv)) {
		r.bad("client/events", "client events %v, declared %v", ev, wantEv)
	}
	if ent.QueryService == nil || len(ent.QueryService.Methods) != 3 {
		r.bad("client/query", "the client entity has no query service with Get, List and Events")
	} else {
		for i, m := range ent.QueryService.Methods {
			want := []client_j5pb.StateQueryPart{client_j5pb.StateQueryPart_STATE_QUERY_PART_GET, client_j5pb.StateQueryPart_STATE_QUERY_PART_LIST, client_j5pb.StateQueryPart_STATE_QUERY_PART_LIST_EVENTS}[i]
			if m.GetMethodType().GetStateQuery().GetQueryPart() != want {
				r.bad("client/query-part", "client query method %s is part %v, want %v", m.Name, m.GetMethodType().GetStateQuery().GetQueryPart(), want)
			}
			if i != 1 && m.Request != nil {
				if got := propNames(m.Request.PathParameters); !sameStrings(got, p.PathKeys) {
					r.bad("client/query-path-parameters", "client %s has path parameters %v, declared primary and shard keys %v", m.Name, got, p.PathKeys)
				}
			}
		}
	}
	var cmds []string
	for _, s := range ent.CommandServices {
		cmds = append(cmds, s.Name)
	}
	var wantCmds []string
	for _, n := range p.CommandSvc {
		wantCmds = append(wantCmds, n+"Service")
	}
	if !sameStrings(sortedCopy(cmds), sortedCopy(wantCmds)) {
		r.bad("client/commands", "client command services %v, declared %v", cmds, wantCmds)
	}
}

func c17Bundle(c *rt.C, b *jBundle, plans []*jEntityPlan, id, class string) {
	src := b.sources()
	mb := newMemBundle(src)
	det := func() map[string]any { d := srcDetail(src); d["id"] = id; return d }
	c.Feature("c17:" + class)
	var all []*descriptorpb.FileDescriptorProto
	c.Input(bundleBytes(src))
	for _, pkg := range mb.packages {
		var cp *compiledPackage
		var err error
		ok, _, _, _ := rt.Guard(func() { cp, err = compileBundlePackage(mb, pkg) })
		if !ok || err != nil {
			c.EndBudget()
			c.Event("bundle_does_not_compile") // acceptance is C07's subject
			if err != nil {
				c.Feature("c17:compile-failed/" + errSig(err))
				if c.Runner().Arg("show", "") != "" {
					fmt.Printf("COMPILE-FAIL %s: %v\n%s\n", id, err, bundleBytes(src))
				}
			}
			return
		}
		all = append(all, typedProtos(cp.Protos)...)
	}
	c.EndBudget()
	c.Eval(rt.Hash(id, string(bundleBytes(src))), len(plans) > 0)
	ix := c17IndexOf(all)
	for _, p := range plans {
		c17Descriptors(c, p, ix, id, det)
	}
	// nothing beside the declared services and topics is emitted
	wantSvc := map[string]bool{}
	for _, f := range b.Files {
		for _, e := range f.Elems {
			if e.Service != nil {
				wantSvc[f.Pkg+".service."+e.Service.Name+"Service"] = true
			}
			if e.Topic != nil {
				wantSvc[f.Pkg+".topic."+e.Topic.Name+"Topic"] = true
				if e.Topic.Type == "reqres" {
					delete(wantSvc, f.Pkg+".topic."+e.Topic.Name+"Topic")
					wantSvc[f.Pkg+".topic."+e.Topic.Name+"RequestTopic"] = true
					wantSvc[f.Pkg+".topic."+e.Topic.Name+"ReplyTopic"] = true
				}
			}
		}
	}
	for _, p := range plans {
		wantSvc[p.Pkg+".service."+p.Names.Camel+"QueryService"] = true
		for _, n := range p.CommandSvc {
			wantSvc[p.Pkg+".service."+n+"Service"] = true
		}
		for _, n := range p.TopicNames {
			wantSvc[p.Pkg+".topic."+n+"Topic"] = true
		}
	}
	for _, full := range rt.SortedKeys(ix.svcs) {
		if !wantSvc[full] {
			c.Violate("entity/undeclared-service", fmt.Sprintf("%s: the compiled package holds service %s, which no declaration accounts for (declared: %v)", id, full, rt.SortedKeys(wantSvc)), det())
		}
	}
	// the client API derived from the same descriptors
	var img *source_j5pb.SourceImage
	var err error
	ok, _, _, _ := rt.Guard(func() { img, err = bundleImage(mb) })
	if !ok || err != nil {
		return
	}
	var client *client_j5pb.API
	ok, pv, fn, st := rt.Guard(func() {
		var api *source_j5pb.API
		api, err = structure.APIFromImage(img)
		if err == nil {
			client, err = j5client.APIFromSource(api)
		}
	})
	if !ok {
		d := det()
		d["stack"] = st
		c.Violate("entity/client-panic/"+fn, fmt.Sprintf("%s: deriving the client API panicked: %v", id, pv), d)
		return
	}
	if err != nil {
		c.Violate("entity/client-error/"+errSig(err), fmt.Sprintf("%s: the client API cannot be derived from the expanded entities: %v", id, err), det())
		return
	}
	for _, p := range plans {
		c17Client(c, p, client, id, det)
	}
	if c.WantSample() {
		d := det()
		var names []string
		for _, p := range plans {
			names = append(names, fmt.Sprintf("%s (%d keys, %d primary, %d events, %d commands, %d summaries)", p.E.Name, len(p.E.Keys), len(p.PrimaryKeys), len(p.E.Events), len(p.E.Commands), len(p.E.Summary)))
		}
		d["entities"] = names
		c.Sample(d)
	}
}

// c17Consistency checks what does not depend on any naming convention: the
// expansion compiles, every annotation carries one entity name, and the client
// API derived from it lists exactly one entity with its three query methods.
func c17Consistency(c *rt.C, name string, id string) { c17ConsistencyKeys(c, name, "", id) }

// c17ConsistencyKeys: keyName, when set, renames the first primary key (and the command fields that repeat it) to a
// name whose case conversion is not a round trip; what the client API says about keys is then compared with the
// declared (JSON) names only.
func c17ConsistencyKeys(c *rt.C, name, keyName, id string) {
	g := &j5Gen{rng: c.Rand()}
	p := g.entityPlan("solo.v1", nil, 0, 1)
	if name != "" {
		p.E.Name = name
	}
	if keyName != "" {
		old := p.PrimaryKeys[0]
		// no other key may map to the same proto field name (orderID and orderId are both order_id)
		for _, k := range p.E.Keys {
			if k.Name != old && strings.EqualFold(k.Name, keyName) {
				c.Feature("c17:unusual-key-skipped/name-clash")
				return
			}
		}
		rename := func(fs []*jF) {
			for _, f := range fs {
				if f.Name == old {
					f.Name = keyName
				}
			}
		}
		rename(p.E.Keys)
		if p.E.Shard[old] {
			delete(p.E.Shard, old)
			p.E.Shard[keyName] = true
		}
		for _, cs := range p.E.Commands {
			for _, m := range cs.Methods {
				rename(m.Req)
				m.Path = strings.ReplaceAll(m.Path, ":"+old+"/", ":"+keyName+"/")
			}
		}
		for _, sum := range p.E.Summary {
			rename(sum)
		}
		for i, k := range p.PrimaryKeys {
			if k == old {
				p.PrimaryKeys[i] = keyName
			}
		}
		for i, k := range p.PathKeys {
			if k == old {
				p.PathKeys[i] = keyName
			}
		}
		name = p.E.Name
	}
	for _, cs := range p.E.Commands {
		for _, m := range cs.Methods {
			m.HasRes, m.Res = false, nil // the planned responses name the state by the planned entity name
		}
	}
	b := &jBundle{Files: []*jFile{{Path: "solo/v1/entity.j5s", Pkg: "solo.v1", Elems: []*jElem{{Entity: p.E}}}}}
	src := b.sources()
	mb := newMemBundle(src)
	det := func() map[string]any { d := srcDetail(src); d["id"] = id; return d }
	c.Feature("c17:unusual-names")
	var cp *compiledPackage
	var err error
	ok, pv, fn, st := rt.Guard(func() { cp, err = compileBundlePackage(mb, "solo.v1") })
	if !ok {
		d := det()
		d["stack"] = st
		c.Violate("entity/unusual-name/compile-panic/"+fn, fmt.Sprintf("%s: compiling entity %q panicked: %v", id, name, pv), d)
		return
	}
	c.Eval(rt.Hash(id, name), true)
	if err != nil {
		c.Violate("entity/unusual-name/rejected/"+errSig(err), fmt.Sprintf("%s: the expansion of entity %q does not compile: %v", id, name, rt.Clip(err.Error(), 400)), det())
		return
	}
	ix := c17IndexOf(typedProtos(cp.Protos))
	names := map[string][]string{}
	parts := map[schema_j5pb.EntityPart]int{}
	for full, m := range ix.msgs {
		if psm := psmOf(m); psm != nil {
			names[psm.EntityName] = append(names[psm.EntityName], full)
			if psm.EntityPart != nil {
				parts[*psm.EntityPart]++
			}
		}
	}
	for full, s := range ix.svcs {
		if s.Options != nil && proto.HasExtension(s.Options, ext_j5pb.E_Service) {
			so := proto.GetExtension(s.Options, ext_j5pb.E_Service).(*ext_j5pb.ServiceOptions)
			if sq := so.GetStateQuery(); sq != nil {
				names[sq.Entity] = append(names[sq.Entity], full)
			}
			if sc := so.GetStateCommand(); sc != nil {
				names[sc.Entity] = append(names[sc.Entity], full)
			}
		}
	}
	// the topics generated for the entity name it in their annotation: whatever the case rules of the compiler make of the
	// declared name, it has to be the same entity everywhere (the KEYS part <X>Keys is the reference). How the topic
	// services themselves are spelled is not judged here (entity aB: ABKeys beside AbpublishTopic on the unchanged tree)
	keysFull := ""
	for full, m := range ix.msgs {
		if psm := psmOf(m); psm != nil && psm.EntityPart != nil && *psm.EntityPart == schema_j5pb.EntityPart_KEYS {
			keysFull = full
		}
	}
	if strings.HasSuffix(keysFull, "Keys") {
		wantFull := strings.TrimSuffix(keysFull, "Keys")
		for full, s := range ix.svcs {
			if s.Options == nil || !proto.HasExtension(s.Options, messaging_j5pb.E_Service) {
				continue
			}
			cfg := proto.GetExtension(s.Options, messaging_j5pb.E_Service).(*messaging_j5pb.ServiceConfig)
			got := ""
			switch {
			case cfg.GetEvent() != nil:
				got = cfg.GetEvent().EntityName
			case cfg.GetUpsert() != nil:
				got = cfg.GetUpsert().EntityName
			default:
				continue
			}
			c.Event("unusual_name_topics_checked")
			if got != wantFull {
				c.Violate("entity/unusual-name/topic-entity", fmt.Sprintf("%s: topic %s of entity %q names entity %q, the entity's key message is %s", id, full, name, got, keysFull), det())
			}
		}
	}
	if len(names) != 1 {
		c.Violate("entity/unusual-name/annotation-differs", fmt.Sprintf("%s: the parts of entity %q carry different entity names: %v", id, name, names), det())
	}
	for _, part := range []schema_j5pb.EntityPart{schema_j5pb.EntityPart_KEYS, schema_j5pb.EntityPart_DATA, schema_j5pb.EntityPart_STATE, schema_j5pb.EntityPart_EVENT} {
		if parts[part] != 1 {
			c.Violate("entity/unusual-name/parts", fmt.Sprintf("%s: entity %q has %d messages annotated as %v", id, name, parts[part], part), det())
		}
	}
	var img *source_j5pb.SourceImage
	ok, _, _, _ = rt.Guard(func() { img, err = bundleImage(mb) })
	if !ok || err != nil {
		return
	}
	var client *client_j5pb.API
	ok, pv, fn, st = rt.Guard(func() {
		var api *source_j5pb.API
		api, err = structure.APIFromImage(img)
		if err == nil {
			client, err = j5client.APIFromSource(api)
		}
	})
	if !ok {
		d := det()
		d["stack"] = st
		c.Violate("entity/unusual-name/client-panic/"+fn, fmt.Sprintf("%s: deriving the client API of entity %q panicked: %v", id, name, pv), d)
		return
	}
	if err != nil {
		c.Violate("entity/unusual-name/client-error/"+errSig(err), fmt.Sprintf("%s: the client API of entity %q cannot be derived: %v", id, name, err), det())
		return
	}
	n := 0
	for _, pkg := range client.Packages {
		for _, e := range pkg.StateEntities {
			n++
			if e.QueryService == nil || len(e.QueryService.Methods) != 3 {
				c.Violate("entity/unusual-name/client-query", fmt.Sprintf("%s: the client entity of %q has no three-method query service", id, name), det())
			}
			if len(e.CommandServices) != len(p.E.Commands) {
				c.Violate("entity/unusual-name/client-commands", fmt.Sprintf("%s: the client entity of %q lists %d command services, declared %d", id, name, len(e.CommandServices), len(p.E.Commands)), det())
			}
			if keyName != "" {
				if !sameStrings(e.PrimaryKey, p.PrimaryKeys) {
					c.Violate("entity/unusual-key/client-primary-key", fmt.Sprintf("%s: client primary key %v, declared %v", id, e.PrimaryKey, p.PrimaryKeys), det())
				}
				if e.QueryService != nil && len(e.QueryService.Methods) == 3 {
					for _, mi := range []int{0, 2} {
						m := e.QueryService.Methods[mi]
						if m.Request == nil {
							continue
						}
						if got := propNames(m.Request.PathParameters); !sameStrings(got, p.PathKeys) {
							c.Violate("entity/unusual-key/client-path-parameters", fmt.Sprintf("%s: client %s (path %s) has path parameters %v, the declared primary and shard keys are %v", id, m.Name, m.HttpPath, got, p.PathKeys), det())
						}
					}
				}
			}
		}
	}
	if n != 1 {
		c.Violate("entity/unusual-name/client-entities", fmt.Sprintf("%s: the client API of entity %q lists %d entities", id, name, n), det())
	}
	c.Event("unusual_names_checked")
}

func runC17(r *rt.Runner) {
	for _, name := range []string{"HTTPThing", "APIKey", "UserID", "OAuth2Client", "fooID", "FooID", "Foo2", "foo2bar", "foo2Bar", "FOO", "X", "aB", "fooBAR", "Foo_Bar", "foo_Bar", "FOO_BAR", "fooBarBaz", "foo_bar_baz", "v1Thing", "Foo9Bar9"} {
		name := name
		r.Do("unusual/"+name, func(c *rt.C) { c17Consistency(c, name, "unusual:"+name) })
	}
	for _, key := range []string{"orderID", "apiURL", "x2", "v2Id", "skuCODE", "id"} {
		key := key
		for rep := 0; rep < 3; rep++ {
			rep := rep
			r.Do(fmt.Sprintf("unusual-key/%s/%d", key, rep), func(c *rt.C) { c17ConsistencyKeys(c, "", key, fmt.Sprintf("unusual-key:%s/%d", key, rep)) })
		}
	}
	// every name style x word count, alone in a package
	for style := 0; style < 3; style++ {
		for words := 1; words <= 3; words++ {
			for rep := 0; rep < 3; rep++ {
				style, words, rep := style, words, rep
				r.Do(fmt.Sprintf("name/%d/%d/%d", style, words, rep), func(c *rt.C) {
					g := &j5Gen{rng: c.Rand()}
					p := g.entityPlan("solo.v1", nil, style, words)
					b := &jBundle{Files: []*jFile{{Path: "solo/v1/entity.j5s", Pkg: "solo.v1", Elems: []*jElem{{Entity: p.E}}}}}
					c17Bundle(c, b, []*jEntityPlan{p}, fmt.Sprintf("name:%d/%d/%d", style, words, rep), "name-styles")
				})
			}
		}
	}
	for i := 0; i < r.Scale(400, 50000); i++ {
		r.Do(fmt.Sprintf("solo/%d", i), func(c *rt.C) {
			g := &j5Gen{rng: c.Rand()}
			p := g.entityPlan("solo.v1", nil, g.rng.Intn(3), 1+g.rng.Intn(3))
			b := &jBundle{Files: []*jFile{{Path: "solo/v1/entity.j5s", Pkg: "solo.v1", Elems: []*jElem{{Entity: p.E}}}}}
			c17Bundle(c, b, []*jEntityPlan{p}, fmt.Sprintf("solo:%d", i), "solo-entity")
		})
	}
	for i := 0; i < r.Scale(200, 25000); i++ {
		r.Do(fmt.Sprintf("api/%d", i), func(c *rt.C) {
			g := &j5Gen{rng: c.Rand()}
			b, plans := g.apiBundle(true, i%3 == 0, g.rng.Intn(7))
			c17Bundle(c, b, plans, fmt.Sprintf("api:%d", i), "entities-in-bundle")
		})
	}
}
