//go:build verif

package props

import (
	"context"
	"fmt"
	"os"
	"sort"
	"strings"

	"github.com/bufbuild/protocompile/linker"
	"github.com/pentops/j5/internal/j5s/protobuild"
	"github.com/pentops/j5/internal/j5s/protoprint"
	"github.com/pentops/j5/internal/verifh/rt"
	"google.golang.org/protobuf/reflect/protodesc"
	"google.golang.org/protobuf/types/descriptorpb"
)

// An in-memory bundle: the LocalFileSource and (empty) DependencySet that
// protobuild.NewPackageSet takes; the same entry points the j5 CLI uses.

type memBundle struct {
	files    map[string]string // path -> content (.j5s and .proto)
	packages []string
	// listing permutation hooks (C14): when set they reorder what the file source returns
	permuteFiles    func([]string) []string
	permutePackages func([]string) []string
}

func newMemBundle(files map[string]string) *memBundle {
	mb := &memBundle{files: files}
	seen := map[string]bool{}
	for p := range files {
		dir := p[:strings.LastIndex(p, "/")]
		pkg := strings.ReplaceAll(dir, "/", ".")
		// sub-directories are not packages of their own unless they hold files directly
		if !seen[pkg] {
			seen[pkg] = true
			mb.packages = append(mb.packages, pkg)
		}
	}
	sort.Strings(mb.packages)
	return mb
}

func (mb *memBundle) GetLocalFile(_ context.Context, name string) ([]byte, error) {
	if s, ok := mb.files[name]; ok {
		return []byte(s), nil
	}
	return nil, os.ErrNotExist
}

func (mb *memBundle) ListPackages() []string {
	out := append([]string{}, mb.packages...)
	if mb.permutePackages != nil {
		out = mb.permutePackages(out)
	}
	return out
}

func (mb *memBundle) ListSourceFiles(_ context.Context, root string) ([]string, error) {
	var out []string
	for p := range mb.files {
		if strings.HasPrefix(p, root) {
			out = append(out, p)
		}
	}
	sort.Strings(out)
	if mb.permuteFiles != nil {
		out = mb.permuteFiles(out)
	}
	return out, nil
}

type noDeps struct{}

func (noDeps) ListDependencyFiles(root string) []string { return nil }
func (noDeps) GetDependencyFile(filename string) (*descriptorpb.FileDescriptorProto, error) {
	return nil, os.ErrNotExist
}

type compiledPackage struct {
	Files  linker.Files
	Protos []*descriptorpb.FileDescriptorProto
}

// compileBundlePackage compiles one package of an in-memory bundle on a fresh PackageSet.
func compileBundlePackage(mb *memBundle, pkg string) (*compiledPackage, error) {
	ps, err := protobuild.NewPackageSet(noDeps{}, mb)
	if err != nil {
		return nil, err
	}
	return compileOn(ps, pkg)
}

func compileOn(ps *protobuild.PackageSet, pkg string) (*compiledPackage, error) {
	files, err := ps.CompilePackage(context.Background(), pkg)
	if err != nil {
		return nil, err
	}
	cp := &compiledPackage{Files: files}
	for _, f := range files {
		cp.Protos = append(cp.Protos, protodesc.ToFileDescriptorProto(f))
	}
	return cp, nil
}

// printPackage renders every compiled file of the package as .proto text.
func printPackage(cp *compiledPackage) (map[string]string, error) {
	out := map[string]string{}
	for _, f := range cp.Files {
		txt, err := protoprint.PrintFile(context.Background(), f, "")
		if err != nil {
			return nil, fmt.Errorf("printing %s: %w", f.Path(), err)
		}
		out[f.Path()] = txt
	}
	return out, nil
}

// printBundle compiles every package of the bundle (one PackageSet) and prints every compiled file.
func printBundle(mb *memBundle) (map[string]string, error) {
	ps, err := protobuild.NewPackageSet(noDeps{}, mb)
	if err != nil {
		return nil, err
	}
	out := map[string]string{}
	for _, pkg := range mb.packages {
		cp, err := compileOn(ps, pkg)
		if err != nil {
			return nil, err
		}
		printed, err := printPackage(cp)
		if err != nil {
			return nil, err
		}
		for p, t := range printed {
			out[p] = t
		}
	}
	return out, nil
}

func init() {
	// developer probe (not a registered check): compile the j5s files named in -args file=<path>[,pkg=<pkg>]
	Registry["PROBE"] = func(r *rt.Runner) {
		r.Do("probe", func(c *rt.C) {
			path := r.Arg("file", "")
			data, err := os.ReadFile(path)
			if err != nil {
				fmt.Println("read:", err)
				return
			}
			// the probe file holds several files separated by lines "=== <path>"
			files := map[string]string{}
			cur := ""
			for _, line := range strings.Split(string(data), "\n") {
				if strings.HasPrefix(line, "=== ") {
					cur = strings.TrimSpace(line[4:])
					files[cur] = ""
					continue
				}
				if cur != "" {
					files[cur] += line + "\n"
				}
			}
			mb := newMemBundle(files)
			for _, pkg := range mb.packages {
				if want := r.Arg("pkg", ""); want != "" && want != pkg {
					continue
				}
				fmt.Println("##### package", pkg)
				var cp *compiledPackage
				ok, pv, fn, st := rt.Guard(func() { cp, err = compileBundlePackage(mb, pkg) })
				if !ok {
					fmt.Println("PANIC", pv, fn, "\n", st)
					continue
				}
				if err != nil {
					fmt.Printf("ERROR (%T): %v\n", err, err)
					continue
				}
				var txt map[string]string
				ok, pv, fn, st = rt.Guard(func() { txt, err = printPackage(cp) })
				if !ok {
					fmt.Println("PRINT PANIC", pv, fn, "\n", st)
					continue
				}
				if err != nil {
					fmt.Println("PRINT ERROR:", err)
					continue
				}
				names := make([]string, 0, len(txt))
				for n := range txt {
					names = append(names, n)
				}
				sort.Strings(names)
				for _, n := range names {
					fmt.Println("-----", n)
					fmt.Println(txt[n])
				}
			}
		})
	}
}
