//go:build verif

package props

import (
	"encoding/base64"
	"fmt"
	"strconv"
	"strings"
	"time"

	"github.com/shopspring/decimal"
	"google.golang.org/protobuf/proto"
	"google.golang.org/protobuf/reflect/protoreflect"
)

// Reference rendering of a message in the documented J5 wire format (README
// "Scalar Types" table, "Oneof", "Enum", flatten), computed from the type
// model and the message — independent of internal/codec and j5reflect.

func semTimestampEq(got, want string) bool {
	if !strings.HasSuffix(got, "Z") {
		return false // documented as UTC
	}
	g, err := time.Parse(time.RFC3339Nano, got)
	if err != nil {
		return false
	}
	w, err := time.Parse(time.RFC3339Nano, want)
	if err != nil {
		return false
	}
	return g.Equal(w)
}

func semDecimalEq(got, want string) bool {
	g, err := decimal.NewFromString(got)
	if err != nil {
		return false
	}
	w, err := decimal.NewFromString(want)
	if err != nil {
		return false
	}
	return g.Equal(w)
}

type refRenderer struct {
	model *tModel
	// resolve decodes the payload of an Any into a message of a modelled type
	resolve func(typeName string, protoBytes []byte) (protoreflect.Message, error)
}

func jS(s string) *jVal { return &jVal{Kind: jStr, Str: s} }

func (r *refRenderer) scalar(kind string, v protoreflect.Value) (*jVal, error) {
	switch kind {
	case kString, kKey:
		return jS(v.String()), nil
	case kBool:
		return &jVal{Kind: jBool, B: v.Bool()}, nil
	case kInt32, kSint32:
		return &jVal{Kind: jNum, Num: strconv.FormatInt(v.Int(), 10)}, nil
	case kUint32:
		return &jVal{Kind: jNum, Num: strconv.FormatUint(v.Uint(), 10)}, nil
	case kInt64, kSint64:
		return jS(strconv.FormatInt(v.Int(), 10)), nil
	case kUint64:
		return jS(strconv.FormatUint(v.Uint(), 10)), nil
	case kFloat:
		return &jVal{Kind: jNum, Num: strconv.FormatFloat(v.Float(), 'g', -1, 32), Sem: "f32"}, nil
	case kDouble:
		return &jVal{Kind: jNum, Num: strconv.FormatFloat(v.Float(), 'g', -1, 64), Sem: "f64"}, nil
	case kBytes:
		return jS(base64.StdEncoding.EncodeToString(v.Bytes())), nil
	case kTimestamp:
		m := v.Message()
		d := m.Descriptor().Fields()
		t := time.Unix(m.Get(d.ByName("seconds")).Int(), m.Get(d.ByName("nanos")).Int()).UTC()
		return &jVal{Kind: jStr, Str: t.Format(time.RFC3339Nano), Sem: "ts"}, nil
	case kDate:
		m := v.Message()
		d := m.Descriptor().Fields()
		return jS(fmt.Sprintf("%04d-%02d-%02d", m.Get(d.ByName("year")).Int(), m.Get(d.ByName("month")).Int(), m.Get(d.ByName("day")).Int())), nil
	case kDecimal:
		m := v.Message()
		return &jVal{Kind: jStr, Str: m.Get(m.Descriptor().Fields().ByName("value")).String(), Sem: "dec"}, nil
	}
	return nil, fmt.Errorf("harness: not a scalar kind %s", kind)
}

func (r *refRenderer) value(tf *tField, v protoreflect.Value) (*jVal, error) {
	switch tf.Kind {
	case kEnum:
		e := r.model.enum(tf.Ref)
		if e == nil {
			return nil, fmt.Errorf("harness: enum %s not in the model", tf.Ref)
		}
		name, ok := e.nameOf(int32(v.Enum()))
		if !ok {
			return nil, fmt.Errorf("harness: enum number %d outside model of %s", v.Enum(), tf.Ref)
		}
		return jS(name), nil
	case kObject, kOneof:
		return r.message(v.Message())
	case kJ5Any:
		m := v.Message()
		d := m.Descriptor().Fields()
		name := m.Get(d.ByName("type_name")).String()
		return r.any(name, m.Get(d.ByName("proto")).Bytes())
	case kPbAny:
		m := v.Message()
		d := m.Descriptor().Fields()
		name := strings.TrimPrefix(m.Get(d.ByName("type_url")).String(), "type.googleapis.com/")
		return r.any(name, m.Get(d.ByName("value")).Bytes())
	}
	return r.scalar(tf.Kind, v)
}

func (r *refRenderer) any(name string, protoBytes []byte) (*jVal, error) {
	inner, err := r.resolve(name, protoBytes)
	if err != nil {
		return nil, err
	}
	iv, err := r.message(inner)
	if err != nil {
		return nil, err
	}
	return &jVal{Kind: jObj, Obj: []jMember{{"!type", jS(name)}, {"value", iv}}}, nil
}

func (r *refRenderer) fieldValue(tf *tField, fd protoreflect.FieldDescriptor, m protoreflect.Message) (*jVal, error) {
	v := m.Get(fd)
	switch tf.Card {
	case "repeated":
		l := v.List()
		arr := &jVal{Kind: jArr, Arr: []*jVal{}}
		for i := 0; i < l.Len(); i++ {
			e, err := r.value(tf, l.Get(i))
			if err != nil {
				return nil, err
			}
			arr.Arr = append(arr.Arr, e)
		}
		return arr, nil
	case "map":
		obj := &jVal{Kind: jObj}
		var err error
		v.Map().Range(func(k protoreflect.MapKey, mv protoreflect.Value) bool {
			var e *jVal
			e, err = r.value(tf, mv)
			if err != nil {
				return false
			}
			obj.Obj = append(obj.Obj, jMember{k.String(), e})
			return true
		})
		return obj, err
	}
	return r.value(tf, v)
}

// members appends the JSON members of message m (of modelled type tm) to out;
// used for objects and, recursively, for flattened children.
func (r *refRenderer) members(tm *tMsg, m protoreflect.Message, out *jVal) error {
	exposed := map[string]bool{}
	for _, g := range tm.Groups {
		if g.Exposed {
			exposed[g.Name] = true
		}
	}
	doneGroup := map[string]bool{}
	for _, tf := range tm.Fields {
		fd := m.Descriptor().Fields().ByName(protoreflect.Name(tf.Name))
		if fd == nil {
			return fmt.Errorf("harness: model field %s not in descriptor", tf.Name)
		}
		if tf.Group != "" && exposed[tf.Group] {
			if doneGroup[tf.Group] || !m.Has(fd) {
				continue
			}
			doneGroup[tf.Group] = true
			v, err := r.fieldValue(tf, fd, m)
			if err != nil {
				return err
			}
			out.Obj = append(out.Obj, jMember{protocJSONName(tf.Group), &jVal{Kind: jObj, Obj: []jMember{{"!type", jS(tf.JSON)}, {tf.JSON, v}}}})
			continue
		}
		if !m.Has(fd) {
			continue
		}
		if tf.Flatten {
			child := r.model.msg(tf.Ref)
			if err := r.members(child, m.Get(fd).Message(), out); err != nil {
				return err
			}
			continue
		}
		v, err := r.fieldValue(tf, fd, m)
		if err != nil {
			return err
		}
		out.Obj = append(out.Obj, jMember{tf.JSON, v})
	}
	return nil
}

func (r *refRenderer) message(m protoreflect.Message) (*jVal, error) {
	tm := r.model.msg(string(m.Descriptor().FullName()))
	if tm == nil {
		return nil, fmt.Errorf("harness: type %s not in model", m.Descriptor().FullName())
	}
	out := &jVal{Kind: jObj}
	if tm.Wrapper {
		for _, tf := range tm.Fields {
			fd := m.Descriptor().Fields().ByName(protoreflect.Name(tf.Name))
			if fd != nil && m.Has(fd) {
				v, err := r.fieldValue(tf, fd, m)
				if err != nil {
					return nil, err
				}
				out.Obj = []jMember{{"!type", jS(tf.JSON)}, {tf.JSON, v}}
				break
			}
		}
		return out, nil
	}
	if err := r.members(tm, m, out); err != nil {
		return nil, err
	}
	return out, nil
}

var _ = proto.Equal
