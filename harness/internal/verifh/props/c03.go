//go:build verif

package props

import (
	"fmt"
	"math/rand"
	"net/url"
	"sort"
	"strings"

	"github.com/pentops/j5/internal/verifh/rt"
	"google.golang.org/protobuf/proto"
	"google.golang.org/protobuf/reflect/protoreflect"
	"google.golang.org/protobuf/types/dynamicpb"
)

func init() { Registry["C03"] = runC03 }

type c03State struct {
	covered map[string]int // (class|kind|pos) -> times exercised in this worker
	budget  int            // per message: sampled (already covered) site mutations still allowed
}

func renderTree(t *jVal, ws string) []byte {
	var sb strings.Builder
	t.render(&sb, ws)
	return []byte(sb.String())
}

// decodeInto runs the monitored decode; returns ok=false when it panicked (reported).
func c03Decode(c *rt.C, env *codecEnv, md protoreflect.MessageDescriptor, doc []byte, what string, det map[string]any) (*dynamicpb.Message, error, bool) {
	m2 := dynamicpb.NewMessage(md)
	var err error
	c.Input(doc)
	ok, pv, fn, st := rt.Guard(func() { err = env.codec.JSONToProto(doc, m2) })
	c.EndBudget()
	if !ok {
		d := map[string]any{"document": string(doc), "stack": st}
		for k, v := range det {
			d[k] = v
		}
		c.Violate("decode-panic/"+fn, fmt.Sprintf("JSONToProto panicked (%s): %v; document=%s", what, pv, rt.Clip(string(doc), 300)), d)
		return nil, nil, false
	}
	return m2, err, true
}

func sameMessage(env *codecEnv, a, b protoreflect.Message) (bool, string, error) {
	n1, e1 := normMessage(env.model, a, env.decodeAny)
	if e1 != nil {
		return false, "", e1
	}
	n2, e2 := normObserved(env.model, b, env.decodeAny)
	if e2 != nil {
		return false, "any-undecodable", nil
	}
	if proto.Equal(n1.Interface(), n2.Interface()) {
		return true, "", nil
	}
	return false, firstDifference(env.model, n1, n2), nil
}

func validArmValue(model *tModel, f *tField) *jVal {
	switch f.Kind {
	case kString, kKey:
		return jS("x")
	case kBool:
		return &jVal{Kind: jBool, B: true}
	case kInt32, kSint32, kUint32:
		return numLit("1")
	case kInt64, kSint64, kUint64:
		return jS("1")
	case kFloat, kDouble:
		return numLit("1.5")
	case kBytes:
		return jS("AA==")
	case kTimestamp:
		return jS("2020-01-01T00:00:00Z")
	case kDate:
		return jS("2020-01-01")
	case kDecimal:
		return jS("1")
	case kEnum:
		e := model.enum(f.Ref)
		if e != nil && len(e.Values) > 1 {
			return jS(e.Values[1])
		}
	case kObject:
		return &jVal{Kind: jObj}
	}
	return nil
}

func shuffleMembers(rng *rand.Rand, v *jVal) {
	switch v.Kind {
	case jObj:
		rng.Shuffle(len(v.Obj), func(i, j int) { v.Obj[i], v.Obj[j] = v.Obj[j], v.Obj[i] })
		for _, m := range v.Obj {
			shuffleMembers(rng, m.Val)
		}
	case jArr:
		for _, e := range v.Arr {
			shuffleMembers(rng, e)
		}
	}
}

func (st *c03State) want(key string, rng *rand.Rand) bool {
	n := st.covered[key]
	st.covered[key] = n + 1
	if n < 3 {
		return true
	}
	if st.budget <= 0 {
		return false
	}
	if rng.Intn(24) == 0 {
		st.budget--
		return true
	}
	return false
}

func c03Check(c *rt.C, st *c03State, env *codecEnv, m *dynamicpb.Message, class string) {
	full := string(m.Descriptor().FullName())
	tm := env.model.msg(full)
	rng := c.Rand()
	st.budget = 150
	var b []byte
	var err error
	ok, _, _, _ := rt.Guard(func() { b, err = env.codec.ProtoToJSON(m) })
	if !ok || err != nil {
		c.Event("canonical_encoding_unavailable") // C01/C08 territory
		return
	}
	tree, perr := parseStrictJSON(b)
	if perr != nil {
		c.Event("canonical_encoding_not_json")
		return
	}
	c.Eval(msgHash(env, m), !isEmptyMessage(m))
	base := map[string]any{"env": env.name, "type": full, "message": msgText(m), "canonical": rt.Clip(string(b), 4000), "proto_sources": env.ct.Sources}
	w := walkDoc(env.model, tree, tm)

	// ---- each documented alternate spelling alone ---------------------------------------
	for _, s := range w.sites {
		names, vals := variantsOf(env.model, s)
		for i, nv := range vals {
			key := "variant|" + names[i] + "|" + s.kind + "|" + s.pos
			if !st.want(key, rng) {
				continue
			}
			c.Feature("c03:variant:" + names[i])
			c.Feature("c03:variant-pos:" + s.pos)
			old := s.val
			w.set(s, nv)
			doc := renderTree(tree, "")
			w.set(s, old)
			m2, derr, ok := c03Decode(c, env, m.Descriptor(), doc, "variant "+names[i], base)
			if !ok {
				continue
			}
			c.Event("variants_decoded")
			if derr != nil {
				d := cloneDet(base, "document", string(doc), "variation", names[i], "site", s.describe())
				c.Violate(fmt.Sprintf("variant/%s/%s/rejected", names[i], s.kind), fmt.Sprintf("documented alternate spelling rejected: %s of %s: %s -> %s: %v", names[i], s.describe(), old.String(), nv.String(), derr), d)
				continue
			}
			same, where, nerr := sameMessage(env, m, m2)
			if nerr != nil {
				panic("harness: normalising generated message: " + nerr.Error())
			}
			if !same {
				d := cloneDet(base, "document", string(doc), "variation", names[i], "site", s.describe(), "decoded", msgText(m2))
				c.Violate(fmt.Sprintf("variant/%s/%s/differs", names[i], s.kind), fmt.Sprintf("alternate spelling decodes to a different message: %s of %s: %s -> %s (first difference %s)", names[i], s.describe(), old.String(), nv.String(), where), d)
			}
		}
	}

	// ---- combinations: spellings + member order + whitespace + explicit nulls ------------------
	for round := 0; round < 3; round++ {
		t2 := tree.clone()
		w2 := walkDoc(env.model, t2, tm)
		var applied []string
		for _, s := range w2.sites {
			names, vals := variantsOf(env.model, s)
			if len(vals) > 0 && rng.Intn(2) == 0 {
				k := rng.Intn(len(vals))
				w2.set(s, vals[k])
				applied = append(applied, names[k])
			}
			if s.body && s.val.Kind == jObj && rng.Intn(2) == 0 {
				for _, f := range s.absent {
					if rng.Intn(2) == 0 {
						s.val.Obj = append(s.val.Obj, jMember{f.JSON, &jVal{Kind: jNull}})
						applied = append(applied, "null:"+f.Kind+":"+f.Card)
						c.Feature("c03:explicit-null")
					}
				}
				for _, gname := range s.groupsAbsent {
					if rng.Intn(2) == 0 {
						s.val.Obj = append(s.val.Obj, jMember{gname, &jVal{Kind: jNull}})
						applied = append(applied, "null:exposed-oneof")
					}
				}
			}
		}
		shuffleMembers(rng, t2)
		c.Feature("c03:reorder")
		ws := []string{"", " ", "\n\t ", "\r\n"}[rng.Intn(4)]
		if ws != "" {
			c.Feature("c03:whitespace")
		}
		doc := renderTree(t2, ws)
		m2, derr, ok := c03Decode(c, env, m.Descriptor(), doc, "combination", base)
		if !ok {
			continue
		}
		c.Event("combinations_decoded")
		if derr != nil {
			kinds := uniqSorted(applied)
			sig := "combination/rejected"
			if len(kinds) == 1 {
				sig += "/" + kinds[0]
			} else if onlyNulls(kinds) {
				sig += "/explicit-null"
			}
			c.Violate(sig, fmt.Sprintf("a combination of documented variations (%s) is rejected: %v; document=%s", strings.Join(kinds, ","), derr, rt.Clip(string(doc), 300)), cloneDet(base, "document", string(doc), "applied", strings.Join(applied, ",")))
			continue
		}
		same, where, nerr := sameMessage(env, m, m2)
		if nerr != nil {
			panic("harness: " + nerr.Error())
		}
		if !same {
			kinds := uniqSorted(applied)
			sig := "combination/differs"
			if onlyNulls(kinds) {
				sig += "/explicit-null"
			}
			c.Violate(sig, fmt.Sprintf("a combination of documented variations (%s) decodes to a different message (first difference %s); document=%s", strings.Join(kinds, ","), where, rt.Clip(string(doc), 300)), cloneDet(base, "document", string(doc), "decoded", msgText(m2)))
		}
	}

	// ---- exactly one fault ---------------------------------------------------------------------------
	expectReject := func(doc []byte, faultClass, kind, pos, what string) {
		c.Feature("c03:fault:"+strings.SplitN(faultClass, ":", 2)[0], "c03:fault-pos:"+pos)
		m2, derr, ok := c03Decode(c, env, m.Descriptor(), doc, "fault "+faultClass, base)
		if !ok {
			return
		}
		c.Event("faults_decoded")
		if derr == nil {
			c.Violate(fmt.Sprintf("fault/%s/%s/accepted", faultClass, kind), fmt.Sprintf("document with one fault is accepted: %s (%s at %s); decoded=%s; document=%s", what, kind, pos, rt.Clip(msgText(m2), 200), rt.Clip(string(doc), 300)), cloneDet(base, "document", string(doc), "fault", what))
		}
	}
	for _, s := range w.sites {
		if s.holder == nil {
			continue
		}
		for _, f := range faultsOf(env.model, s) {
			key := "fault|" + f.class + "|" + s.kind + "|" + s.pos
			if !st.want(key, rng) {
				continue
			}
			old := s.val
			w.set(s, f.val)
			doc := renderTree(tree, "")
			w.set(s, old)
			expectReject(doc, f.class, s.kind, s.pos, fmt.Sprintf("%s: %s replaced by %s", s.describe(), rt.Clip(old.String(), 60), f.val.String()))
		}
	}
	for _, s := range w.sites {
		if s.val.Kind != jObj {
			continue
		}
		pos := s.pos
		if s.body || s.kind == kOneof || s.kind == "exposed-oneof" {
			// unknown key
			kind := "object"
			if !s.body {
				kind = "oneof"
			}
			if st.want("fault|unknown-key|"+kind+"|"+pos, rng) {
				s.val.Obj = append(s.val.Obj, jMember{"zzNoSuchMember", numLit("1")})
				doc := renderTree(tree, "")
				s.val.Obj = s.val.Obj[:len(s.val.Obj)-1]
				expectReject(doc, "unknown-key", kind, pos, "unknown member zzNoSuchMember added to "+s.describe())
			}
		}
		if s.body || s.kind == kOneof || s.kind == "exposed-oneof" {
			// near-miss spellings of a member that is present: the proto field name, kebab case, another letter case.
			// Only the documented JSON name is a member of the object; anything else is an unknown key.
			kind := "object"
			if !s.body {
				kind = "oneof"
			}
			valid := map[string]bool{"!type": true}
			if s.body {
				fields, groups := w.memberTable(s.tm)
				for k := range fields {
					valid[k] = true
				}
				for k := range groups {
					valid[k] = true
				}
			} else {
				for _, a := range s.arms {
					valid[a.JSON] = true
				}
			}
			for mi := range s.val.Obj {
				orig := s.val.Obj[mi].Key
				if orig == "!type" || !valid[orig] {
					continue
				}
				snake := lowerCamelToSnake(orig)
				for vi, nm := range []string{snake, strings.ReplaceAll(snake, "_", "-"), upperFirst(orig), strings.ToUpper(snake), strings.ToLower(orig), orig + "_", "_" + orig} {
					if nm == orig || valid[nm] {
						continue
					}
					style := []string{"snake", "kebab", "upper-camel", "screaming", "lower", "trailing-underscore", "leading-underscore"}[vi]
					if !st.want("fault|near-miss-key|"+style+"|"+kind+"|"+pos, rng) {
						continue
					}
					s.val.Obj[mi].Key = nm
					doc := renderTree(tree, "")
					s.val.Obj[mi].Key = orig
					expectReject(doc, "near-miss-key:"+style, kind, pos, fmt.Sprintf("member %s of %s spelled %s", orig, s.describe(), nm))
				}
			}
		}
		if s.kind == kOneof || s.kind == "exposed-oneof" {
			var present *tField
			for _, mm := range s.val.Obj {
				for _, a := range s.arms {
					if a.JSON == mm.Key {
						present = a
					}
				}
			}
			if present == nil {
				continue
			}
			// two keys
			for _, a := range s.arms {
				if a == present {
					continue
				}
				v := validArmValue(env.model, a)
				if v == nil {
					continue
				}
				if st.want("fault|two-keys|"+s.kind+"|"+pos, rng) {
					s.val.Obj = append(s.val.Obj, jMember{a.JSON, v})
					doc := renderTree(tree, "")
					s.val.Obj = s.val.Obj[:len(s.val.Obj)-1]
					expectReject(doc, "two-keys-in-oneof", s.kind, pos, fmt.Sprintf("second key %s added to %s", a.JSON, s.describe()))
					// and with the extra key written first
					saved := s.val.Obj
					s.val.Obj = append([]jMember{{a.JSON, v}}, saved...)
					doc = renderTree(tree, "")
					s.val.Obj = saved
					expectReject(doc, "two-keys-in-oneof", s.kind, pos, fmt.Sprintf("second key %s written first in %s", a.JSON, s.describe()))
					// the same without the (optional) "!type" member
					var noType []jMember
					for _, mm := range saved {
						if mm.Key != "!type" {
							noType = append(noType, mm)
						}
					}
					if len(noType) != len(saved) {
						s.val.Obj = append(append([]jMember{}, noType...), jMember{a.JSON, v})
						doc = renderTree(tree, "")
						s.val.Obj = saved
						expectReject(doc, "two-keys-in-oneof", s.kind, pos, fmt.Sprintf("second key %s added to %s, no !type member", a.JSON, s.describe()))
					}
					// three keys
					for _, a3 := range s.arms {
						if a3 == present || a3 == a {
							continue
						}
						if v3 := validArmValue(env.model, a3); v3 != nil {
							s.val.Obj = append(append([]jMember{}, saved...), jMember{a.JSON, v}, jMember{a3.JSON, v3})
							doc = renderTree(tree, "")
							s.val.Obj = saved
							expectReject(doc, "three-keys-in-oneof", s.kind, pos, fmt.Sprintf("keys %s and %s added to %s", a.JSON, a3.JSON, s.describe()))
							break
						}
					}
				}
				break
			}
			// !type contradicting the key present
			for i := range s.val.Obj {
				if s.val.Obj[i].Key != "!type" {
					continue
				}
				other := "zzNoSuchArm"
				for _, a := range s.arms {
					if a != present {
						other = a.JSON
						break
					}
				}
				if st.want("fault|type-contradiction|"+s.kind+"|"+pos, rng) {
					old := s.val.Obj[i].Val
					s.val.Obj[i].Val = jS(other)
					doc := renderTree(tree, "")
					expectReject(doc, "type-contradicts-key", s.kind, pos, fmt.Sprintf("!type set to %q while key %q is present in %s", other, present.JSON, s.describe()))
					// the same contradiction with "!type" written after the key (member order is free in JSON)
					saved := append([]jMember{}, s.val.Obj...)
					moved := append([]jMember{}, s.val.Obj[:i]...)
					moved = append(moved, s.val.Obj[i+1:]...)
					moved = append(moved, s.val.Obj[i])
					s.val.Obj = moved
					doc = renderTree(tree, "")
					s.val.Obj = saved
					s.val.Obj[i].Val = old
					expectReject(doc, "type-contradicts-key", s.kind, pos, fmt.Sprintf("!type set to %q, written after the key %q, in %s", other, present.JSON, s.describe()))
				}
			}
		}
	}
	if c.WantSample() && len(b) > 80 {
		c.Sample(map[string]any{"type": full, "canonical": rt.Clip(string(b), 500), "sites": len(w.sites), "class": class})
	}
}

func uniqSorted(xs []string) []string {
	m := map[string]bool{}
	for _, x := range xs {
		m[x] = true
	}
	out := make([]string, 0, len(m))
	for x := range m {
		out = append(out, x)
	}
	sort.Strings(out)
	return out
}

func onlyNulls(kinds []string) bool {
	if len(kinds) == 0 {
		return false
	}
	for _, k := range kinds {
		if !strings.HasPrefix(k, "null:") {
			return false
		}
	}
	return true
}

func cloneDet(base map[string]any, kv ...any) map[string]any {
	d := map[string]any{}
	for k, v := range base {
		d[k] = v
	}
	for i := 0; i+1 < len(kv); i += 2 {
		d[kv[i].(string)] = kv[i+1]
	}
	return d
}

// ---- URL query decoding ---------------------------------------------------------------------

// queryModel: a type with digit-free names whose scalar content can be written
// as query parameters (top level, dotted paths into nested objects, repeated
// values for arrays of scalars).
func queryModel(pkg string) *tModel {
	f := &tFile{Path: strings.ReplaceAll(pkg, ".", "/") + "/query.proto", Pkg: pkg}
	en := &tEnum{Full: pkg + ".Shade", Name: "Shade", Prefix: "SHADE_", Values: []string{"UNSPECIFIED", "LIGHT", "DARK"}}
	f.Enums = append(f.Enums, en)
	mk := func(name string, kind, ref, card string) *tField {
		return &tField{Name: name, JSON: protocJSONName(name), Kind: kind, Ref: ref, Card: card}
	}
	inner := &tMsg{Full: pkg + ".Inner", Name: "Inner"}
	deep := &tMsg{Full: pkg + ".Deep", Name: "Deep"}
	names := map[string]string{kString: "text", kKey: "ident", kBool: "flag", kInt32: "small", kSint32: "zig", kInt64: "big", kSint64: "zag", kUint32: "usmall", kUint64: "ubig", kFloat: "ratio", kDouble: "precise", kBytes: "blob", kTimestamp: "moment", kDate: "day", kDecimal: "amount"}
	req := &tMsg{Full: pkg + ".Request", Name: "Request"}
	for _, k := range scalarKinds {
		n := names[k]
		req.Fields = append(req.Fields, mk("s_"+n, k, "", ""), mk("o_"+n, k, "", "optional"), mk("r_"+n, k, "", "repeated"))
		inner.Fields = append(inner.Fields, mk("in_"+n, k, "", ""))
		deep.Fields = append(deep.Fields, mk("dp_"+n, k, "", ""))
	}
	req.Fields = append(req.Fields, mk("s_shade", kEnum, en.Full, ""), mk("r_shade", kEnum, en.Full, "repeated"), mk("inner", kObject, inner.Full, ""))
	inner.Fields = append(inner.Fields, mk("in_shade", kEnum, en.Full, ""), mk("deep", kObject, deep.Full, ""))
	for _, m := range []*tMsg{req, inner, deep} {
		m.number(nil)
	}
	f.Msgs = []*tMsg{deep, inner, req}
	m := &tModel{Files: []*tFile{f}}
	m.index()
	return m
}

var queryEnvCache *codecEnv

func queryEnv() *codecEnv {
	if queryEnvCache == nil {
		env, err := newCodecEnv("query", queryModel("verif.query.v1"))
		if err != nil {
			panic("harness: query model does not compile: " + err.Error())
		}
		queryEnvCache = env
	}
	return queryEnvCache
}

func scalarText(v *jVal) (string, bool) {
	switch v.Kind {
	case jStr:
		return v.Str, true
	case jNum:
		return v.Num, true
	case jBool:
		if v.B {
			return "true", true
		}
		return "false", true
	}
	return "", false
}

func queryFromTree(prefix string, v *jVal, out url.Values) {
	for _, m := range v.Obj {
		key := prefix + m.Key
		switch m.Val.Kind {
		case jObj:
			queryFromTree(key+".", m.Val, out)
		case jArr:
			for _, e := range m.Val.Arr {
				if s, ok := scalarText(e); ok {
					out.Add(key, s)
				}
			}
		default:
			if s, ok := scalarText(m.Val); ok {
				out.Add(key, s)
			}
		}
	}
}

func c03QueryCheck(c *rt.C, env *codecEnv, m *dynamicpb.Message) {
	full := string(m.Descriptor().FullName())
	var b []byte
	var err error
	ok, _, _, _ := rt.Guard(func() { b, err = env.codec.ProtoToJSON(m) })
	if !ok || err != nil {
		c.Event("canonical_encoding_unavailable")
		return
	}
	tree, perr := parseStrictJSON(b)
	if perr != nil {
		return
	}
	c.Eval(rt.Hash("query", string(b)), !isEmptyMessage(m))
	q := url.Values{}
	queryFromTree("", tree, q)
	// spelled as a real query string and parsed back, the way an HTTP server obtains it
	parsed, qerr := url.ParseQuery(q.Encode())
	if qerr != nil {
		panic("harness: query does not re-parse: " + qerr.Error())
	}
	m2 := dynamicpb.NewMessage(m.Descriptor())
	c.Input([]byte(q.Encode()))
	ok, pv, fn, st := rt.Guard(func() { err = env.codec.QueryToProto(parsed, m2) })
	c.EndBudget()
	det := map[string]any{"type": full, "message": msgText(m), "canonical": string(b), "query": q.Encode(), "proto_sources": env.ct.Sources}
	if !ok {
		det["stack"] = st
		c.Violate("query-panic/"+fn, fmt.Sprintf("QueryToProto panicked: %v; query=%s", pv, rt.Clip(q.Encode(), 300)), det)
		return
	}
	c.Feature("c03:variant:query")
	if err != nil {
		kinds := queryKindsOf(env.model, m)
		c.Violate("query/rejected/"+strings.Join(kinds, "+"), fmt.Sprintf("scalar values supplied as query parameters are rejected: %v; query=%s", err, rt.Clip(q.Encode(), 300)), det)
		return
	}
	same, where, nerr := sameMessage(env, m, m2)
	if nerr != nil {
		panic("harness: " + nerr.Error())
	}
	if !same {
		det["decoded"] = msgText(m2)
		c.Violate("query/differs/"+where, fmt.Sprintf("query parameters decode to a different message than the canonical JSON (first difference %s); query=%s", where, rt.Clip(q.Encode(), 300)), det)
	}
}

// queryKindsOf lists the scalar kinds set at the top level of m (for the signature).
func queryKindsOf(model *tModel, m protoreflect.Message) []string {
	tm := model.msg(string(m.Descriptor().FullName()))
	set := map[string]bool{}
	for _, tf := range tm.Fields {
		fd := m.Descriptor().Fields().ByName(protoreflect.Name(tf.Name))
		if fd != nil && m.Has(fd) {
			set[tf.Kind] = true
		}
	}
	out := make([]string, 0, len(set))
	for k := range set {
		out = append(out, k)
	}
	sort.Strings(out)
	if len(out) > 3 {
		out = []string{"many"}
	}
	return out
}

func runC03(r *rt.Runner) {
	st := &c03State{covered: map[string]int{}}
	// exactness of the canonical document for durations (no entry in the type model; see c01.go)
	r.Do("duration", func(c *rt.C) { durationRoundTrips(c, "C03") })
	for cur := 0; cur < 14; cur++ {
		r.Do(fmt.Sprintf("sink/sys/%d", cur), func(c *rt.C) {
			env := sinkEnv()
			for _, root := range env.roots {
				g := env.gen(c.Rand(), cur, nil)
				g.maxDepth = 1
				if cur%4 == 0 {
					g.maxDepth = 2
				}
				c03Check(c, st, env, g.message(root, 0), "systematic")
			}
			c.Feature("c03:systematic")
		})
	}
	for b := 0; b < r.Scale(100, 2000); b++ {
		r.Do(fmt.Sprintf("sink/rand/%d", b), func(c *rt.C) {
			env := sinkEnv()
			rng := c.Rand()
			for i := 0; i < 4; i++ {
				g := env.gen(rng, -1, nil)
				g.maxDepth = 1 + rng.Intn(2)
				root := env.roots[rng.Intn(len(env.roots))]
				if i == 0 {
					root = "verif.sink.v1.Sink"
				}
				c03Check(c, st, env, g.message(root, 0), "random-sink")
			}
		})
	}
	for b := 0; b < r.Scale(200, 3500); b++ {
		r.Do(fmt.Sprintf("model/%d", b), func(c *rt.C) {
			rng := c.Rand()
			model := randomModel(rng, fmt.Sprintf("verif.gen%d.v1", b))
			env, err := newCodecEnv(fmt.Sprintf("model-%d", b), model)
			if err != nil {
				panic("harness: generated proto does not compile: " + err.Error())
			}
			for _, root := range env.roots {
				for i := 0; i < 2; i++ {
					g := env.gen(rng, -1+(i*(b+1)), nil)
					g.maxDepth = 3
					c03Check(c, st, env, g.message(root, 0), "random-model")
				}
			}
			c.Feature("c03:random-model")
		})
	}
	// --- query parameters -------------------------------------------------------------------------
	r.Do("query/single", func(c *rt.C) {
		// one field at a time: every scalar kind x {singular, optional, repeated, nested, deep} x every table value
		env := queryEnv()
		for _, root := range []string{"verif.query.v1.Request"} {
			tm := env.model.msg(root)
			md := env.ct.message(root)
			for _, tf := range tm.Fields {
				for cur := 0; cur < 12; cur++ {
					g := env.gen(c.Rand(), cur, nil)
					m := dynamicpb.NewMessage(md)
					fd := md.Fields().ByName(protoreflect.Name(tf.Name))
					switch {
					case tf.Card == "repeated":
						l := m.Mutable(fd).List()
						for i := 0; i < 2; i++ {
							v, ok := g.value(tf, fd, 0, "array")
							if ok {
								l.Append(v)
							}
							g.cursor++
						}
					case tf.Kind == kObject:
						m.Set(fd, protoreflect.ValueOfMessage(g.message(tf.Ref, 0)))
					default:
						v, ok := g.value(tf, fd, 0, "singular")
						if ok {
							m.Set(fd, v)
						}
					}
					c03QueryCheck(c, env, m)
				}
			}
		}
		c.Feature("c03:query-single")
	})
	for b := 0; b < r.Scale(60, 1000); b++ {
		r.Do(fmt.Sprintf("query/rand/%d", b), func(c *rt.C) {
			env := queryEnv()
			rng := c.Rand()
			for i := 0; i < 10; i++ {
				g := env.gen(rng, -1, nil)
				c03QueryCheck(c, env, g.message("verif.query.v1.Request", 0))
			}
			c.Feature("c03:query-random")
		})
	}
}
