//go:build verif

package props

import (
	"fmt"
	"math/rand"
	"strings"
)

func pU(v uint64) *uint64 { return &v }
func pI(v int64) *int64   { return &v }
func pB(v bool) *bool     { return &v }
func pS(v string) *string { return &v }

func tScalar(kind string) *jT { return &jT{Kind: kind} }
func tInt(f string) *jT       { return &jT{Kind: "integer", IntFmt: f} }
func tFloat(f string) *jT     { return &jT{Kind: "float", FloatFmt: f} }
func tKeyF(f string) *jT      { return &jT{Kind: kKey, KeyFmt: f} }
func tRef(kind, ref, full string) *jT {
	return &jT{Kind: kind, Ref: ref, RefFull: full}
}
func tArr(item *jT) *jT { return &jT{Kind: "array", Item: item} }
func tMap(item *jT) *jT { return &jT{Kind: "map", Item: item} }

func (t *jT) with(fn func(*jT)) *jT { fn(t); return t }

func fld(name string, t *jT) *jF { return &jF{Name: name, T: t} }

// all plain scalar types of the language
func j5ScalarTypes() map[string]func() *jT {
	return map[string]func() *jT{
		"string":         func() *jT { return tScalar(kString) },
		"bool":           func() *jT { return tScalar(kBool) },
		"integer-INT32":  func() *jT { return tInt("INT32") },
		"integer-INT64":  func() *jT { return tInt("INT64") },
		"integer-UINT32": func() *jT { return tInt("UINT32") },
		"integer-UINT64": func() *jT { return tInt("UINT64") },
		"float-FLOAT32":  func() *jT { return tFloat("FLOAT32") },
		"float-FLOAT64":  func() *jT { return tFloat("FLOAT64") },
		"bytes":          func() *jT { return tScalar(kBytes) },
		"timestamp":      func() *jT { return tScalar(kTimestamp) },
		"date":           func() *jT { return tScalar(kDate) },
		"decimal":        func() *jT { return tScalar(kDecimal) },
		"key":            func() *jT { return tKeyF("") },
		"key-id62":       func() *jT { return tKeyF("id62") },
		"key-uuid":       func() *jT { return tKeyF("uuid") },
		"key-informal":   func() *jT { return tKeyF("informal") },
		"any":            func() *jT { return tScalar("any") },
	}
}

func sortedTypeNames(m map[string]func() *jT) []string {
	out := make([]string, 0, len(m))
	for k := range m {
		out = append(out, k)
	}
	// deterministic order
	for i := 0; i < len(out); i++ {
		for j := i + 1; j < len(out); j++ {
			if out[j] < out[i] {
				out[i], out[j] = out[j], out[i]
			}
		}
	}
	return out
}

type isoCell struct {
	ID     string
	Bundle *jBundle
	Pkg    string
	// TotalityOnly: the shape is not promised by the documentation (it must not
	// crash the compiler, but it need not be accepted)
	TotalityOnly bool
	// MustAccept (with TotalityOnly): valid and documented, so C07 demands acceptance, but outside what the
	// expected-contract models of C02/C04 describe (types declared in hand-written proto files)
	MustAccept bool
}

func oneFieldBundle(f *jF, extra ...*jElem) *jBundle {
	file := &jFile{Path: "iso/v1/cell.j5s", Pkg: "iso.v1"}
	file.Elems = append(file.Elems, &jElem{Decl: &jDecl{Kind: kObject, Name: "Holder", Fields: []*jF{f}}})
	file.Elems = append(file.Elems, extra...)
	return &jBundle{Files: []*jFile{file}}
}

func elemsBundle(elems ...*jElem) *jBundle {
	return &jBundle{Files: []*jFile{{Path: "iso/v1/cell.j5s", Pkg: "iso.v1", Elems: elems}}}
}

func enumDecl(name string, opts ...string) *jElem {
	return &jElem{Decl: &jDecl{Kind: kEnum, Name: name, Options: opts}}
}

func objDecl(name string, fields ...*jF) *jElem {
	return &jElem{Decl: &jDecl{Kind: kObject, Name: name, Fields: fields}}
}

func oneofDecl(name string, fields ...*jF) *jElem {
	return &jElem{Decl: &jDecl{Kind: kOneof, Name: name, Fields: fields}}
}

// isolationMatrix: every feature of the documented language in a package that
// contains nothing else (C07: "without depending on unrelated declarations
// happening to be present in the same file").
func isolationMatrix() []isoCell {
	var cells []isoCell
	add := func(id string, b *jBundle) { cells = append(cells, isoCell{ID: id, Bundle: b, Pkg: "iso.v1"}) }

	types := j5ScalarTypes()
	for _, tn := range sortedTypeNames(types) {
		mk := types[tn]
		add("type/"+tn+"/plain", oneFieldBundle(fld("value", mk())))
		add("type/"+tn+"/required-mark", oneFieldBundle(&jF{Name: "value", T: mk(), Req: true, UseMarks: true}))
		add("type/"+tn+"/required-attr", oneFieldBundle(&jF{Name: "value", T: mk(), Req: true}))
		add("type/"+tn+"/optional-mark", oneFieldBundle(&jF{Name: "value", T: mk(), Opt: true, UseMarks: true}))
		add("type/"+tn+"/optional-attr", oneFieldBundle(&jF{Name: "value", T: mk(), Opt: true}))
		add("type/"+tn+"/described", oneFieldBundle(&jF{Name: "value", T: mk(), Desc: "A description\nover two lines"}))
		add("type/"+tn+"/described-line", oneFieldBundle(&jF{Name: "value", T: mk(), Desc: "Short description", DescLine: true}))
		if tn != "any" {
			add("type/"+tn+"/array", oneFieldBundle(fld("values", tArr(mk()))))
			add("type/"+tn+"/array-block", oneFieldBundle(fld("values", tArr(mk()).with(func(t *jT) { t.ItemAsBlock = true }))))
			add("type/"+tn+"/map", oneFieldBundle(fld("values", tMap(mk()))))
		}
	}

	// ---- rules, one at a time --------------------------------------------------------------------
	rule := func(id string, t *jT, r *jRules) {
		t.Rules = r
		add("rule/"+id, oneFieldBundle(fld("value", t)))
	}
	rule("string/minLength", tScalar(kString), &jRules{MinLen: pU(1)})
	rule("string/maxLength", tScalar(kString), &jRules{MaxLen: pU(10)})
	rule("string/min-max", tScalar(kString), &jRules{MinLen: pU(2), MaxLen: pU(4)})
	rule("string/pattern", tScalar(kString), &jRules{Pattern: pS("^[a-z]+$")})
	rule("string/zero-minLength", tScalar(kString), &jRules{MinLen: pU(0)})
	add("rule/string/format-email", oneFieldBundle(fld("value", tScalar(kString).with(func(t *jT) { t.StrFormat = "email" }))))
	rule("bytes/minLength", tScalar(kBytes), &jRules{BMinLen: pU(1)})
	rule("bytes/maxLength", tScalar(kBytes), &jRules{BMaxLen: pU(8)})
	rule("bool/const-true", tScalar(kBool), &jRules{Const: pB(true)})
	rule("bool/const-false", tScalar(kBool), &jRules{Const: pB(false)})
	for _, f := range []string{"INT32", "INT64", "UINT32", "UINT64"} {
		rule("integer-"+f+"/minimum", tInt(f), &jRules{Min: pI(1)})
		rule("integer-"+f+"/maximum", tInt(f), &jRules{Max: pI(10)})
		rule("integer-"+f+"/min-max", tInt(f), &jRules{Min: pI(1), Max: pI(10)})
		rule("integer-"+f+"/exclusive-true", tInt(f), &jRules{Min: pI(1), Max: pI(10), ExMin: pB(true), ExMax: pB(true)})
		rule("integer-"+f+"/exclusive-false", tInt(f), &jRules{Min: pI(1), Max: pI(10), ExMin: pB(false), ExMax: pB(false)})
		rule("integer-"+f+"/zero-bounds", tInt(f), &jRules{Min: pI(0), Max: pI(0)})
	}
	// (negative literals are not part of the surface syntax: the lexer has no '-' token)
	rule("integer-INT32/limits", tInt("INT32"), &jRules{Min: pI(0), Max: pI(2147483647)})
	rule("integer-INT64/beyond-32-bit", tInt("INT64"), &jRules{Min: pI(2147483648), Max: pI(3000000000)})
	rule("integer-UINT32/beyond-31-bit", tInt("UINT32"), &jRules{Max: pI(4000000000)})
	rule("integer-UINT64/beyond-32-bit", tInt("UINT64"), &jRules{Max: pI(9000000000000000000)})
	// float rules (documented in j5.schema.v1.FloatField.Rules)
	pF := func(v float64) *float64 { return &v }
	rule("float-FLOAT64/minimum", tFloat("FLOAT64"), &jRules{FMin: pF(0.5)})
	rule("float-FLOAT64/not-exact-in-float32", tFloat("FLOAT64"), &jRules{FMin: pF(0.1), FMax: pF(3.141592653589793)})
	rule("float-FLOAT32/min-max-exclusive", tFloat("FLOAT32"), &jRules{FMin: pF(0), FMax: pF(1), FExMax: pB(true)})
	rule("date/minimum", tScalar(kDate), &jRules{SMin: pS("2020-01-01")})
	rule("date/maximum-exclusive", tScalar(kDate), &jRules{SMax: pS("2030-12-31"), SExMax: pB(true)})
	rule("decimal/minimum", tScalar(kDecimal), &jRules{SMin: pS("0.01")})
	rule("decimal/maximum-exclusive", tScalar(kDecimal), &jRules{SMax: pS("100"), SExMax: pB(true)})
	add("rule/key/custom-pattern", oneFieldBundle(fld("value", &jT{Kind: kKey, KeyFmt: "custom", KeyCustom: "^[a-z]{3}$"})))
	customKeyItem := func() *jT {
		return &jT{Kind: kKey, KeyFmt: "custom", KeyCustom: "^[a-z]{3}$", List: &jList{Filterable: true}}
	}
	add("rule/array-key-custom/list-rules", oneFieldBundle(fld("values", tArr(customKeyItem()))))
	add("rule/map-key-custom/list-rules", oneFieldBundle(fld("values", tMap(customKeyItem()))))
	add("rule/key-informal/list-rules", oneFieldBundle(fld("value", tKeyF("informal").with(func(t *jT) { t.List = &jList{Filterable: true} }))))
	add("rule/key/primary", oneFieldBundle(fld("value", tKeyF("id62").with(func(t *jT) { t.Primary = pB(true) }))))
	add("rule/key/primary-false", oneFieldBundle(fld("value", tKeyF("id62").with(func(t *jT) { t.Primary = pB(false) }))))
	add("rule/key/foreign", oneFieldBundle(fld("value", tKeyF("uuid").with(func(t *jT) { t.Foreign = "other.v1.thing" }))))
	// entity annotations other than primary = true leave the field as optional as it was declared
	add("rule/key/foreign-optional", oneFieldBundle(&jF{Name: "value", T: tKeyF("uuid").with(func(t *jT) { t.Foreign = "other.v1.thing" }), Opt: true, UseMarks: true}))
	add("rule/key/tenant-optional", oneFieldBundle(&jF{Name: "value", T: tKeyF("id62").with(func(t *jT) { t.Tenant = "account" }), Opt: true}))
	add("rule/key/primary-false-optional", oneFieldBundle(&jF{Name: "value", T: tKeyF("id62").with(func(t *jT) { t.Primary = pB(false) }), Opt: true}))
	add("rule/key/tenant", oneFieldBundle(fld("value", tKeyF("id62").with(func(t *jT) { t.Tenant = "account" }))))
	for _, tn := range []string{"string", "integer-INT32", "key-id62", "bool", "date"} {
		mk := types[tn]
		add("rule/array-"+tn+"/minItems", oneFieldBundle(fld("values", tArr(mk()).with(func(t *jT) { t.Rules = &jRules{MinItems: pU(1)} }))))
		add("rule/array-"+tn+"/maxItems", oneFieldBundle(fld("values", tArr(mk()).with(func(t *jT) { t.Rules = &jRules{MaxItems: pU(3)} }))))
		add("rule/array-"+tn+"/unique", oneFieldBundle(fld("values", tArr(mk()).with(func(t *jT) { t.Rules = &jRules{Unique: pB(true)} }))))
		add("rule/map-"+tn+"/minPairs", oneFieldBundle(fld("values", tMap(mk()).with(func(t *jT) { t.Rules = &jRules{MinPairs: pU(1)} }))))
	}
	add("rule/array-string/item-rules", oneFieldBundle(fld("values", tArr(tScalar(kString).with(func(t *jT) { t.Rules = &jRules{MinLen: pU(2)} })).with(func(t *jT) { t.Rules = &jRules{MinItems: pU(1), MaxItems: pU(3)} }))))
	add("rule/array-integer/item-rules", oneFieldBundle(fld("values", tArr(tInt("INT32").with(func(t *jT) { t.Rules = &jRules{Min: pI(1)} })))))
	add("rule/array/singleForm", oneFieldBundle(fld("values", tArr(tScalar(kString)).with(func(t *jT) { t.SingleForm = "value" }))))
	add("rule/map/singleForm", oneFieldBundle(fld("values", tMap(tScalar(kString)).with(func(t *jT) { t.SingleForm = "value" }))))
	// enum rules need an enum: declared beside (that is part of the feature)
	add("rule/enum/in", oneFieldBundle(fld("value", tRef(kEnum, "Color", "iso.v1.Color").with(func(t *jT) { t.Rules = &jRules{In: []string{"RED", "BLUE"}} })), enumDecl("Color", "RED", "GREEN", "BLUE")))
	add("rule/enum/notIn", oneFieldBundle(fld("value", tRef(kEnum, "Color", "iso.v1.Color").with(func(t *jT) { t.Rules = &jRules{NotIn: []string{"GREEN"}} })), enumDecl("Color", "RED", "GREEN", "BLUE")))
	add("rule/enum/notIn-unspecified", oneFieldBundle(fld("value", tRef(kEnum, "Color", "iso.v1.Color").with(func(t *jT) { t.Rules = &jRules{NotIn: []string{"UNSPECIFIED", "GREEN"}} })), enumDecl("Color", "RED", "GREEN", "BLUE")))
	add("rule/enum/in-unspecified", oneFieldBundle(fld("value", tRef(kEnum, "Color", "iso.v1.Color").with(func(t *jT) { t.Rules = &jRules{In: []string{"UNSPECIFIED", "GREEN"}} })), enumDecl("Color", "RED", "GREEN", "BLUE")))
	// an option that is not the first and whose name merely ends in UNSPECIFIED
	add("decl/enum-later-option-named-unspecified", elemsBundle(&jElem{Decl: &jDecl{Kind: kEnum, Name: "Reason", Options: []string{"LATE", "LOST", "OTHER_UNSPECIFIED", "BROKEN"}}}, objDecl("Holder", fld("why", tRef(kEnum, "Reason", "iso.v1.Reason")))))
	add("rule/enum-explicit-zero/in", oneFieldBundle(fld("value", tRef(kEnum, "Color", "iso.v1.Color").with(func(t *jT) { t.Rules = &jRules{In: []string{"RED", "BLUE"}} })), enumDecl("Color", "UNSPECIFIED", "RED", "GREEN", "BLUE")))
	add("rule/enum-explicit-zero/notIn", oneFieldBundle(fld("value", tRef(kEnum, "Color", "iso.v1.Color").with(func(t *jT) { t.Rules = &jRules{NotIn: []string{"GREEN"}} })), enumDecl("Color", "UNSPECIFIED", "RED", "GREEN", "BLUE")))
	// list rules
	add("list/string/searchable", oneFieldBundle(fld("value", tScalar(kString).with(func(t *jT) { t.List = &jList{Searchable: true} }))))
	for _, tn := range []string{"integer-INT32", "integer-INT64", "integer-UINT32", "integer-UINT64", "float-FLOAT32", "float-FLOAT64", "timestamp", "decimal"} {
		mk := types[tn]
		add("list/"+tn+"/filter-sort", oneFieldBundle(fld("value", mk().with(func(t *jT) { t.List = &jList{Filterable: true, Sortable: true} }))))
	}
	for _, tn := range []string{"bool", "date", "key-id62", "key-uuid", "key", "any"} {
		mk := types[tn]
		add("list/"+tn+"/filterable", oneFieldBundle(fld("value", mk().with(func(t *jT) { t.List = &jList{Filterable: true} }))))
	}
	add("list/enum/filterable-default", oneFieldBundle(fld("value", tRef(kEnum, "Color", "iso.v1.Color").with(func(t *jT) { t.List = &jList{Filterable: true, DefaultFilters: []string{"RED"}} })), enumDecl("Color", "RED", "GREEN")))
	add("list/oneof/filterable", oneFieldBundle(fld("value", tRef(kOneof, "Pick", "iso.v1.Pick").with(func(t *jT) { t.List = &jList{Filterable: true} })), oneofDecl("Pick", fld("a", &jT{Kind: kObject, Inline: &jDecl{Kind: kObject, Fields: []*jF{fld("x", tScalar(kString))}}}))))
	add("any/only-defined", oneFieldBundle(fld("value", tScalar("any").with(func(t *jT) { t.AnyOnlyDefined = true; t.AnyTypes = []string{"iso.v1.Holder"} }))))

	// ---- references and inline types ----------------------------------------------------------------
	add("ref/object", oneFieldBundle(fld("other", tRef(kObject, "Other", "iso.v1.Other")), objDecl("Other", fld("name", tScalar(kString)))))
	add("ref/object-block", oneFieldBundle(fld("other", tRef(kObject, "Other", "iso.v1.Other").with(func(t *jT) { t.RefAsBlock = true })), objDecl("Other", fld("name", tScalar(kString)))))
	add("ref/object-qualified", oneFieldBundle(fld("other", tRef(kObject, "iso.v1.Other", "iso.v1.Other")), objDecl("Other", fld("name", tScalar(kString)))))
	add("ref/object-flatten", oneFieldBundle(fld("other", tRef(kObject, "Other", "iso.v1.Other").with(func(t *jT) { t.Flatten = true })), objDecl("Other", fld("name", tScalar(kString)))))
	// the flattened property has the name of a member its object brings in
	// the flattened type is also the type of an ordinary field declared before it
	add("ref/object-plain-then-flatten", oneFieldBundle(fld("plain", tRef(kObject, "Other", "iso.v1.Other")), objDecl("Other", fld("name", tScalar(kString)), fld("more", tInt("INT32")))).with(func(b *jBundle) {
		h := b.Files[0].Elems[0].Decl
		h.Fields = append(h.Fields, fld("plains", tArr(tRef(kObject, "Other", "iso.v1.Other"))), fld("flat", tRef(kObject, "Other", "iso.v1.Other").with(func(t *jT) { t.Flatten = true })))
	}))
	add("ref/object-flatten-same-name", oneFieldBundle(fld("other", tRef(kObject, "Other", "iso.v1.Other").with(func(t *jT) { t.Flatten = true })), objDecl("Other", fld("other", tScalar(kString)), fld("more", tInt("INT32")))))
	add("inline/object-flatten-same-name", oneFieldBundle(fld("address", &jT{Kind: kObject, Flatten: true, Inline: &jDecl{Kind: kObject, Fields: []*jF{fld("address", tScalar(kString)), fld("city", tScalar(kString))}}})))
	// a nested type (named after its field) has the name of a package-level type which a sibling field refers to
	{
		inlineEnum := func() *jT { return &jT{Kind: kEnum, Inline: &jDecl{Kind: kEnum, Options: []string{"ON", "OFF"}}} }
		statusRef := func() *jT { return tRef(kEnum, "Status", "iso.v1.Status") }
		add("scoping/nested-enum-shadows-top-enum", elemsBundle(enumDecl("Status", "OPEN", "DONE"), objDecl("Job", fld("status", inlineEnum()), fld("overall", statusRef().with(func(t *jT) { t.Rules = &jRules{In: []string{"OPEN"}} })), fld("history", tArr(statusRef())))))
		add("scoping/nested-enum-shadows-top-enum-ref-first", elemsBundle(enumDecl("Status", "OPEN", "DONE"), objDecl("Job", fld("overall", statusRef().with(func(t *jT) { t.Rules = &jRules{NotIn: []string{"DONE"}} })), fld("status", inlineEnum()))))
		add("scoping/nested-enum-shadows-top-message", elemsBundle(objDecl("Status", fld("text", tScalar(kString))), objDecl("Job", fld("status", inlineEnum()), fld("overall", tRef(kObject, "Status", "iso.v1.Status")), fld("all", tArr(tRef(kObject, "Status", "iso.v1.Status"))))))
		add("scoping/nested-message-shadows-top-enum", elemsBundle(enumDecl("Mode", "FAST", "SLOW"), objDecl("Job", fld("mode", &jT{Kind: kObject, Inline: &jDecl{Kind: kObject, Fields: []*jF{fld("label", tScalar(kString))}}}), fld("overall", tRef(kEnum, "Mode", "iso.v1.Mode")), fld("byName", tMap(tRef(kEnum, "Mode", "iso.v1.Mode"))))))
		add("scoping/nested-message-shadows-top-message", elemsBundle(objDecl("Item", fld("name", tScalar(kString))), objDecl("Holder", fld("item", &jT{Kind: kObject, Inline: &jDecl{Kind: kObject, Fields: []*jF{fld("label", tScalar(kString))}}}), fld("outer", tRef(kObject, "Item", "iso.v1.Item")))))
	}
	add("ref/object-self", elemsBundle(objDecl("Node", fld("next", tRef(kObject, "Node", "iso.v1.Node")), fld("kids", tArr(tRef(kObject, "Node", "iso.v1.Node"))), fld("byName", tMap(tRef(kObject, "Node", "iso.v1.Node"))))))
	add("ref/object-mutual", elemsBundle(objDecl("Ping", fld("pong", tRef(kObject, "Pong", "iso.v1.Pong"))), objDecl("Pong", fld("ping", tRef(kObject, "Ping", "iso.v1.Ping")))))
	add("ref/object-forward", elemsBundle(objDecl("First", fld("second", tRef(kObject, "Second", "iso.v1.Second"))), objDecl("Second", fld("name", tScalar(kString)))))
	add("ref/array-object", oneFieldBundle(fld("others", tArr(tRef(kObject, "Other", "iso.v1.Other"))), objDecl("Other", fld("name", tScalar(kString)))))
	add("ref/map-object", oneFieldBundle(fld("others", tMap(tRef(kObject, "Other", "iso.v1.Other"))), objDecl("Other", fld("name", tScalar(kString)))))
	add("ref/enum", oneFieldBundle(fld("color", tRef(kEnum, "Color", "iso.v1.Color")), enumDecl("Color", "RED", "GREEN")))
	add("ref/array-enum", oneFieldBundle(fld("colors", tArr(tRef(kEnum, "Color", "iso.v1.Color"))), enumDecl("Color", "RED", "GREEN")))
	add("ref/map-enum", oneFieldBundle(fld("colors", tMap(tRef(kEnum, "Color", "iso.v1.Color"))), enumDecl("Color", "RED", "GREEN")))
	pick := func() *jElem {
		return oneofDecl("Pick", fld("first", &jT{Kind: kObject, Inline: &jDecl{Kind: kObject, Fields: []*jF{fld("x", tScalar(kString))}}}), fld("second", &jT{Kind: kObject, Inline: &jDecl{Kind: kObject}}))
	}
	add("ref/oneof", oneFieldBundle(fld("pick", tRef(kOneof, "Pick", "iso.v1.Pick")), pick()))
	add("ref/array-oneof", oneFieldBundle(fld("picks", tArr(tRef(kOneof, "Pick", "iso.v1.Pick"))), pick()))
	add("ref/map-oneof", oneFieldBundle(fld("picks", tMap(tRef(kOneof, "Pick", "iso.v1.Pick"))), pick()))
	inlineObj := func() *jT {
		return &jT{Kind: kObject, Inline: &jDecl{Kind: kObject, Fields: []*jF{fld("innerId", tKeyF("id62")), fld("label", tScalar(kString))}}}
	}
	add("inline/object", oneFieldBundle(fld("inner", inlineObj())))
	// a nested type that takes the name of its parent (by override here; a field called like its parent object does the same)
	add("inline/object-named-as-parent", oneFieldBundle(fld("inner", inlineObj().with(func(t *jT) { t.InlineName = "Holder" }))))
	// a described inline enum that follows other nested types of the same parent
	add("inline/enum-after-nested-message", elemsBundle(objDecl("Holder",
		fld("first", &jT{Kind: kObject, Inline: &jDecl{Kind: kObject, Fields: []*jF{fld("label", tScalar(kString))}}}),
		fld("tags", tMap(tScalar(kString))),
		&jF{Name: "mode", Desc: "How it runs", T: &jT{Kind: kEnum, Inline: &jDecl{Kind: kEnum, Options: []string{"FAST", "SLOW"}, OptDesc: map[string]string{"FAST": "Quick but rough", "SLOW": "Careful"}}}},
		fld("second", &jT{Kind: kObject, Inline: &jDecl{Kind: kObject, Fields: []*jF{fld("level", &jT{Kind: kEnum, Inline: &jDecl{Kind: kEnum, Options: []string{"LOW", "HIGH"}, OptDesc: map[string]string{"LOW": "Not much", "HIGH": "A lot"}}})}}}))))
	add("inline/object-named", oneFieldBundle(fld("inner", inlineObj().with(func(t *jT) { t.InlineName = "Custom" }))))
	// (a description inside the field body belongs to the property: the merged scope resolves it there first)
	add("inline/object-described", oneFieldBundle(&jF{Name: "inner", T: inlineObj(), Desc: "Inline description"}))
	add("inline/array-object", oneFieldBundle(fld("inners", tArr(inlineObj()))))
	add("inline/array-object-named", oneFieldBundle(fld("inners", tArr(inlineObj().with(func(t *jT) { t.InlineName = "Inner" })))))
	add("inline/map-object", oneFieldBundle(fld("inners", tMap(inlineObj()))))
	add("inline/nested-3", oneFieldBundle(fld("levelOne", &jT{Kind: kObject, Inline: &jDecl{Kind: kObject, Fields: []*jF{fld("levelTwo", &jT{Kind: kObject, Inline: &jDecl{Kind: kObject, Fields: []*jF{fld("levelThree", inlineObj())}}})}}})))
	inlineEnum := func() *jT { return &jT{Kind: kEnum, Inline: &jDecl{Kind: kEnum, Options: []string{"ON", "OFF"}}} }
	add("inline/enum", oneFieldBundle(fld("mode", inlineEnum())))
	add("inline/array-enum", oneFieldBundle(fld("modes", tArr(inlineEnum()))))
	// the nested enum carries a name of its own: its value prefix follows that name, not the field's
	add("inline/enum-named", oneFieldBundle(fld("status", inlineEnum().with(func(t *jT) { t.InlineName = "Kind" }))))
	add("inline/enum-named-with-rules", oneFieldBundle(fld("status", inlineEnum().with(func(t *jT) { t.InlineName = "SwitchPosition"; t.Rules = &jRules{In: []string{"ON"}} }))))
	add("inline/array-enum-named", oneFieldBundle(fld("modes", tArr(inlineEnum().with(func(t *jT) { t.InlineName = "Kind" })))))
	add("inline/oneof-named", oneFieldBundle(fld("side", (&jT{Kind: kOneof, InlineName: "Direction", Inline: &jDecl{Kind: kOneof, Fields: []*jF{fld("left", &jT{Kind: kObject, Inline: &jDecl{Kind: kObject}})}}}))))
	inlineOneof := func() *jT {
		return &jT{Kind: kOneof, Inline: &jDecl{Kind: kOneof, Fields: []*jF{fld("left", inlineObj()), fld("right", &jT{Kind: kObject, Inline: &jDecl{Kind: kObject}})}}}
	}
	add("inline/oneof", oneFieldBundle(fld("side", inlineOneof())))
	add("inline/array-oneof", oneFieldBundle(fld("sides", tArr(inlineOneof()))))
	add("inline/oneof-in-object-in-oneof", elemsBundle(oneofDecl("Outer", fld("a", &jT{Kind: kObject, Inline: &jDecl{Kind: kObject, Fields: []*jF{fld("side", inlineOneof())}}}))))

	// ---- declarations ---------------------------------------------------------------------------------
	add("decl/object-empty", elemsBundle(objDecl("Empty")))
	add("decl/object-described", elemsBundle(&jElem{Decl: &jDecl{Kind: kObject, Name: "Thing", Desc: "Thing is described\n\nIn two paragraphs", Fields: []*jF{fld("name", tScalar(kString))}}}))
	add("decl/object-40-fields", elemsBundle(func() *jElem {
		d := &jDecl{Kind: kObject, Name: "Wide"}
		for i := 0; i < 40; i++ {
			d.Fields = append(d.Fields, fld(fmt.Sprintf("field%c%c", 'A'+i/26, 'a'+i%26), tScalar(kString)))
		}
		return &jElem{Decl: d}
	}()))
	add("decl/enum", elemsBundle(enumDecl("Color", "RED", "GREEN")))
	add("decl/enum-explicit-unspecified", elemsBundle(&jElem{Decl: &jDecl{Kind: kEnum, Name: "Color", Options: []string{"UNSPECIFIED", "RED"}, OptDesc: map[string]string{"UNSPECIFIED": "Initial"}}}))
	add("decl/enum-described-options", elemsBundle(&jElem{Decl: &jDecl{Kind: kEnum, Name: "Color", Desc: "Colors", Options: []string{"RED", "GREEN"}, OptDesc: map[string]string{"RED": "is red"}}}))
	add("decl/enum-info", elemsBundle(&jElem{Decl: &jDecl{Kind: kEnum, Name: "Color", Options: []string{"RED", "GREEN"}, OptInfo: map[string]map[string]string{"RED": {"hex": "ff0000"}, "GREEN": {"hex": "00ff00"}}}}))
	add("decl/oneof", elemsBundle(pick()))
	add("decl/oneof-described", elemsBundle(&jElem{Decl: &jDecl{Kind: kOneof, Name: "Pick", Desc: "Pick one", Fields: []*jF{fld("first", &jT{Kind: kObject, Inline: &jDecl{Kind: kObject}})}}}))

	// ---- services ------------------------------------------------------------------------------------------
	for _, hm := range []string{"GET", "POST", "PUT", "PATCH", "DELETE"} {
		add("service/"+hm, elemsBundle(&jElem{Service: &jService{Name: "Thing", BasePath: "/iso/v1", Methods: []*jMethod{{Name: "DoIt", HTTPMethod: hm, Path: "/things/:thingId", Req: []*jF{fld("thingId", tKeyF("id62")), fld("note", tScalar(kString))}, HasRes: true, Res: []*jF{fld("name", tScalar(kString))}}}}}))
	}
	add("service/no-response", elemsBundle(&jElem{Service: &jService{Name: "Thing", BasePath: "/iso/v1", Methods: []*jMethod{{Name: "Download", HTTPMethod: "GET", Path: "/things", Req: nil}}}}))
	add("service/empty-request-response", elemsBundle(&jElem{Service: &jService{Name: "Thing", BasePath: "/iso/v1", Methods: []*jMethod{{Name: "Ping", HTTPMethod: "POST", Path: "/ping", HasRes: true}}}}))
	add("service/two-path-params", elemsBundle(&jElem{Service: &jService{Name: "Thing", BasePath: "/iso/v1", Methods: []*jMethod{{Name: "GetPart", HTTPMethod: "GET", Path: "/things/:thingId/parts/:partId", Req: []*jF{fld("thingId", tKeyF("id62")), fld("partId", tKeyF("uuid"))}, HasRes: true, Res: []*jF{fld("name", tScalar(kString))}}}}}))
	add("service/two-methods", elemsBundle(&jElem{Service: &jService{Name: "Thing", BasePath: "/iso/v1", Methods: []*jMethod{
		{Name: "GetThing", HTTPMethod: "GET", Path: "/things/:thingId", Req: []*jF{fld("thingId", tKeyF("id62"))}, HasRes: true, Res: []*jF{fld("name", tScalar(kString))}},
		{Name: "ListThings", HTTPMethod: "GET", Path: "/things", HasRes: true, Res: []*jF{fld("names", tArr(tScalar(kString)))}}}}}))
	add("service/no-base-path", elemsBundle(&jElem{Service: &jService{Name: "Thing", Methods: []*jMethod{{Name: "GetThing", HTTPMethod: "GET", Path: "/iso/v1/things", HasRes: true}}}}))

	// ---- topics ------------------------------------------------------------------------------------------------
	add("topic/publish", elemsBundle(&jElem{Topic: &jTopic{Name: "Thing", Type: "publish", Messages: []*jTopicMsg{{Name: "PostThing", Fields: []*jF{fld("thingId", tKeyF("id62"))}}}}}))
	// names that already end the way the generated type names do
	add("topic/publish-message-named-message", elemsBundle(&jElem{Topic: &jTopic{Name: "Mail", Type: "publish", Messages: []*jTopicMsg{{Name: "StatusMessage", Fields: []*jF{fld("text", tScalar(kString))}}, {Name: "SendTopic"}}}}))
	add("service/method-named-request", elemsBundle(&jElem{Service: &jService{Name: "MailService", BasePath: "/iso/v1", Methods: []*jMethod{{Name: "SendRequest", HTTPMethod: "POST", Path: "/send", Req: []*jF{fld("text", tScalar(kString))}, HasRes: true, Res: []*jF{fld("ok", tScalar(kBool))}}, {Name: "GetResponse", HTTPMethod: "GET", Path: "/get", HasRes: true}}}}))
	add("topic/publish-two", elemsBundle(&jElem{Topic: &jTopic{Name: "Thing", Type: "publish", Messages: []*jTopicMsg{{Name: "PostThing", Fields: []*jF{fld("thingId", tKeyF("id62"))}}, {Name: "DropThing"}}}}))
	// names with digits and acronyms: what is declared is what every later stage must look for
	add("topic/publish-unusual-names", elemsBundle(&jElem{Topic: &jTopic{Name: "Auth", Type: "publish", Messages: []*jTopicMsg{{Name: "Verify2fa", Fields: []*jF{fld("code", tScalar(kString))}}, {Name: "Send3dModel"}, {Name: "PushHTTPStatus"}}}}))
	add("service/unusual-names", elemsBundle(&jElem{Service: &jService{Name: "Auth2fa", BasePath: "/iso/v1", Methods: []*jMethod{
		{Name: "Verify2fa", HTTPMethod: "POST", Path: "/verify", Req: []*jF{fld("code", tScalar(kString))}, HasRes: true, Res: []*jF{fld("ok", tScalar(kBool))}},
		{Name: "GetHTTPStatus", HTTPMethod: "GET", Path: "/status/:id", Req: []*jF{fld("id", tKeyF("id62"))}, HasRes: true, Res: []*jF{fld("code", tInt("INT32"))}}}}}))
	add("topic/reqres", elemsBundle(&jElem{Topic: &jTopic{Name: "Thing", Type: "reqres", Request: &jTopicMsg{Fields: []*jF{fld("thingId", tKeyF("id62"))}}, Reply: &jTopicMsg{Fields: []*jF{fld("name", tScalar(kString))}}}}))
	add("topic/upsert", elemsBundle(&jElem{Topic: &jTopic{Name: "Thing", Type: "upsert", Messages: []*jTopicMsg{{Name: "UpsertThing", Fields: []*jF{fld("thingId", tKeyF("id62"))}}}}}))

	// ---- entities ---------------------------------------------------------------------------------------------
	minimal := func() *jEntity {
		return &jEntity{Name: "Thing", Keys: []*jF{fld("thingId", tKeyF("id62").with(func(t *jT) { t.Primary = pB(true) }))}, Data: []*jF{fld("name", tScalar(kString))}, Statuses: []string{"ACTIVE", "INACTIVE"},
			Events: []*jEvent{{Name: "Create", Fields: []*jF{fld("name", tScalar(kString))}}, {Name: "Archive"}}}
	}
	add("entity/minimal", elemsBundle(&jElem{Entity: minimal()}))
	add("entity/readme", elemsBundle(&jElem{Entity: &jEntity{Name: "Foo", Desc: "Foo is lorem ipsum", Keys: []*jF{fld("fooId", tKeyF("id62"))}, Data: []*jF{fld("name", tScalar(kString))}, Statuses: []string{"ACTIVE", "INACTIVE"},
		Events: []*jEvent{{Name: "Create", Fields: []*jF{fld("name", tScalar(kString))}}, {Name: "Archive"}}}}))
	{
		e := minimal()
		e.Keys = append(e.Keys, fld("accountId", tKeyF("id62").with(func(t *jT) { t.Primary = pB(false); t.Tenant = "account" })))
		add("entity/tenant-key", elemsBundle(&jElem{Entity: e}))
	}
	{
		e := minimal()
		e.Summary = [][]*jF{{fld("name", tScalar(kString))}}
		add("entity/summary", elemsBundle(&jElem{Entity: e}))
	}
	{
		e := minimal()
		e.Commands = []*jService{{Methods: []*jMethod{{Name: "CreateThing", HTTPMethod: "POST", Path: "/:thingId/create", Req: []*jF{fld("thingId", tKeyF("id62")), fld("name", tScalar(kString))}, HasRes: true}}}}
		add("entity/command", elemsBundle(&jElem{Entity: e}))
	}
	{
		e := minimal()
		e.EventsInGet = true
		add("entity/events-in-get", elemsBundle(&jElem{Entity: e}))
	}
	{
		e := minimal()
		e.Events = nil
		add("entity/no-events", elemsBundle(&jElem{Entity: e}))
	}
	{
		e := minimal()
		e.Data = nil
		add("entity/no-data", elemsBundle(&jElem{Entity: e}))
	}

	// ---- imports (two packages) -----------------------------------------------------------------------------
	other := func() *jFile {
		return &jFile{Path: "other/v1/types.j5s", Pkg: "other.v1", Elems: []*jElem{objDecl("Shared", fld("name", tScalar(kString))), enumDecl("Level", "LOW", "HIGH")}}
	}
	imp := func(id string, imports []*jImport, ref string) {
		f := &jFile{Path: "iso/v1/cell.j5s", Pkg: "iso.v1", Imports: imports, Elems: []*jElem{objDecl("Holder", fld("shared", tRef(kObject, ref, "other.v1.Shared")), fld("level", tRef(kEnum, strings.Replace(ref, "Shared", "Level", 1), "other.v1.Level")))}}
		add("import/"+id, &jBundle{Files: []*jFile{f, other()}})
	}
	imp("package", []*jImport{{Path: "other.v1"}}, "other.v1.Shared")
	imp("package-short", []*jImport{{Path: "other.v1"}}, "other.Shared")
	imp("package-alias", []*jImport{{Path: "other.v1", Alias: "oth"}}, "oth.Shared")
	imp("file", []*jImport{{Path: "other/v1/types.j5s.proto", File: true}}, "other.v1.Shared")
	// the imported package is used in one place only (each place alone: nothing else pulls the dependency in)
	impOnly := func(id string, elems ...*jElem) {
		f := &jFile{Path: "iso/v1/cell.j5s", Pkg: "iso.v1", Imports: []*jImport{{Path: "other.v1"}}, Elems: elems}
		add("import-only/"+id, &jBundle{Files: []*jFile{f, other()}})
	}
	sharedRef := func() *jT { return tRef(kObject, "other.v1.Shared", "other.v1.Shared") }
	levelRef := func() *jT { return tRef(kEnum, "other.v1.Level", "other.v1.Level") }
	impOnly("array-item-object", objDecl("Holder", fld("shareds", tArr(sharedRef()))))
	impOnly("map-value-object", objDecl("Holder", fld("shareds", tMap(sharedRef()))))
	impOnly("array-item-enum", objDecl("Holder", fld("levels", tArr(levelRef()))))
	impOnly("map-value-enum", objDecl("Holder", fld("levels", tMap(levelRef()))))
	impOnly("oneof-option", oneofDecl("Pick", fld("shared", sharedRef())))
	impOnly("inline-nested-field", objDecl("Holder", fld("inner", &jT{Kind: kObject, Inline: &jDecl{Kind: kObject, Fields: []*jF{fld("shared", sharedRef())}}})))
	impOnly("inline-nested-array-item", objDecl("Holder", fld("inner", &jT{Kind: kObject, Inline: &jDecl{Kind: kObject, Fields: []*jF{fld("levels", tArr(levelRef()))}}})))
	impOnly("method-request", &jElem{Service: &jService{Name: "Things", BasePath: "/iso/v1", Methods: []*jMethod{{Name: "PutThing", HTTPMethod: "POST", Path: "/things", Req: []*jF{fld("shared", sharedRef())}, HasRes: true, Res: []*jF{fld("ok", tScalar(kBool))}}}}})
	impOnly("method-response-array", &jElem{Service: &jService{Name: "Things", BasePath: "/iso/v1", Methods: []*jMethod{{Name: "GetThing", HTTPMethod: "GET", Path: "/things", HasRes: true, Res: []*jF{fld("shareds", tArr(sharedRef()))}}}}})
	impOnly("topic-message", &jElem{Topic: &jTopic{Name: "Things", Type: "publish", Messages: []*jTopicMsg{{Name: "SendThing", Fields: []*jF{fld("levels", tMap(levelRef()))}}}}})
	// both packages declare a type of the same simple name; each reference must reach the package it names
	for _, form := range []struct {
		id, ref, enumRef string
		imports          []*jImport
	}{
		{"full", "other.v1.Shared", "other.v1.Level", []*jImport{{Path: "other.v1"}}},
		{"short", "other.Shared", "other.Level", []*jImport{{Path: "other.v1"}}},
		{"alias", "oth.Shared", "oth.Level", []*jImport{{Path: "other.v1", Alias: "oth"}}},
	} {
		f := &jFile{Path: "iso/v1/cell.j5s", Pkg: "iso.v1", Imports: form.imports, Elems: []*jElem{
			objDecl("Shared", fld("localOnly", tScalar(kBool))),
			enumDecl("Level", "NEAR", "FAR"),
			objDecl("Holder",
				fld("theirs", tRef(kObject, form.ref, "other.v1.Shared")),
				fld("ours", tRef(kObject, "Shared", "iso.v1.Shared")),
				fld("theirList", tArr(tRef(kObject, form.ref, "other.v1.Shared"))),
				fld("theirLevel", tRef(kEnum, form.enumRef, "other.v1.Level")),
				fld("ourLevel", tRef(kEnum, "Level", "iso.v1.Level")),
				fld("theirLevels", tMap(tRef(kEnum, form.enumRef, "other.v1.Level")))),
		}}
		add("import-same-name/"+form.id, &jBundle{Files: []*jFile{f, other()}})
	}
	// same package, two files
	add("multi-file/one-way", &jBundle{Files: []*jFile{
		{Path: "iso/v1/a.j5s", Pkg: "iso.v1", Elems: []*jElem{objDecl("Alpha", fld("beta", tRef(kObject, "Beta", "iso.v1.Beta")))}},
		{Path: "iso/v1/b.j5s", Pkg: "iso.v1", Elems: []*jElem{objDecl("Beta", fld("name", tScalar(kString)))}}}})
	// file names with dots: each source has its own service and topic file
	{
		mk := func(path, obj, svc string) *jFile {
			return &jFile{Path: path, Pkg: "iso.v1", Elems: []*jElem{
				objDecl(obj, fld("name", tScalar(kString))),
				{Service: &jService{Name: svc, BasePath: "/iso/v1/" + strings.ToLower(svc), Methods: []*jMethod{{Name: "Get" + obj, HTTPMethod: "GET", Path: "/one", HasRes: true, Res: []*jF{fld("item", tRef(kObject, obj, "iso.v1."+obj))}}}}},
				{Topic: &jTopic{Name: svc, Type: "publish", Messages: []*jTopicMsg{{Name: "Post" + obj, Fields: []*jF{fld("name", tScalar(kString))}}}}},
			}}
		}
		add("multi-file/dotted-names-two-services", &jBundle{Files: []*jFile{mk("iso/v1/orders.read.j5s", "OrderView", "OrderRead"), mk("iso/v1/orders.write.j5s", "OrderDraft", "OrderWrite")}})
		add("multi-file/dotted-name-and-plain", &jBundle{Files: []*jFile{mk("iso/v1/orders.j5s", "OrderView", "OrderRead"), mk("iso/v1/orders.archive.j5s", "OrderDraft", "OrderWrite")}})
	}
	// files of one package using each other's types would need proto files importing each other
	defer func() {
		for i := range cells {
			if cells[i].ID == "multi-file/both-ways" {
				cells[i].TotalityOnly = true
			}
		}
	}()
	add("multi-file/both-ways", &jBundle{Files: []*jFile{
		{Path: "iso/v1/a.j5s", Pkg: "iso.v1", Elems: []*jElem{objDecl("Alpha", fld("beta", tRef(kObject, "Beta", "iso.v1.Beta")))}},
		{Path: "iso/v1/b.j5s", Pkg: "iso.v1", Elems: []*jElem{objDecl("Beta", fld("alpha", tRef(kObject, "Alpha", "iso.v1.Alpha")))}}}})
	// proto <-> j5s
	add("mixed/j5s-uses-proto", &jBundle{Files: []*jFile{{Path: "iso/v1/a.j5s", Pkg: "iso.v1", Elems: []*jElem{objDecl("Alpha", fld("legacy", tRef(kObject, "Legacy", "iso.v1.Legacy")))}}},
		Protos: map[string]string{"iso/v1/legacy.proto": "syntax = \"proto3\";\n\npackage iso.v1;\n\nmessage Legacy {\n  string name = 1;\n}\n"}})
	// an enum from a hand-written proto file of the package, restricted by short option names
	{
		kindProto := map[string]string{"iso/v1/kind.proto": "syntax = \"proto3\";\n\npackage iso.v1;\n\nenum Kind {\n  KIND_UNSPECIFIED = 0;\n  KIND_SMALL = 1;\n  KIND_LARGE = 2;\n}\n"}
		kind := func(r *jRules) *jT { return tRef(kEnum, "Kind", "iso.v1.Kind").with(func(t *jT) { t.Rules = r }) }
		mixed := func(id string, f *jF) {
			add("mixed/j5s-rules-on-proto-enum/"+id, &jBundle{Files: []*jFile{{Path: "iso/v1/a.j5s", Pkg: "iso.v1", Elems: []*jElem{objDecl("Box", f)}}}, Protos: kindProto})
			cells[len(cells)-1].TotalityOnly = true
			cells[len(cells)-1].MustAccept = true
		}
		mixed("none", fld("kind", kind(nil)))
		mixed("in", fld("kind", kind(&jRules{In: []string{"SMALL", "LARGE"}})))
		mixed("notIn", fld("kind", kind(&jRules{NotIn: []string{"LARGE"}})))
		mixed("array-item-notIn", fld("kinds", tArr(kind(&jRules{NotIn: []string{"LARGE"}}))))
		mixed("map-value-in", fld("kinds", tMap(kind(&jRules{In: []string{"SMALL"}}))))
	}
	add("mixed/proto-uses-j5s", &jBundle{Files: []*jFile{{Path: "iso/v1/a.j5s", Pkg: "iso.v1", Elems: []*jElem{objDecl("Alpha", fld("name", tScalar(kString)))}}},
		Protos: map[string]string{"iso/v1/legacy.proto": "syntax = \"proto3\";\n\npackage iso.v1;\n\nimport \"iso/v1/a.j5s.proto\";\n\nmessage Legacy {\n  Alpha alpha = 1;\n}\n"}})
	return cells
}

// ---- random bundles -----------------------------------------------------------------------------------------------

var j5FieldWords = []string{"name", "title", "label", "note", "fooId", "barId", "ownerId", "count", "total", "amount", "price", "ratio", "weight", "isActive", "enabled", "createdAt", "updatedAt", "startDate", "endDate",
	"payload", "content", "kind", "status", "level", "mode", "address", "city", "country", "email", "phone", "tags", "items", "parts", "lines", "attrs", "meta", "config", "settings", "details", "summary", "parent", "child", "owner", "target", "source"}

var j5TypeWords = []string{"Alpha", "Bravo", "Charlie", "Delta", "Echo", "Foxtrot", "Golf", "Hotel", "India", "Juliet", "Kilo", "Lima", "Mike", "November", "Oscar", "Papa"}

type j5Gen struct {
	rng *rand.Rand
	// knobs: which known-defective features to leave out of random composites (quarantine)
	noRules bool
	seq     int
}

type j5Known struct {
	pkg     string
	objects []string
	oneofs  []string
	enums   map[string][]string
}

func (g *j5Gen) pickNames(n int) []string {
	perm := g.rng.Perm(len(j5FieldWords))
	out := make([]string, n)
	for i := 0; i < n; i++ {
		out[i] = j5FieldWords[perm[i%len(perm)]]
		if i >= len(perm) {
			out[i] += "X"
		}
	}
	return out
}

func (g *j5Gen) scalarType() *jT {
	types := j5ScalarTypes()
	names := sortedTypeNames(types)
	return types[names[g.rng.Intn(len(names))]]()
}

// fieldType picks a random type; refs are drawn from what is visible (same package).
func (g *j5Gen) fieldType(k *j5Known, depth int, refPrefix string) *jT {
	switch c := g.rng.Intn(12); {
	case c < 5:
		return g.scalarType()
	case c < 7 && len(k.objects) > 0:
		n := k.objects[g.rng.Intn(len(k.objects))]
		return tRef(kObject, refPrefix+n, k.pkg+"."+n)
	case c < 8 && len(k.enums) > 0:
		names := make([]string, 0, len(k.enums))
		for n := range k.enums {
			names = append(names, n)
		}
		sortStrings(names)
		n := names[g.rng.Intn(len(names))]
		return tRef(kEnum, refPrefix+n, k.pkg+"."+n)
	case c < 9 && len(k.oneofs) > 0:
		n := k.oneofs[g.rng.Intn(len(k.oneofs))]
		return tRef(kOneof, refPrefix+n, k.pkg+"."+n)
	case c < 10 && depth < 2:
		switch g.rng.Intn(5) {
		case 0:
			return &jT{Kind: kEnum, Inline: &jDecl{Kind: kEnum, Options: []string{"ON", "OFF", "AUTO"}[:1+g.rng.Intn(3)]}}
		case 1:
			d := &jDecl{Kind: kOneof}
			for _, n := range g.pickNames(1 + g.rng.Intn(2)) {
				d.Fields = append(d.Fields, fld(n, &jT{Kind: kObject, Inline: &jDecl{Kind: kObject, Fields: []*jF{fld("value", g.scalarType())}}}))
			}
			return &jT{Kind: kOneof, Inline: d}
		}
		d := &jDecl{Kind: kObject}
		for _, n := range g.pickNames(g.rng.Intn(3)) {
			d.Fields = append(d.Fields, fld(n, g.fieldType(k, depth+1, refPrefix)))
		}
		t := &jT{Kind: kObject, Inline: d}
		if g.rng.Intn(4) == 0 {
			g.seq++ // two siblings must not pick the same nested name
			t.InlineName = fmt.Sprintf("Custom%s%d", j5TypeWords[g.rng.Intn(len(j5TypeWords))], g.seq)
		}
		return t
	case c < 11 && depth < 2:
		item := g.fieldType(k, depth+1, refPrefix)
		for item.Kind == "array" || item.Kind == "map" || item.Kind == "any" {
			item = g.scalarType()
			if item.Kind == "any" {
				item = tScalar(kString)
			}
		}
		if g.rng.Intn(2) == 0 {
			return tArr(item)
		}
		return tMap(item)
	}
	return g.scalarType()
}

func sortStrings(s []string) {
	for i := 0; i < len(s); i++ {
		for j := i + 1; j < len(s); j++ {
			if s[j] < s[i] {
				s[i], s[j] = s[j], s[i]
			}
		}
	}
}

func (g *j5Gen) fields(k *j5Known, n int, refPrefix string) []*jF {
	var out []*jF
	for _, name := range g.pickNames(n) {
		f := fld(name, g.fieldType(k, 0, refPrefix))
		switch g.rng.Intn(6) {
		case 0:
			f.Req = true
			f.UseMarks = g.rng.Intn(2) == 0
		case 1:
			// proto3 'optional' does not exist for repeated and map fields
			if f.T.Kind != "array" && f.T.Kind != "map" {
				f.Opt = true
				f.UseMarks = g.rng.Intn(2) == 0
			}
		}
		if g.rng.Intn(5) == 0 {
			f.Desc = "The " + name + " of it"
			f.DescLine = g.rng.Intn(2) == 0
		}
		out = append(out, f)
	}
	return out
}

// randomBundle: 1-3 packages x 1-3 files of objects, oneofs, enums, services and topics.
func (g *j5Gen) randomBundle() *jBundle {
	b := &jBundle{}
	pkgs := []string{"alpha.v1", "beta.gamma.v1", "delta.v1"}[:1+g.rng.Intn(3)]
	typeIdx := 0
	nextType := func() string {
		n := j5TypeWords[typeIdx%len(j5TypeWords)]
		if typeIdx >= len(j5TypeWords) {
			n += "Two"
		}
		typeIdx++
		return n
	}
	var prev []*j5Known
	for _, pkg := range pkgs {
		k := &j5Known{pkg: pkg, enums: map[string][]string{}}
		dir := strings.ReplaceAll(pkg, ".", "/")
		nFiles := 1 + g.rng.Intn(3)
		// declare names up front so that files can reference each other's types in one direction
		type planned struct {
			kind, name string
			file       int
		}
		var plan []planned
		for fi := 0; fi < nFiles; fi++ {
			for j := 0; j < 1+g.rng.Intn(3); j++ {
				kind := []string{kObject, kObject, kObject, kEnum, kOneof}[g.rng.Intn(5)]
				plan = append(plan, planned{kind, nextType(), fi})
			}
		}
		files := make([]*jFile, nFiles)
		for fi := range files {
			files[fi] = &jFile{Path: fmt.Sprintf("%s/file%c.j5s", dir, 'a'+fi), Pkg: pkg}
		}
		// references only go to types of the same or an earlier file (avoids file cycles inside a package)
		for pi, p := range plan {
			vis := &j5Known{pkg: pkg, enums: map[string][]string{}}
			for qi, q := range plan {
				if q.file > p.file {
					continue
				}
				_ = qi
				switch q.kind {
				case kObject:
					vis.objects = append(vis.objects, q.name)
				case kOneof:
					vis.oneofs = append(vis.oneofs, q.name)
				case kEnum:
					vis.enums[q.name] = []string{"ONE", "TWO"}
				}
			}
			_ = pi
			f := files[p.file]
			switch p.kind {
			case kObject:
				d := &jDecl{Kind: kObject, Name: p.name, Fields: g.fields(vis, g.rng.Intn(7), "")}
				if g.rng.Intn(4) == 0 {
					d.Desc = p.name + " is described here"
				}
				// a cross-package reference
				if len(prev) > 0 && g.rng.Intn(2) == 0 {
					o := prev[g.rng.Intn(len(prev))]
					if len(o.objects) > 0 {
						target := o.objects[g.rng.Intn(len(o.objects))]
						alias, refText := g.importFor(f, o.pkg)
						_ = alias
						rt := tRef(kObject, refText+"."+target, o.pkg+"."+target)
						switch g.rng.Intn(4) {
						case 0:
							rt = tArr(rt)
						case 1:
							rt = tMap(rt)
						}
						d.Fields = append(d.Fields, fld("imported"+target, rt))
					}
				}
				f.Elems = append(f.Elems, &jElem{Decl: d})
				k.objects = append(k.objects, p.name)
			case kEnum:
				opts := []string{"ONE", "TWO", "THREE", "FOUR"}[:1+g.rng.Intn(4)]
				f.Elems = append(f.Elems, &jElem{Decl: &jDecl{Kind: kEnum, Name: p.name, Options: opts}})
				k.enums[p.name] = opts
			case kOneof:
				d := &jDecl{Kind: kOneof, Name: p.name}
				for _, n := range g.pickNames(1 + g.rng.Intn(3)) {
					if len(vis.objects) > 0 && g.rng.Intn(2) == 0 {
						t := vis.objects[g.rng.Intn(len(vis.objects))]
						d.Fields = append(d.Fields, fld(n, tRef(kObject, t, pkg+"."+t)))
					} else {
						d.Fields = append(d.Fields, fld(n, &jT{Kind: kObject, Inline: &jDecl{Kind: kObject, Fields: g.fields(vis, g.rng.Intn(3), "")}}))
					}
				}
				f.Elems = append(f.Elems, &jElem{Decl: d})
				k.oneofs = append(k.oneofs, p.name)
			}
		}
		// a service and a topic in the last file
		last := files[nFiles-1]
		if g.rng.Intn(2) == 0 {
			svc := &jService{Name: nextType(), BasePath: "/" + strings.ReplaceAll(pkg, ".", "/")}
			for mi := 0; mi < 1+g.rng.Intn(3); mi++ {
				hm := []string{"GET", "POST", "PUT", "PATCH", "DELETE"}[g.rng.Intn(5)]
				m := &jMethod{Name: fmt.Sprintf("%s%s", []string{"Get", "Make", "Put", "Patch", "Drop"}[mi%5], nextType()), HTTPMethod: hm, Path: fmt.Sprintf("/things%d", mi), HasRes: g.rng.Intn(5) > 0} // one route per method
				m.Req = g.fields(k, g.rng.Intn(4), "")
				if g.rng.Intn(2) == 0 {
					m.Req = append([]*jF{fld("thingId", tKeyF("id62"))}, m.Req...)
					m.Path = fmt.Sprintf("/things%d/:thingId", mi)
				}
				if m.HasRes {
					m.Res = g.fields(k, g.rng.Intn(4), "")
				}
				svc.Methods = append(svc.Methods, m)
			}
			last.Elems = append(last.Elems, &jElem{Service: svc})
		}
		if g.rng.Intn(2) == 0 {
			tp := &jTopic{Name: nextType()}
			switch g.rng.Intn(3) {
			case 0:
				tp.Type = "publish"
				for mi := 0; mi < 1+g.rng.Intn(2); mi++ {
					tp.Messages = append(tp.Messages, &jTopicMsg{Name: "Send" + nextType(), Fields: g.fields(k, g.rng.Intn(4), "")})
				}
			case 1:
				tp.Type = "reqres"
				tp.Request = &jTopicMsg{Fields: g.fields(k, g.rng.Intn(3), "")}
				tp.Reply = &jTopicMsg{Fields: g.fields(k, g.rng.Intn(3), "")}
			default:
				tp.Type = "upsert"
				tp.Messages = []*jTopicMsg{{Name: "Upsert" + nextType(), Fields: g.fields(k, g.rng.Intn(4), "")}}
			}
			last.Elems = append(last.Elems, &jElem{Topic: tp})
		}
		b.Files = append(b.Files, files...)
		prev = append(prev, k)
	}
	return b
}

// importFor makes sure file f imports pkg and returns how references into it are written.
func (g *j5Gen) importFor(f *jFile, pkg string) (string, string) {
	for _, imp := range f.Imports {
		if imp.Path == pkg {
			if imp.Alias != "" {
				return imp.Alias, imp.Alias
			}
			return "", pkg
		}
	}
	switch g.rng.Intn(3) {
	case 0:
		alias := "imp" + strings.Split(pkg, ".")[0]
		f.Imports = append(f.Imports, &jImport{Path: pkg, Alias: alias})
		return alias, alias
	case 1:
		f.Imports = append(f.Imports, &jImport{Path: pkg})
		parts := strings.Split(pkg, ".")
		return "", parts[len(parts)-2] // package name without version
	}
	f.Imports = append(f.Imports, &jImport{Path: pkg})
	return "", pkg
}

// with applies an in-place edit to a bundle under construction.
func (b *jBundle) with(fn func(b *jBundle)) *jBundle { fn(b); return b }
