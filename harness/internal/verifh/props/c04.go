//go:build verif

package props

import (
	"fmt"
	"sort"
	"strings"

	"github.com/pentops/j5/gen/j5/list/v1/list_j5pb"
	"github.com/pentops/j5/gen/j5/schema/v1/schema_j5pb"
	"github.com/pentops/j5/internal/verifh/rt"
	"github.com/pentops/j5/lib/j5schema"
	"google.golang.org/protobuf/proto"
	"google.golang.org/protobuf/reflect/protoreflect"
	"google.golang.org/protobuf/reflect/protoregistry"
)

func init() { Registry["C04"] = runC04 }

// ---- the schema the source declares, as j5.schema.v1 messages built by harness code --------------

type xsBuilder struct {
	pkg  string
	out  map[string]*schema_j5pb.RootSchema // schema name in package (nested: A_B) -> expected root
	kind map[string]string
}

func filtering(l *jList) *list_j5pb.FilteringConstraint {
	if l == nil || (!l.Filterable && len(l.DefaultFilters) == 0) {
		return nil
	}
	return &list_j5pb.FilteringConstraint{Filterable: l.Filterable, DefaultFilters: l.DefaultFilters}
}

func sorting(l *jList) *list_j5pb.SortingConstraint {
	if l == nil || !l.Sortable {
		return nil
	}
	return &list_j5pb.SortingConstraint{Sortable: true}
}

func (xb *xsBuilder) refTo(t *jT, parentName, fieldName string) *schema_j5pb.Ref {
	if t.Inline == nil {
		i := strings.LastIndex(t.RefFull, ".")
		// RefFull = package + "." + Name (top level types only are referenced by name)
		return &schema_j5pb.Ref{Package: t.RefFull[:i], Schema: t.RefFull[i+1:]}
	}
	name := t.InlineName
	if name == "" {
		name = upperFirst(fieldName)
	}
	nested := parentName + "_" + name
	xb.decl(t.Inline, nested, name)
	return &schema_j5pb.Ref{Package: xb.pkg, Schema: nested}
}

func (xb *xsBuilder) field(t *jT, parentName, fieldName string) *schema_j5pb.Field {
	switch t.Kind {
	case kString:
		f := &schema_j5pb.StringField{}
		if t.StrFormat != "" {
			f.Format = proto.String(t.StrFormat)
		}
		if r := t.Rules; r != nil {
			f.Rules = &schema_j5pb.StringField_Rules{Pattern: r.Pattern, MinLength: r.MinLen, MaxLength: r.MaxLen}
		}
		if t.List != nil && t.List.Searchable {
			f.ListRules = &list_j5pb.OpenTextRules{Searching: &list_j5pb.SearchingConstraint{Searchable: true}}
		}
		return &schema_j5pb.Field{Type: &schema_j5pb.Field_String_{String_: f}}
	case kKey:
		f := &schema_j5pb.KeyField{}
		switch t.KeyFmt {
		case "id62":
			f.Format = &schema_j5pb.KeyFormat{Type: &schema_j5pb.KeyFormat_Id62{Id62: &schema_j5pb.KeyFormat_ID62{}}}
		case "uuid":
			f.Format = &schema_j5pb.KeyFormat{Type: &schema_j5pb.KeyFormat_Uuid{Uuid: &schema_j5pb.KeyFormat_UUID{}}}
		case "informal":
			f.Format = &schema_j5pb.KeyFormat{Type: &schema_j5pb.KeyFormat_Informal_{Informal: &schema_j5pb.KeyFormat_Informal{}}}
		case "custom":
			f.Format = &schema_j5pb.KeyFormat{Type: &schema_j5pb.KeyFormat_Custom_{Custom: &schema_j5pb.KeyFormat_Custom{Pattern: t.KeyCustom}}}
		}
		if t.Primary != nil || t.Foreign != "" || t.Tenant != "" {
			ek := &schema_j5pb.EntityKey{}
			if t.Primary != nil && *t.Primary {
				ek.Type = &schema_j5pb.EntityKey_PrimaryKey{PrimaryKey: true}
			}
			if t.Foreign != "" {
				i := strings.LastIndex(t.Foreign, ".")
				ek.Type = &schema_j5pb.EntityKey_ForeignKey{ForeignKey: &schema_j5pb.EntityRef{Package: t.Foreign[:i], Entity: t.Foreign[i+1:]}}
			}
			if t.Tenant != "" {
				ek.TenantKey = proto.String(t.Tenant)
			}
			f.Entity = ek
		}
		if fl := filtering(t.List); fl != nil {
			f.ListRules = &list_j5pb.KeyRules{Filtering: fl}
		}
		return &schema_j5pb.Field{Type: &schema_j5pb.Field_Key{Key: f}}
	case kBool:
		f := &schema_j5pb.BoolField{}
		if r := t.Rules; r != nil && r.Const != nil {
			f.Rules = &schema_j5pb.BoolField_Rules{Const: r.Const}
		}
		if fl := filtering(t.List); fl != nil {
			f.ListRules = &list_j5pb.BoolRules{Filtering: fl}
		}
		return &schema_j5pb.Field{Type: &schema_j5pb.Field_Bool{Bool: f}}
	case "integer":
		f := &schema_j5pb.IntegerField{Format: schema_j5pb.IntegerField_Format(schema_j5pb.IntegerField_Format_value["FORMAT_"+t.IntFmt])}
		if r := t.Rules; r != nil {
			f.Rules = &schema_j5pb.IntegerField_Rules{Minimum: r.Min, Maximum: r.Max, ExclusiveMinimum: r.ExMin, ExclusiveMaximum: r.ExMax}
		}
		if t.List != nil {
			f.ListRules = &list_j5pb.IntegerRules{Filtering: filtering(t.List), Sorting: sorting(t.List)}
		}
		return &schema_j5pb.Field{Type: &schema_j5pb.Field_Integer{Integer: f}}
	case "float":
		f := &schema_j5pb.FloatField{Format: schema_j5pb.FloatField_Format(schema_j5pb.FloatField_Format_value["FORMAT_"+t.FloatFmt])}
		if r := t.Rules; r != nil {
			f.Rules = &schema_j5pb.FloatField_Rules{Minimum: r.FMin, Maximum: r.FMax, ExclusiveMinimum: r.FExMin, ExclusiveMaximum: r.FExMax}
		}
		if t.List != nil {
			f.ListRules = &list_j5pb.FloatRules{Filtering: filtering(t.List), Sorting: sorting(t.List)}
		}
		return &schema_j5pb.Field{Type: &schema_j5pb.Field_Float{Float: f}}
	case kBytes:
		f := &schema_j5pb.BytesField{}
		if r := t.Rules; r != nil {
			f.Rules = &schema_j5pb.BytesField_Rules{MinLength: r.BMinLen, MaxLength: r.BMaxLen}
		}
		return &schema_j5pb.Field{Type: &schema_j5pb.Field_Bytes{Bytes: f}}
	case kTimestamp:
		f := &schema_j5pb.TimestampField{}
		if t.List != nil {
			f.ListRules = &list_j5pb.TimestampRules{Filtering: filtering(t.List), Sorting: sorting(t.List)}
		}
		return &schema_j5pb.Field{Type: &schema_j5pb.Field_Timestamp{Timestamp: f}}
	case kDate:
		f := &schema_j5pb.DateField{}
		if r := t.Rules; r != nil {
			f.Rules = &schema_j5pb.DateField_Rules{Minimum: r.SMin, Maximum: r.SMax, ExclusiveMinimum: r.SExMin, ExclusiveMaximum: r.SExMax}
		}
		if fl := filtering(t.List); fl != nil {
			f.ListRules = &list_j5pb.DateRules{Filtering: fl}
		}
		return &schema_j5pb.Field{Type: &schema_j5pb.Field_Date{Date: f}}
	case kDecimal:
		f := &schema_j5pb.DecimalField{}
		if r := t.Rules; r != nil {
			f.Rules = &schema_j5pb.DecimalField_Rules{Minimum: r.SMin, Maximum: r.SMax, ExclusiveMinimum: r.SExMin, ExclusiveMaximum: r.SExMax}
		}
		if t.List != nil {
			f.ListRules = &list_j5pb.DecimalRules{Filtering: filtering(t.List), Sorting: sorting(t.List)}
		}
		return &schema_j5pb.Field{Type: &schema_j5pb.Field_Decimal{Decimal: f}}
	case "any":
		f := &schema_j5pb.AnyField{OnlyDefined: t.AnyOnlyDefined, Types: t.AnyTypes}
		if fl := filtering(t.List); fl != nil {
			f.ListRules = &list_j5pb.AnyRules{Filtering: fl}
		}
		return &schema_j5pb.Field{Type: &schema_j5pb.Field_Any{Any: f}}
	case kObject:
		return &schema_j5pb.Field{Type: &schema_j5pb.Field_Object{Object: &schema_j5pb.ObjectField{Schema: &schema_j5pb.ObjectField_Ref{Ref: xb.refTo(t, parentName, fieldName)}, Flatten: t.Flatten}}}
	case kOneof:
		f := &schema_j5pb.OneofField{Schema: &schema_j5pb.OneofField_Ref{Ref: xb.refTo(t, parentName, fieldName)}}
		if fl := filtering(t.List); fl != nil {
			f.ListRules = &list_j5pb.OneofRules{Filtering: fl}
		}
		return &schema_j5pb.Field{Type: &schema_j5pb.Field_Oneof{Oneof: f}}
	case kEnum:
		f := &schema_j5pb.EnumField{Schema: &schema_j5pb.EnumField_Ref{Ref: xb.refTo(t, parentName, fieldName)}}
		if r := t.Rules; r != nil && (r.In != nil || r.NotIn != nil) {
			f.Rules = &schema_j5pb.EnumField_Rules{In: r.In, NotIn: r.NotIn}
		}
		if fl := filtering(t.List); fl != nil {
			f.ListRules = &list_j5pb.EnumRules{Filtering: fl}
		}
		return &schema_j5pb.Field{Type: &schema_j5pb.Field_Enum{Enum: f}}
	case "array":
		f := &schema_j5pb.ArrayField{Items: xb.field(t.Item, parentName, fieldName)}
		if r := t.Rules; r != nil {
			f.Rules = &schema_j5pb.ArrayField_Rules{MinItems: r.MinItems, MaxItems: r.MaxItems, UniqueItems: r.Unique}
		}
		if t.SingleForm != "" {
			f.Ext = &schema_j5pb.ArrayField_Ext{SingleForm: proto.String(t.SingleForm)}
		}
		return &schema_j5pb.Field{Type: &schema_j5pb.Field_Array{Array: f}}
	case "map":
		f := &schema_j5pb.MapField{ItemSchema: xb.field(t.Item, parentName, fieldName)}
		if r := t.Rules; r != nil {
			f.Rules = &schema_j5pb.MapField_Rules{MinPairs: r.MinPairs, MaxPairs: r.MaxPairs}
		}
		if t.SingleForm != "" {
			f.Ext = &schema_j5pb.MapField_Ext{SingleForm: proto.String(t.SingleForm)}
		}
		return &schema_j5pb.Field{Type: &schema_j5pb.Field_Map{Map: f}}
	}
	panic("harness: expected schema of kind " + t.Kind)
}

func (xb *xsBuilder) props(fields []*jF, schemaName string) []*schema_j5pb.ObjectProperty {
	var out []*schema_j5pb.ObjectProperty
	for i, f := range fields {
		req := f.Req
		if f.T.Kind == kKey && f.T.Primary != nil && *f.T.Primary {
			req = true // README: primary keys are required
		}
		out = append(out, &schema_j5pb.ObjectProperty{
			Name: f.Name, Required: req, ExplicitlyOptional: f.Opt, Description: f.Desc,
			ProtoField: []int32{int32(i + 1)}, Schema: xb.field(f.T, schemaName, f.Name),
		})
	}
	return out
}

func (xb *xsBuilder) decl(d *jDecl, schemaName, shortName string) {
	switch d.Kind {
	case kObject:
		xb.out[schemaName] = &schema_j5pb.RootSchema{Type: &schema_j5pb.RootSchema_Object{Object: &schema_j5pb.Object{Name: schemaName, Description: d.Desc, Properties: xb.props(d.Fields, schemaName)}}}
	case kOneof:
		xb.out[schemaName] = &schema_j5pb.RootSchema{Type: &schema_j5pb.RootSchema_Oneof{Oneof: &schema_j5pb.Oneof{Name: schemaName, Description: d.Desc, Properties: xb.props(d.Fields, schemaName)}}}
	case kEnum:
		prefix := d.Prefix
		if prefix == "" {
			prefix = screamingSnake(shortName) + "_"
		}
		e := &schema_j5pb.Enum{Name: schemaName, Description: d.Desc, Prefix: prefix}
		opts := d.Options
		if len(opts) == 0 || opts[0] != "UNSPECIFIED" {
			e.Options = append(e.Options, &schema_j5pb.Enum_Option{Name: "UNSPECIFIED", Number: 0})
		}
		for _, o := range opts {
			n := int32(len(e.Options))
			e.Options = append(e.Options, &schema_j5pb.Enum_Option{Name: o, Number: n, Description: d.OptDesc[o], Info: d.OptInfo[o]})
		}
		xb.out[schemaName] = &schema_j5pb.RootSchema{Type: &schema_j5pb.RootSchema_Enum{Enum: e}}
	}
	xb.kind[schemaName] = d.Kind
}

// ---- normalisation (documented in DESIGN.md §4 C04) --------------------------------------------------

func isEmptyMsg(m proto.Message) bool {
	return m == nil || !m.ProtoReflect().IsValid() || proto.Size(m) == 0
}

func normField(f *schema_j5pb.Field) {
	if f == nil {
		return
	}
	falseToNil := func(p **bool) {
		if *p != nil && !**p {
			*p = nil
		}
	}
	switch t := f.Type.(type) {
	case *schema_j5pb.Field_String_:
		if t.String_ == nil {
			t.String_ = &schema_j5pb.StringField{}
		}
		if isEmptyMsg(t.String_.Rules) {
			t.String_.Rules = nil
		}
		if isEmptyMsg(t.String_.ListRules) {
			t.String_.ListRules = nil
		}
		t.String_.Ext = nil
	case *schema_j5pb.Field_Key:
		if _, informal := t.Key.GetFormat().GetType().(*schema_j5pb.KeyFormat_Informal_); informal {
			t.Key.Format = nil // 'informal' is the absence of a specific format
		}
		if isEmptyMsg(t.Key.ListRules) {
			t.Key.ListRules = nil
		}
		if isEmptyMsg(t.Key.Entity) {
			t.Key.Entity = nil
		}
		t.Key.Rules, t.Key.Ext = nil, nil
	case *schema_j5pb.Field_Bool:
		if isEmptyMsg(t.Bool.Rules) {
			t.Bool.Rules = nil
		}
		if isEmptyMsg(t.Bool.ListRules) {
			t.Bool.ListRules = nil
		}
		t.Bool.Ext = nil
	case *schema_j5pb.Field_Integer:
		if r := t.Integer.Rules; r != nil {
			falseToNil(&r.ExclusiveMinimum)
			falseToNil(&r.ExclusiveMaximum)
		}
		if isEmptyMsg(t.Integer.Rules) {
			t.Integer.Rules = nil
		}
		if isEmptyMsg(t.Integer.ListRules) {
			t.Integer.ListRules = nil
		}
		t.Integer.Ext = nil
	case *schema_j5pb.Field_Float:
		if r := t.Float.Rules; r != nil {
			falseToNil(&r.ExclusiveMinimum)
			falseToNil(&r.ExclusiveMaximum)
		}
		if isEmptyMsg(t.Float.Rules) {
			t.Float.Rules = nil
		}
		if isEmptyMsg(t.Float.ListRules) {
			t.Float.ListRules = nil
		}
		t.Float.Ext = nil
	case *schema_j5pb.Field_Bytes:
		if isEmptyMsg(t.Bytes.Rules) {
			t.Bytes.Rules = nil
		}
		t.Bytes.Ext = nil
	case *schema_j5pb.Field_Timestamp:
		if isEmptyMsg(t.Timestamp.Rules) {
			t.Timestamp.Rules = nil
		}
		if isEmptyMsg(t.Timestamp.ListRules) {
			t.Timestamp.ListRules = nil
		}
		t.Timestamp.Ext = nil
	case *schema_j5pb.Field_Date:
		if r := t.Date.Rules; r != nil {
			falseToNil(&r.ExclusiveMinimum)
			falseToNil(&r.ExclusiveMaximum)
		}
		if isEmptyMsg(t.Date.Rules) {
			t.Date.Rules = nil
		}
		if isEmptyMsg(t.Date.ListRules) {
			t.Date.ListRules = nil
		}
		t.Date.Ext = nil
	case *schema_j5pb.Field_Decimal:
		if r := t.Decimal.Rules; r != nil {
			falseToNil(&r.ExclusiveMinimum)
			falseToNil(&r.ExclusiveMaximum)
		}
		if isEmptyMsg(t.Decimal.Rules) {
			t.Decimal.Rules = nil
		}
		if isEmptyMsg(t.Decimal.ListRules) {
			t.Decimal.ListRules = nil
		}
		t.Decimal.Ext = nil
	case *schema_j5pb.Field_Any:
		if isEmptyMsg(t.Any.ListRules) {
			t.Any.ListRules = nil
		}
	case *schema_j5pb.Field_Object:
		if isEmptyMsg(t.Object.Rules) {
			t.Object.Rules = nil
		}
		t.Object.Ext = nil
	case *schema_j5pb.Field_Oneof:
		if isEmptyMsg(t.Oneof.ListRules) {
			t.Oneof.ListRules = nil
		}
		t.Oneof.Rules, t.Oneof.Ext = nil, nil
	case *schema_j5pb.Field_Enum:
		if isEmptyMsg(t.Enum.Rules) {
			t.Enum.Rules = nil
		}
		if isEmptyMsg(t.Enum.ListRules) {
			t.Enum.ListRules = nil
		}
		t.Enum.Ext = nil
	case *schema_j5pb.Field_Array:
		if r := t.Array.Rules; r != nil {
			falseToNil(&r.UniqueItems)
		}
		if isEmptyMsg(t.Array.Rules) {
			t.Array.Rules = nil
		}
		if isEmptyMsg(t.Array.Ext) {
			t.Array.Ext = nil
		}
		normField(t.Array.Items)
	case *schema_j5pb.Field_Map:
		if isEmptyMsg(t.Map.Rules) {
			t.Map.Rules = nil
		}
		if isEmptyMsg(t.Map.Ext) {
			t.Map.Ext = nil
		}
		t.Map.KeySchema = nil
		normField(t.Map.ItemSchema)
	}
}

func normRoot(r *schema_j5pb.RootSchema) *schema_j5pb.RootSchema {
	r = proto.Clone(r).(*schema_j5pb.RootSchema)
	var props []*schema_j5pb.ObjectProperty
	switch t := r.Type.(type) {
	case *schema_j5pb.RootSchema_Object:
		props = t.Object.Properties
		t.Object.Description = strings.TrimSpace(t.Object.Description)
	case *schema_j5pb.RootSchema_Oneof:
		props = t.Oneof.Properties
		t.Oneof.Description = strings.TrimSpace(t.Oneof.Description)
	case *schema_j5pb.RootSchema_Enum:
		t.Enum.Description = strings.TrimSpace(t.Enum.Description)
		for _, o := range t.Enum.Options {
			o.Description = strings.TrimSpace(o.Description)
			if len(o.Info) == 0 {
				o.Info = nil
			}
		}
	}
	for _, p := range props {
		p.Description = strings.TrimSpace(p.Description)
		normField(p.Schema)
	}
	return r
}

// protoPathDiff returns the path of the first field in which two messages differ.
func protoPathDiff(a, b protoreflect.Message) string {
	if !a.IsValid() || !b.IsValid() {
		if a.IsValid() != b.IsValid() {
			return "(presence)"
		}
		return ""
	}
	fields := a.Descriptor().Fields()
	for i := 0; i < fields.Len(); i++ {
		fd := fields.Get(i)
		ha, hb := a.Has(fd), b.Has(fd)
		name := string(fd.Name())
		if ha != hb {
			return name
		}
		if !ha {
			continue
		}
		switch {
		case fd.IsList():
			la, lb := a.Get(fd).List(), b.Get(fd).List()
			if la.Len() != lb.Len() {
				return name + "(length)"
			}
			for k := 0; k < la.Len(); k++ {
				if fd.Kind() == protoreflect.MessageKind {
					if p := protoPathDiff(la.Get(k).Message(), lb.Get(k).Message()); p != "" {
						return name + "." + p
					}
				} else if la.Get(k).Interface() != lb.Get(k).Interface() {
					return name
				}
			}
		case fd.IsMap():
			if !proto.Equal(wrapMapHolder(a, fd), wrapMapHolder(b, fd)) {
				return name
			}
		case fd.Kind() == protoreflect.MessageKind:
			if p := protoPathDiff(a.Get(fd).Message(), b.Get(fd).Message()); p != "" {
				return name + "." + p
			}
		default:
			if fmt.Sprint(a.Get(fd).Interface()) != fmt.Sprint(b.Get(fd).Interface()) {
				return name
			}
		}
	}
	return ""
}

func wrapMapHolder(m protoreflect.Message, fd protoreflect.FieldDescriptor) proto.Message {
	n := m.New()
	n.Set(fd, m.Get(fd))
	return n.Interface()
}

func fieldKindName(f *schema_j5pb.Field) string {
	if f == nil || f.Type == nil {
		return "nil"
	}
	name := ""
	f.ProtoReflect().Range(func(fd protoreflect.FieldDescriptor, _ protoreflect.Value) bool {
		name = string(fd.Name())
		return false
	})
	switch t := f.Type.(type) {
	case *schema_j5pb.Field_Array:
		return "array-of-" + fieldKindName(t.Array.Items)
	case *schema_j5pb.Field_Map:
		return "map-of-" + fieldKindName(t.Map.ItemSchema)
	}
	return name
}

// compareRoot reports the differences between the expected and the observed schema.
func compareRoot(c *rt.C, want, got *schema_j5pb.RootSchema, entry, id string, det func() map[string]any) {
	w, g := normRoot(want), normRoot(got)
	if proto.Equal(w, g) {
		c.Event("schemas_equal")
		return
	}
	var wp, gp []*schema_j5pb.ObjectProperty
	name := ""
	switch t := w.Type.(type) {
	case *schema_j5pb.RootSchema_Object:
		name = t.Object.Name
		wp = t.Object.Properties
		if go_, ok := g.Type.(*schema_j5pb.RootSchema_Object); ok {
			gp = go_.Object.Properties
			if len(wp) == len(gp) {
				cw, cg := proto.Clone(t.Object).(*schema_j5pb.Object), proto.Clone(go_.Object).(*schema_j5pb.Object)
				cw.Properties, cg.Properties = nil, nil
				if !proto.Equal(cw, cg) {
					d := det()
					d["expected"], d["observed"] = fmt.Sprint(cw), fmt.Sprint(cg)
					c.Violate("schema-differs/"+entry+"/object/"+protoPathDiff(cw.ProtoReflect(), cg.ProtoReflect()), fmt.Sprintf("%s: object %s read back via %s differs in %s: declared {%v}, read {%v}", id, name, entry, protoPathDiff(cw.ProtoReflect(), cg.ProtoReflect()), cw, cg), d)
				}
			}
		}
	case *schema_j5pb.RootSchema_Oneof:
		name = t.Oneof.Name
		wp = t.Oneof.Properties
		if go_, ok := g.Type.(*schema_j5pb.RootSchema_Oneof); ok {
			gp = go_.Oneof.Properties
		}
	case *schema_j5pb.RootSchema_Enum:
		d := det()
		d["expected"], d["observed"] = fmt.Sprint(w), fmt.Sprint(g)
		c.Violate("schema-differs/"+entry+"/enum/"+protoPathDiff(w.ProtoReflect(), g.ProtoReflect()), fmt.Sprintf("%s: enum %s read back via %s differs in %s: declared {%v}, read {%v}", id, t.Enum.Name, entry, protoPathDiff(w.ProtoReflect(), g.ProtoReflect()), rt.Clip(fmt.Sprint(t.Enum), 300), rt.Clip(fmt.Sprint(g), 300)), d)
		return
	}
	if fmt.Sprintf("%T", w.Type) != fmt.Sprintf("%T", g.Type) {
		c.Violate("schema-differs/"+entry+"/root-kind", fmt.Sprintf("%s: %s is declared as %T but read back via %s as %T", id, name, w.Type, entry, g.Type), det())
		return
	}
	if len(wp) != len(gp) {
		c.Violate("schema-differs/"+entry+"/property-count", fmt.Sprintf("%s: %s declares %d properties, %d read back via %s", id, name, len(wp), len(gp), entry), det())
		return
	}
	for i := range wp {
		if proto.Equal(wp[i], gp[i]) {
			continue
		}
		path := protoPathDiff(wp[i].ProtoReflect(), gp[i].ProtoReflect())
		kind := fieldKindName(wp[i].Schema)
		// drop the leading "schema.<kind>." for the signature, keep the aspect
		aspect := path
		aspect = strings.TrimPrefix(aspect, "schema.")
		d := det()
		d["expected"], d["observed"] = fmt.Sprint(wp[i]), fmt.Sprint(gp[i])
		c.Violate("schema-differs/"+entry+"/"+kind+"/"+aspect, fmt.Sprintf("%s: property %s.%s (%s) read back via %s differs in %s:\n declared {%v}\n read     {%v}", id, name, wp[i].Name, kind, entry, path, wp[i], gp[i]), d)
	}
}

func c04Check(c *rt.C, b *jBundle, id, class string) {
	src := b.sources()
	mb := newMemBundle(src)
	c.Feature("c04:" + class)
	det := func() map[string]any { d := srcDetail(src); d["id"] = id; return d }
	for _, pkg := range mb.packages {
		// expected schemas of this package
		xb := &xsBuilder{pkg: pkg, out: map[string]*schema_j5pb.RootSchema{}, kind: map[string]string{}}
		for _, f := range b.Files {
			if f.Pkg != pkg {
				continue
			}
			for _, e := range f.Elems {
				if e.Decl != nil {
					xb.decl(e.Decl, e.Decl.Name, e.Decl.Name)
				}
			}
		}
		if len(xb.out) == 0 {
			continue
		}
		cp, err := compileBundlePackage(mb, pkg)
		if err != nil {
			c.Event("bundle_does_not_compile")
			c.Feature("c04:compile-failed/" + errSig(err))
			return
		}
		c.Eval(rt.Hash(pkg, string(bundleBytes(src))), true)
		names := make([]string, 0, len(xb.out))
		for n := range xb.out {
			names = append(names, n)
		}
		sort.Strings(names)

		// (a) in-memory descriptors through the schema cache, (b) the schema set over all files,
		// (c) the printed text re-read through protosrc
		type source struct {
			entry  string
			lookup func(schemaName string) (protoreflect.Descriptor, error)
			set    *j5schema.SchemaSet
		}
		var sources []source
		memFiles := &protoregistry.Files{}
		for _, f := range cp.Files {
			_ = registerRecursive(memFiles, f)
		}
		find := func(files *protoregistry.Files) func(string) (protoreflect.Descriptor, error) {
			return func(schemaName string) (protoreflect.Descriptor, error) {
				return files.FindDescriptorByName(protoreflect.FullName(pkg + "." + strings.ReplaceAll(schemaName, "_", ".")))
			}
		}
		sources = append(sources, source{entry: "cache/memory", lookup: find(memFiles)})
		var set *j5schema.SchemaSet
		ok, pv, fn, st := rt.Guard(func() {
			set, err = j5schema.SchemaSetFromFiles(memFiles, func(f protoreflect.FileDescriptor) bool { return string(f.Package()) == pkg })
		})
		if !ok {
			d := det()
			d["stack"] = st
			c.Violate("schemaset-panic/"+fn, fmt.Sprintf("%s: SchemaSetFromFiles panicked: %v", id, pv), d)
		} else if err != nil {
			c.Violate("schemaset-error/"+errSig(err), fmt.Sprintf("%s: SchemaSetFromFiles over the compiled package fails: %v", id, err), det())
		} else {
			sources = append(sources, source{entry: "set/memory", set: set})
		}
		// the text of the whole bundle: files of one package may import files of another
		if printed, perr := printBundle(mb); perr == nil {
			if ct, cerr := compileProtoText(printed); cerr == nil {
				sources = append(sources, source{entry: "cache/text", lookup: find(ct.Files)})
			} else {
				c.Event("printed_text_does_not_compile") // C05
				c.Feature("c04:text-compile-failed/" + errSig(cerr))
			}
		} else {
			c.Event("package_does_not_print")
		}
		for _, s := range sources {
			cache := j5schema.NewSchemaCache()
			for _, n := range names {
				var got *schema_j5pb.RootSchema
				if s.set != nil {
					root, err := s.set.SchemaByName(pkg, n)
					if err != nil || root == nil {
						c.Violate("schema-missing/"+s.entry+"/"+xb.kind[n], fmt.Sprintf("%s: schema %s.%s is not in the schema set: %v", id, pkg, n, err), det())
						continue
					}
					got = root.ToJ5Root()
				} else {
					desc, err := s.lookup(n)
					if err != nil {
						c.Violate("descriptor-missing/"+s.entry, fmt.Sprintf("%s: no descriptor for schema %s.%s: %v", id, pkg, n, err), det())
						continue
					}
					md, isMsg := desc.(protoreflect.MessageDescriptor)
					if !isMsg {
						continue // enums are reached through the fields that use them and through the schema set
					}
					var root j5schema.RootSchema
					var err2 error
					ok, pv, fn, st := rt.Guard(func() { root, err2 = cache.Schema(md) })
					if !ok {
						d := det()
						d["stack"] = st
						c.Violate("schema-panic/"+fn, fmt.Sprintf("%s: SchemaCache.Schema(%s) panicked: %v", id, md.FullName(), pv), d)
						continue
					}
					if err2 != nil {
						c.Violate("schema-error/"+s.entry+"/"+errSig(err2), fmt.Sprintf("%s: the compiled message %s cannot be reflected back: %v", id, md.FullName(), err2), det())
						continue
					}
					got = root.ToJ5Root()
				}
				compareRoot(c, xb.out[n], got, s.entry, id, det)
			}
		}
		if c.WantSample() {
			c.Sample(map[string]any{"id": id, "package": pkg, "schemas": names, "source": src})
		}
	}
}

func registerRecursive(files *protoregistry.Files, f protoreflect.FileDescriptor) error {
	if _, err := files.FindFileByPath(f.Path()); err == nil {
		return nil
	}
	imps := f.Imports()
	for i := 0; i < imps.Len(); i++ {
		_ = registerRecursive(files, imps.Get(i).FileDescriptor)
	}
	return files.RegisterFile(f)
}

// rulesBundle: random fields carrying random admissible rules
func (g *j5Gen) ruledType() *jT {
	rng := g.rng
	maybe := func() bool { return rng.Intn(2) == 0 }
	switch rng.Intn(12) {
	case 0:
		t := tScalar(kString)
		r := &jRules{}
		if maybe() {
			r.MinLen = pU(uint64(rng.Intn(4)))
		}
		if maybe() {
			r.MaxLen = pU(uint64(4 + rng.Intn(10)))
		}
		if maybe() {
			r.Pattern = pS("^[a-z]+$")
		}
		if !r.empty() {
			t.Rules = r
		}
		if maybe() {
			t.List = &jList{Searchable: true}
		}
		return t
	case 1:
		t := tInt([]string{"INT32", "INT64", "UINT32", "UINT64"}[rng.Intn(4)])
		r := &jRules{}
		if maybe() {
			r.Min = pI(int64(rng.Intn(5)))
			if maybe() {
				r.ExMin = pB(maybe())
			}
		}
		if maybe() {
			r.Max = pI(int64(10 + rng.Intn(5)))
			if maybe() {
				r.ExMax = pB(maybe())
			}
		}
		if !r.empty() {
			t.Rules = r
		}
		if maybe() {
			t.List = &jList{Filterable: maybe(), Sortable: true}
		}
		return t
	case 2:
		t := tFloat([]string{"FLOAT32", "FLOAT64"}[rng.Intn(2)])
		if maybe() {
			v := 0.5
			t.Rules = &jRules{FMin: &v}
			if maybe() {
				t.Rules.FExMin = pB(true)
			}
		}
		if maybe() {
			t.List = &jList{Filterable: true, Sortable: maybe()}
		}
		return t
	case 3:
		t := tScalar(kBool)
		if maybe() {
			t.Rules = &jRules{Const: pB(maybe())}
		}
		if maybe() {
			t.List = &jList{Filterable: true}
		}
		return t
	case 4:
		t := tScalar(kBytes)
		if maybe() {
			t.Rules = &jRules{BMinLen: pU(1), BMaxLen: pU(64)}
		}
		return t
	case 5:
		t := tScalar(kDate)
		if maybe() {
			t.Rules = &jRules{SMin: pS("2000-01-01")}
			if maybe() {
				t.Rules.SMax = pS("2100-01-01")
				t.Rules.SExMax = pB(true)
			}
		}
		if maybe() {
			t.List = &jList{Filterable: true}
		}
		return t
	case 6:
		t := tScalar(kDecimal)
		if maybe() {
			t.Rules = &jRules{SMin: pS("0"), SMax: pS("99.99")}
		}
		if maybe() {
			t.List = &jList{Filterable: true, Sortable: true}
		}
		return t
	case 7:
		t := tScalar(kTimestamp)
		if maybe() {
			t.List = &jList{Filterable: true, Sortable: maybe()}
		}
		return t
	case 8:
		t := tKeyF([]string{"", "id62", "uuid", "informal", "custom"}[rng.Intn(5)])
		if t.KeyFmt == "custom" {
			t.KeyCustom = "^[a-z]{3}$"
		}
		switch rng.Intn(4) {
		case 0:
			t.Primary = pB(true)
		case 1:
			t.Foreign = "other.v1.thing"
		case 2:
			t.Tenant = "account"
		}
		if maybe() {
			t.List = &jList{Filterable: true}
		}
		return t
	case 9:
		t := tScalar("any")
		if maybe() {
			t.AnyOnlyDefined = true
			t.AnyTypes = []string{"some.v1.Thing"}
		}
		return t
	case 10:
		// an inline enum with in / notIn rules (the implicit zero option may be named) and list rules
		opts := []string{"ON", "OFF", "AUTO"}
		t := &jT{Kind: kEnum, Inline: &jDecl{Kind: kEnum, Options: opts}}
		if maybe() {
			t.Inline.Options = append([]string{"UNSPECIFIED"}, opts...)
		}
		pick := func() string {
			if rng.Intn(4) == 0 {
				return "UNSPECIFIED"
			}
			return opts[rng.Intn(len(opts))]
		}
		switch rng.Intn(3) {
		case 0:
			t.Rules = &jRules{In: []string{pick()}}
		case 1:
			t.Rules = &jRules{NotIn: []string{pick()}}
		}
		if maybe() {
			t.List = &jList{Filterable: true}
		}
		return t
	default:
		item := g.ruledType()
		for item.Kind == "array" || item.Kind == "map" || item.Kind == "any" {
			item = tScalar(kString)
		}
		// entity key markers describe a property of an entity, not the items of a collection
		item.Primary, item.Foreign, item.Tenant = nil, "", ""
		if maybe() {
			t := tArr(item)
			r := &jRules{}
			if maybe() {
				r.MinItems = pU(uint64(rng.Intn(3)))
			}
			if maybe() {
				r.MaxItems = pU(uint64(3 + rng.Intn(5)))
			}
			if maybe() {
				r.Unique = pB(maybe())
			}
			if !r.empty() {
				t.Rules = r
			}
			if rng.Intn(4) == 0 {
				t.SingleForm = "item"
			}
			return t
		}
		t := tMap(item)
		if maybe() {
			t.Rules = &jRules{MinPairs: pU(1), MaxPairs: pU(9)}
		}
		return t
	}
}

func runC04(r *rt.Runner) {
	for _, cell := range isolationMatrix() {
		cell := cell
		if cell.TotalityOnly {
			continue
		}
		r.Do("iso/"+cell.ID, func(c *rt.C) {
			c04Check(c, cell.Bundle, "iso:"+cell.ID, "isolation")
		})
	}
	// property names that a case library would spell differently, in every container position
	r.Do("naming/containers", func(c *rt.C) {
		b := namingBundle()
		c04Check(c, b, "naming/containers", "naming-stress")
	})
	for b := 0; b < r.Scale(600, 20000); b++ {
		r.Do(fmt.Sprintf("rules/%d", b), func(c *rt.C) {
			g := &j5Gen{rng: c.Rand()}
			var fields []*jF
			for _, n := range g.pickNames(2 + g.rng.Intn(6)) {
				f := fld(n, g.ruledType())
				switch g.rng.Intn(5) {
				case 0:
					f.Req = true
				case 1:
					// a primary key is required by definition
					if f.T.Kind != "array" && f.T.Kind != "map" && !(f.T.Primary != nil && *f.T.Primary) {
						f.Opt = true
					}
				}
				if g.rng.Intn(3) == 0 {
					f.Desc = "About " + n
				}
				fields = append(fields, f)
			}
			b2 := elemsBundle(&jElem{Decl: &jDecl{Kind: kObject, Name: "Ruled", Desc: "An object with rules", Fields: fields}})
			c04Check(c, b2, fmt.Sprintf("rules:%d", b), "random-rules")
		})
	}
	for b := 0; b < r.Scale(300, 8000); b++ {
		r.Do(fmt.Sprintf("bundle/%d", b), func(c *rt.C) {
			bundle := (&j5Gen{rng: c.Rand()}).randomBundle()
			if b%2 == 0 {
				decorate(bundle)
			}
			c04Check(c, bundle, fmt.Sprintf("random:%d", b), "random-bundle")
		})
	}
}

// namingBundle: property names that a case library would spell differently, in every container position.
func namingBundle() *jBundle {
	names := append([]string{"ipv4addrs", "userIDs", "apiURLs", "lineItems2go"}, c02StressNames...)
	var fields []*jF
	for i, n := range names {
		t := []*jT{tArr(tScalar(kString)), tMap(tInt("INT32")), tArr(tRef(kObject, "Leaf", "iso.v1.Leaf")), tArr(tRef(kEnum, "Color", "iso.v1.Color")), tScalar(kString), tMap(tRef(kObject, "Leaf", "iso.v1.Leaf")), tRef(kObject, "Leaf", "iso.v1.Leaf"), tArr(tKeyF("id62"))}[i%8]
		fields = append(fields, fld(n, t))
	}
	return elemsBundle(objDecl("Named", fields...), objDecl("Leaf", fld("name", tScalar(kString))), enumDecl("Color", "RED", "GREEN"),
		&jElem{Decl: &jDecl{Kind: kOneof, Name: "NamedChoice", Fields: []*jF{fld("vendorSKU", &jT{Kind: kObject, InlineName: "Vendor", Inline: &jDecl{Kind: kObject, Fields: []*jF{fld("eTag", tScalar(kString))}}}), fld("x509Cert", tRef(kObject, "Leaf", "iso.v1.Leaf"))}}},
		&jElem{Service: &jService{Name: "Named", BasePath: "/iso/v1", Methods: []*jMethod{{Name: "GetNamed", HTTPMethod: "GET", Path: "/named/:userID", Req: []*jF{fld("userID", tKeyF("id62")), fld("apiURLPrefix", tScalar(kString))}, HasRes: true, Res: []*jF{fld("oAuth2Token", tScalar(kString))}}}}})
}
