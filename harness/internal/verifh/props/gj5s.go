//go:build verif

package props

import (
	"fmt"
	"math/rand"
	"sort"
	"strconv"
	"strings"
)

// G-J5S: j5s bundles with an intermediate representation from which both the
// source text and the expected results (descriptors, schemas, validation
// verdicts, API) are derived by harness code. Every production of the renderer
// follows a documented form: README.md ("Schemas", "Services", "Topics",
// "Entities"), internal/j5s/README.md, j5parse.J5SchemaSpec + the
// j5.schema.v1 / j5.sourcedef.v1 protos (attribute names) and the repository's
// own j5parse / j5convert / protobuild tests.

type jRules struct {
	MinLen, MaxLen   *uint64 // string
	Pattern          *string
	BMinLen, BMaxLen *uint64 // bytes
	Min, Max         *int64  // integer
	ExMin, ExMax     *bool
	FMin, FMax       *float64 // float
	FExMin, FExMax   *bool
	Const            *bool    // bool
	In, NotIn        []string // enum (short names)
	SMin, SMax       *string  // date / decimal
	SExMin, SExMax   *bool
	MinItems         *uint64 // array
	MaxItems         *uint64
	Unique           *bool
	MinPairs         *uint64 // map
	MaxPairs         *uint64
}

func (r *jRules) empty() bool {
	return r == nil || (r.MinLen == nil && r.MaxLen == nil && r.Pattern == nil && r.BMinLen == nil && r.BMaxLen == nil && r.Min == nil && r.Max == nil && r.ExMin == nil && r.ExMax == nil &&
		r.FMin == nil && r.FMax == nil && r.FExMin == nil && r.FExMax == nil && r.Const == nil && r.In == nil && r.NotIn == nil && r.SMin == nil && r.SMax == nil && r.SExMin == nil && r.SExMax == nil && r.MinItems == nil && r.MaxItems == nil && r.Unique == nil && r.MinPairs == nil && r.MaxPairs == nil)
}

type jList struct {
	Filterable, Sortable, Searchable bool
	DefaultFilters                   []string
}

type jT struct {
	Kind      string // kString kKey kBool "integer" "float" kBytes kTimestamp kDate kDecimal "any" kObject kOneof kEnum "array" "map"
	IntFmt    string // INT32 INT64 UINT32 UINT64
	FloatFmt  string // FLOAT32 FLOAT64
	KeyFmt    string // "" id62 uuid informal custom
	KeyCustom string
	StrFormat string // string format attribute (email, uri, ...)

	Ref     string // reference as written in the source (Bar, baz.Bar, bar.baz.v1.Bar)
	RefFull string // resolved full proto name the reference denotes

	Inline     *jDecl // inline object / oneof / enum
	InlineName string // explicit name ("" = default from the field name)

	Item *jT // array / map

	Rules   *jRules
	List    *jList
	Flatten bool
	// key annotations
	Primary *bool
	Foreign string // "pkg.v1.entity" written as foreign = "..."
	Tenant  string
	// any
	AnyOnlyDefined bool
	AnyTypes       []string
	// array / map ext
	SingleForm string
	// rendering choices
	ItemAsBlock bool // array/map item given as nested "items <type> {" block instead of qualifier chain
	RefAsBlock  bool // reference given as "ref x.Y" line in the body instead of qualifier
}

type jF struct {
	Name     string // lowerCamel
	T        *jT
	Req, Opt bool
	UseMarks bool // "!" / "?" marks instead of body attributes
	Desc     string
	DescLine bool // description on the header line (only without body)
}

type jDecl struct {
	Kind    string // object | oneof | enum
	Name    string
	Desc    string
	Fields  []*jF    // object fields / oneof options
	Options []string // enum options (short names)
	OptDesc map[string]string
	OptInfo map[string]map[string]string
	// OptNumber gives an option an explicit number (number = N in its body)
	OptNumber map[string]int32
	Prefix    string // enum prefix override
}

type jMethod struct {
	Name       string
	HTTPMethod string // GET POST PUT PATCH DELETE
	Path       string // "/foo/:fooId"
	Req        []*jF
	Res        []*jF
	HasRes     bool
}

type jService struct {
	Name     string
	BasePath string
	Methods  []*jMethod
	// Audience is written as options.audience = [...]
	Audience []string
}

type jTopicMsg struct {
	Name   string
	Fields []*jF
}

type jTopic struct {
	Name     string
	Type     string // publish | reqres | upsert
	Messages []*jTopicMsg
	Request  *jTopicMsg
	Reply    *jTopicMsg
}

type jEvent struct {
	Name   string
	Fields []*jF
}

type jEntity struct {
	Name     string
	Desc     string
	Keys     []*jF
	Shard    map[string]bool
	Data     []*jF
	Statuses []string
	Events   []*jEvent
	Commands []*jService
	// Schemas are object / enum / oneof declarations written inside the entity block
	Schemas []*jDecl
	Summary [][]*jF
	// SummaryNames[i] names Summary[i] ("" = the default "Summary")
	SummaryNames []string
	// query options
	EventsInGet         bool
	DefaultStatusFilter []string
}

type jElem struct {
	Decl    *jDecl
	Service *jService
	Topic   *jTopic
	Entity  *jEntity
}

type jImport struct {
	Path  string // package name (foo.v1) or file path ("foo/v1/x.proto")
	Alias string
	File  bool
}

type jFile struct {
	Path    string
	Pkg     string
	Imports []*jImport
	Elems   []*jElem
}

type jBundle struct {
	Files  []*jFile
	Protos map[string]string // hand-written .proto files of the bundle
}

// ---- rendering --------------------------------------------------------------------------------------

type j5Renderer struct {
	sb  strings.Builder
	rng *rand.Rand // spelling choices that do not change meaning (indentation); nil = canonical
}

func (r *j5Renderer) line(depth int, s string) {
	r.sb.WriteString(strings.Repeat("\t", depth))
	r.sb.WriteString(s)
	r.sb.WriteString("\n")
}

func quoteJ5(s string) string {
	var sb strings.Builder
	sb.WriteByte('"')
	for _, c := range s {
		switch c {
		case '"', '\\', '\n':
			sb.WriteByte('\\') // a newline inside a string is written as backslash + line break
		}
		sb.WriteRune(c)
	}
	sb.WriteByte('"')
	return sb.String()
}

func regexJ5(s string) string {
	// strings are accepted for pattern attributes; used because regex literals cannot start with '/' or '*'
	return quoteJ5(s)
}

func (r *j5Renderer) descBlock(depth int, desc string) {
	if desc == "" {
		return
	}
	for _, l := range strings.Split(desc, "\n") {
		if l == "" {
			r.line(depth, "|")
		} else {
			r.line(depth, "| "+l)
		}
	}
}

// typeTag renders "string", "integer:INT32", "array:object:Bar" ... and
// returns the attribute prefix under which the innermost type's attributes
// must be addressed when the qualifier chain brought the item inline.
func (t *jT) headTag() string {
	switch t.Kind {
	case "integer":
		return "integer:" + t.IntFmt
	case "float":
		return "float:" + t.FloatFmt
	case kKey:
		switch t.KeyFmt {
		case "":
			return "key"
		case "custom":
			return "key:custom"
		}
		return "key:" + t.KeyFmt
	case kObject, kOneof, kEnum:
		if t.Inline == nil && !t.RefAsBlock {
			return t.Kind + ":" + t.Ref
		}
		return t.Kind
	case "array", "map":
		if t.ItemAsBlock {
			return t.Kind
		}
		return t.Kind + ":" + t.Item.headTag()
	}
	return t.Kind
}

func u64s(v *uint64) string { return fmt.Sprint(*v) }

// attrs returns the body attribute lines of a type, prefixed with prefix.
func (t *jT) attrs(prefix string) []string {
	var out []string
	add := func(path, lit string) { out = append(out, prefix+path+" = "+lit) }
	if t.Kind == kString && t.StrFormat != "" {
		add("format", quoteJ5(t.StrFormat))
	}
	if t.Kind == kKey && t.KeyFmt == "custom" {
		if prefix == "" {
			add("pattern", quoteJ5(t.KeyCustom))
		} else {
			add("format.custom.pattern", quoteJ5(t.KeyCustom)) // the ":custom" qualifier scopes only the field's own body
		}
	}
	if r := t.Rules; r != nil {
		if r.MinLen != nil {
			add("rules.minLength", u64s(r.MinLen))
		}
		if r.MaxLen != nil {
			add("rules.maxLength", u64s(r.MaxLen))
		}
		if r.Pattern != nil {
			add("rules.pattern", regexJ5(*r.Pattern))
		}
		if r.BMinLen != nil {
			add("rules.minLength", u64s(r.BMinLen))
		}
		if r.BMaxLen != nil {
			add("rules.maxLength", u64s(r.BMaxLen))
		}
		if r.Min != nil {
			add("rules.minimum", fmt.Sprint(*r.Min))
		}
		if r.Max != nil {
			add("rules.maximum", fmt.Sprint(*r.Max))
		}
		if r.ExMin != nil {
			add("rules.exclusiveMinimum", fmt.Sprint(*r.ExMin))
		}
		if r.ExMax != nil {
			add("rules.exclusiveMaximum", fmt.Sprint(*r.ExMax))
		}
		if r.FMin != nil {
			add("rules.minimum", strconv.FormatFloat(*r.FMin, 'f', -1, 64))
		}
		if r.FMax != nil {
			add("rules.maximum", strconv.FormatFloat(*r.FMax, 'f', -1, 64))
		}
		if r.FExMin != nil {
			add("rules.exclusiveMinimum", fmt.Sprint(*r.FExMin))
		}
		if r.FExMax != nil {
			add("rules.exclusiveMaximum", fmt.Sprint(*r.FExMax))
		}
		if r.Const != nil {
			add("rules.const", fmt.Sprint(*r.Const))
		}
		if r.In != nil {
			add("rules.in", "["+strings.Join(quoteAll(r.In), ", ")+"]")
		}
		if r.NotIn != nil {
			add("rules.notIn", "["+strings.Join(quoteAll(r.NotIn), ", ")+"]")
		}
		if r.SMin != nil {
			add("rules.minimum", quoteJ5(*r.SMin))
		}
		if r.SMax != nil {
			add("rules.maximum", quoteJ5(*r.SMax))
		}
		if r.SExMin != nil {
			add("rules.exclusiveMinimum", fmt.Sprint(*r.SExMin))
		}
		if r.SExMax != nil {
			add("rules.exclusiveMaximum", fmt.Sprint(*r.SExMax))
		}
		if r.MinItems != nil {
			add("rules.minItems", u64s(r.MinItems))
		}
		if r.MaxItems != nil {
			add("rules.maxItems", u64s(r.MaxItems))
		}
		if r.Unique != nil {
			add("rules.uniqueItems", fmt.Sprint(*r.Unique))
		}
		if r.MinPairs != nil {
			add("rules.minPairs", u64s(r.MinPairs))
		}
		if r.MaxPairs != nil {
			add("rules.maxPairs", u64s(r.MaxPairs))
		}
	}
	if l := t.List; l != nil {
		switch t.Kind {
		case kString:
			if l.Searchable {
				add("listRules.searching.searchable", "true")
			}
		default:
			if l.Filterable {
				add("listRules.filtering.filterable", "true")
			}
			if len(l.DefaultFilters) > 0 {
				add("listRules.filtering.defaultFilters", "["+strings.Join(quoteAll(l.DefaultFilters), ", ")+"]")
			}
			if l.Sortable {
				add("listRules.sorting.sortable", "true")
			}
		}
	}
	if t.Flatten {
		add("flatten", "true")
	}
	if t.Primary != nil {
		add("entity.primaryKey", fmt.Sprint(*t.Primary))
	}
	if t.Foreign != "" {
		add("foreign", quoteJ5(t.Foreign))
	}
	if t.Tenant != "" {
		add("entity.tenantKey", quoteJ5(t.Tenant))
	}
	if t.AnyOnlyDefined {
		add("onlyDefined", "true")
	}
	if len(t.AnyTypes) > 0 {
		add("types", "["+strings.Join(quoteAll(t.AnyTypes), ", ")+"]")
	}
	if t.SingleForm != "" {
		add("ext.singleForm", quoteJ5(t.SingleForm))
	}
	return out
}

func quoteAll(xs []string) []string {
	out := make([]string, len(xs))
	for i, x := range xs {
		out[i] = quoteJ5(x)
	}
	return out
}

// itemPrefix: how the attributes of the item type are addressed from the field body
func itemAttrPrefix(container *jT) string {
	name := "items"
	if container.Kind == "map" {
		name = "itemSchema"
	}
	kind := container.Item.Kind
	return name + "." + kind + "."
}

func (r *j5Renderer) inlineBody(depth int, d *jDecl) {
	r.descBlock(depth, d.Desc)
	switch d.Kind {
	case kObject:
		for _, f := range d.Fields {
			r.field(depth, "field", f)
		}
	case kOneof:
		for _, f := range d.Fields {
			r.field(depth, "option", f)
		}
	case kEnum:
		r.enumOptions(depth, d)
	}
}

func (r *j5Renderer) enumOptions(depth int, d *jDecl) {
	for _, o := range d.Options {
		info := d.OptInfo[o]
		desc := d.OptDesc[o]
		num, hasNum := d.OptNumber[o]
		if len(info) == 0 && !hasNum && !strings.Contains(desc, "\n") {
			if desc != "" {
				r.line(depth, "option "+o+" | "+desc)
			} else {
				r.line(depth, "option "+o)
			}
			continue
		}
		r.line(depth, "option "+o+" {")
		r.descBlock(depth+1, desc)
		if hasNum {
			r.line(depth+1, fmt.Sprintf("number = %d", num))
		}
		keys := make([]string, 0, len(info))
		for k := range info {
			keys = append(keys, k)
		}
		sort.Strings(keys)
		for _, k := range keys {
			r.line(depth+1, "info."+k+" = "+quoteJ5(info[k]))
		}
		r.line(depth, "}")
	}
}

// field renders one property ("field"), oneof option ("option"), entity key/data.
func (r *j5Renderer) field(depth int, keyword string, f *jF) {
	t := f.T
	head := keyword + " " + f.Name
	if f.UseMarks && f.Req {
		head += " !"
	} else if f.UseMarks && f.Opt {
		head += " ?"
	}
	head += " " + t.headTag()

	var body []string
	if !f.UseMarks && f.Req {
		body = append(body, "required = true")
	}
	if !f.UseMarks && f.Opt {
		body = append(body, "optional = true")
	}
	body = append(body, t.attrs("")...)

	type blk struct {
		open  string
		inner func(depth int)
	}
	var blocks []blk

	inner := t
	prefix := ""
	if t.Kind == "array" || t.Kind == "map" {
		if t.ItemAsBlock {
			item := t.Item
			name := "items"
			if t.Kind == "map" {
				name = "itemSchema"
			}
			blocks = append(blocks, blk{open: name + " " + item.headTag() + " {", inner: func(d int) {
				for _, a := range item.attrs("") {
					r.line(d, a)
				}
				r.refOrInline(d, item, "")
			}})
			inner = nil
		} else {
			inner = t.Item
			prefix = itemAttrPrefix(t)
			body = append(body, inner.attrs(prefix)...)
		}
	}
	hasInline := false
	if inner != nil {
		hasInline = inner.Inline != nil || inner.RefAsBlock
	}

	if len(body) == 0 && len(blocks) == 0 && !hasInline && (f.Desc == "" || f.DescLine) {
		if f.Desc != "" {
			head += " | " + strings.ReplaceAll(f.Desc, "\n", " ")
		}
		r.line(depth, head)
		return
	}
	r.line(depth, head+" {")
	r.descBlock(depth+1, f.Desc)
	for _, a := range body {
		r.line(depth+1, a)
	}
	for _, b := range blocks {
		r.line(depth+1, b.open)
		b.inner(depth + 2)
		r.line(depth+1, "}")
	}
	if inner != nil {
		r.refOrInline(depth+1, inner, strings.TrimSuffix(prefix, "."))
	}
	r.line(depth, "}")
}

// refOrInline renders what an object/oneof/enum type needs inside the body it is in scope of.
func (r *j5Renderer) refOrInline(depth int, t *jT, prefix string) {
	if t.Kind != kObject && t.Kind != kOneof && t.Kind != kEnum {
		return
	}
	if t.Inline == nil {
		if t.RefAsBlock {
			r.line(depth, "ref "+t.Ref)
		}
		return
	}
	if t.InlineName != "" {
		p := t.Kind + ".name"
		r.line(depth, p+" = "+quoteJ5(t.InlineName))
	}
	r.inlineBody(depth, t.Inline)
}

func (r *j5Renderer) decl(depth int, d *jDecl) {
	switch d.Kind {
	case kObject:
		r.line(depth, "object "+d.Name+" {")
		r.descBlock(depth+1, d.Desc)
		for i, f := range d.Fields {
			if i > 0 || d.Desc != "" {
				r.sb.WriteString("\n")
			}
			r.field(depth+1, "field", f)
		}
		r.line(depth, "}")
	case kOneof:
		r.line(depth, "oneof "+d.Name+" {")
		r.descBlock(depth+1, d.Desc)
		for _, f := range d.Fields {
			r.field(depth+1, "option", f)
		}
		r.line(depth, "}")
	case kEnum:
		r.line(depth, "enum "+d.Name+" {")
		r.descBlock(depth+1, d.Desc)
		if d.Prefix != "" {
			r.line(depth+1, "prefix = "+quoteJ5(d.Prefix))
		}
		r.enumOptions(depth+1, d)
		r.line(depth, "}")
	}
}

func (r *j5Renderer) service(depth int, s *jService, keyword string) {
	if s.Name != "" {
		r.line(depth, keyword+" "+s.Name+" {")
	} else {
		r.line(depth, keyword+" {")
	}
	if s.BasePath != "" {
		r.line(depth+1, "basePath = "+quoteJ5(s.BasePath))
	}
	if len(s.Audience) > 0 {
		r.line(depth+1, "options.audience = ["+strings.Join(quoteAll(s.Audience), ", ")+"]")
	}
	for _, m := range s.Methods {
		r.sb.WriteString("\n")
		r.line(depth+1, "method "+m.Name+" {")
		r.line(depth+2, "httpMethod = "+quoteJ5(m.HTTPMethod))
		r.line(depth+2, "httpPath = "+quoteJ5(m.Path))
		r.sb.WriteString("\n")
		r.line(depth+2, "request {")
		for _, f := range m.Req {
			r.field(depth+3, "field", f)
		}
		r.line(depth+2, "}")
		if m.HasRes {
			r.sb.WriteString("\n")
			r.line(depth+2, "response {")
			for _, f := range m.Res {
				r.field(depth+3, "field", f)
			}
			r.line(depth+2, "}")
		}
		r.line(depth+1, "}")
	}
	r.line(depth, "}")
}

func (r *j5Renderer) topic(depth int, t *jTopic) {
	r.line(depth, "topic "+t.Name+" "+t.Type+" {")
	msg := func(keyword string, m *jTopicMsg) {
		if m.Name != "" {
			r.line(depth+1, keyword+" "+m.Name+" {")
		} else {
			r.line(depth+1, keyword+" {")
		}
		for _, f := range m.Fields {
			r.field(depth+2, "field", f)
		}
		r.line(depth+1, "}")
	}
	switch t.Type {
	case "publish", "upsert":
		for _, m := range t.Messages {
			msg("message", m)
		}
	case "reqres":
		msg("request", t.Request)
		msg("reply", t.Reply)
	}
	r.line(depth, "}")
}

func (r *j5Renderer) entity(depth int, e *jEntity) {
	r.line(depth, "entity "+e.Name+" {")
	r.descBlock(depth+1, e.Desc)
	if e.EventsInGet {
		r.line(depth+1, "query.eventsInGet = true")
	}
	if len(e.DefaultStatusFilter) > 0 {
		r.line(depth+1, "query.defaultStatusFilter = ["+strings.Join(quoteAll(e.DefaultStatusFilter), ", ")+"]")
	}
	for _, k := range e.Keys {
		r.sb.WriteString("\n")
		r.entityKey(depth+1, k, e.Shard[k.Name])
	}
	for _, f := range e.Data {
		r.sb.WriteString("\n")
		r.field(depth+1, "data", f)
	}
	r.sb.WriteString("\n")
	for _, s := range e.Statuses {
		r.line(depth+1, "status "+s)
	}
	for _, ev := range e.Events {
		r.sb.WriteString("\n")
		r.line(depth+1, "event "+ev.Name+" {")
		for _, f := range ev.Fields {
			r.field(depth+2, "field", f)
		}
		r.line(depth+1, "}")
	}
	for _, c := range e.Commands {
		r.sb.WriteString("\n")
		r.service(depth+1, c, "command")
	}
	for _, d := range e.Schemas {
		r.sb.WriteString("\n")
		r.decl(depth+1, d)
	}
	for i, s := range e.Summary {
		r.sb.WriteString("\n")
		if i < len(e.SummaryNames) && e.SummaryNames[i] != "" {
			r.line(depth+1, "summary "+e.SummaryNames[i]+" {")
		} else {
			r.line(depth+1, "summary {")
		}
		for _, f := range s {
			r.field(depth+2, "field", f)
		}
		r.line(depth+1, "}")
	}
	r.line(depth, "}")
}

func (r *j5Renderer) entityKey(depth int, f *jF, shard bool) {
	// EntityKey has aliases primary / tenant (J5SchemaSpec "j5.sourcedef.v1.EntityKey")
	t := *f.T
	var extra []string
	if t.Primary != nil {
		extra = append(extra, fmt.Sprintf("primary = %v", *t.Primary))
		t.Primary = nil
	}
	if t.Tenant != "" {
		extra = append(extra, "tenant = "+quoteJ5(t.Tenant))
		t.Tenant = ""
	}
	if shard {
		extra = append(extra, "shardKey = true")
	}
	head := "key " + f.Name
	if f.UseMarks && f.Req {
		head += " !"
	} else if f.UseMarks && f.Opt {
		head += " ?"
	}
	head += " " + t.headTag()
	var body []string
	if !f.UseMarks && f.Req {
		body = append(body, "required = true")
	}
	if !f.UseMarks && f.Opt {
		body = append(body, "optional = true")
	}
	body = append(body, extra...)
	body = append(body, t.attrs("")...)
	if len(body) == 0 && f.Desc == "" {
		r.line(depth, head)
		return
	}
	r.line(depth, head+" {")
	r.descBlock(depth+1, f.Desc)
	for _, a := range body {
		r.line(depth+1, a)
	}
	r.line(depth, "}")
}

func (f *jFile) render() string {
	r := &j5Renderer{}
	r.line(0, "package "+f.Pkg)
	if len(f.Imports) > 0 {
		r.sb.WriteString("\n")
	}
	for _, imp := range f.Imports {
		switch {
		case imp.File:
			r.line(0, "import "+quoteJ5(imp.Path))
		case imp.Alias != "":
			r.line(0, "import "+imp.Path+":"+imp.Alias)
		default:
			r.line(0, "import "+imp.Path)
		}
	}
	for _, e := range f.Elems {
		r.sb.WriteString("\n")
		switch {
		case e.Decl != nil:
			r.decl(0, e.Decl)
		case e.Service != nil:
			r.service(0, e.Service, "service")
		case e.Topic != nil:
			r.topic(0, e.Topic)
		case e.Entity != nil:
			r.entity(0, e.Entity)
		}
	}
	return r.sb.String()
}

func (b *jBundle) sources() map[string]string {
	out := map[string]string{}
	for _, f := range b.Files {
		out[f.Path] = f.render()
	}
	for p, s := range b.Protos {
		out[p] = s
	}
	return out
}

func (b *jBundle) packages() []string {
	seen := map[string]bool{}
	var out []string
	for _, f := range b.Files {
		if !seen[f.Pkg] {
			seen[f.Pkg] = true
			out = append(out, f.Pkg)
		}
	}
	sort.Strings(out)
	return out
}
