//go:build verif

package props

import (
	"context"
	"fmt"
	"io"
	"os"
	"path/filepath"
	"sort"
	"strings"
	"testing/fstest"

	"github.com/bufbuild/protocompile"
	"github.com/pentops/j5/internal/j5s/protoprint"
	"github.com/pentops/j5/internal/protosrc"
	"github.com/pentops/j5/internal/verifh/rt"
	"google.golang.org/protobuf/proto"
	"google.golang.org/protobuf/reflect/protodesc"
	"google.golang.org/protobuf/reflect/protoreflect"
	"google.golang.org/protobuf/reflect/protoregistry"
	"google.golang.org/protobuf/types/descriptorpb"
	"google.golang.org/protobuf/types/dynamicpb"
)

func init() { Registry["C05"] = runC05 }

// canonFile projects a FileDescriptorProto onto what C05 lists. Options are
// re-marshalled through the global registry so that extension values compare
// by content.
func canonFile(in *descriptorpb.FileDescriptorProto) (*descriptorpb.FileDescriptorProto, map[string]string, error) {
	b, err := proto.MarshalOptions{Deterministic: true}.Marshal(in)
	if err != nil {
		return nil, nil, err
	}
	fd := &descriptorpb.FileDescriptorProto{}
	if err := proto.Unmarshal(b, fd); err != nil {
		return nil, nil, err
	}
	comments := map[string]string{}
	if fd.SourceCodeInfo != nil {
		for _, loc := range fd.SourceCodeInfo.Location {
			if loc.GetLeadingComments() == "" {
				continue
			}
			var lines []string
			for _, l := range strings.Split(loc.GetLeadingComments(), "\n") {
				// "// text" reads back as " text": one leading blank is the comment marker's, anything else is the text's
				l = strings.TrimPrefix(l, " ")
				lines = append(lines, l)
			}
			txt := strings.Trim(strings.Join(lines, "\n"), "\n")
			if txt != "" {
				comments[fmt.Sprint(loc.Path)] = txt
			}
		}
	}
	fd.SourceCodeInfo = nil
	sort.Strings(fd.Dependency)
	fd.PublicDependency, fd.WeakDependency = nil, nil
	if fd.Options != nil && proto.Size(fd.Options) == 0 {
		fd.Options = nil
	}
	if fd.Syntax != nil && *fd.Syntax == "proto3" {
		// keep
	}
	var doMsg func(m *descriptorpb.DescriptorProto)
	doMsg = func(m *descriptorpb.DescriptorProto) {
		if m.Options != nil && proto.Size(m.Options) == 0 {
			m.Options = nil
		}
		// synthetic oneofs of proto3-optional fields are dropped on both sides
		real := map[int32]int32{}
		var kept []*descriptorpb.OneofDescriptorProto
		for i, o := range m.OneofDecl {
			synthetic := false
			members := 0
			for _, f := range m.Field {
				if f.OneofIndex != nil && *f.OneofIndex == int32(i) {
					members++
					if f.GetProto3Optional() {
						synthetic = true
					}
				}
			}
			if synthetic && members == 1 {
				continue
			}
			real[int32(i)] = int32(len(kept))
			if o.Options != nil && proto.Size(o.Options) == 0 {
				o.Options = nil
			}
			kept = append(kept, o)
		}
		m.OneofDecl = kept
		for _, f := range m.Field {
			if f.OneofIndex != nil {
				if ni, ok := real[*f.OneofIndex]; ok {
					f.OneofIndex = proto.Int32(ni)
				} else {
					f.OneofIndex = nil
				}
			}
			if f.JsonName == nil || *f.JsonName == "" {
				f.JsonName = proto.String(protocJSONName(f.GetName()))
			}
			if f.Options != nil && proto.Size(f.Options) == 0 {
				f.Options = nil
			}
		}
		for _, n := range m.NestedType {
			doMsg(n)
		}
		for _, e := range m.EnumType {
			canonEnum(e)
		}
	}
	for _, m := range fd.MessageType {
		doMsg(m)
	}
	for _, e := range fd.EnumType {
		canonEnum(e)
	}
	// the order in which extensions are declared is not part of the contract (the printer groups them by extendee)
	sort.SliceStable(fd.Extension, func(i, j int) bool {
		if fd.Extension[i].GetExtendee() != fd.Extension[j].GetExtendee() {
			return fd.Extension[i].GetExtendee() < fd.Extension[j].GetExtendee()
		}
		return fd.Extension[i].GetNumber() < fd.Extension[j].GetNumber()
	})
	for _, x := range fd.Extension {
		if x.JsonName == nil || *x.JsonName == "" {
			x.JsonName = proto.String(protocJSONName(x.GetName()))
		}
		if x.Options != nil && proto.Size(x.Options) == 0 {
			x.Options = nil
		}
	}
	for _, s := range fd.Service {
		if s.Options != nil && proto.Size(s.Options) == 0 {
			s.Options = nil
		}
		for _, m := range s.Method {
			if m.Options != nil && proto.Size(m.Options) == 0 {
				m.Options = nil
			}
		}
	}
	return fd, comments, nil
}

func canonEnum(e *descriptorpb.EnumDescriptorProto) {
	if e.Options != nil && proto.Size(e.Options) == 0 {
		e.Options = nil
	}
	for _, v := range e.Value {
		if v.Options != nil && proto.Size(v.Options) == 0 {
			v.Options = nil
		}
	}
}

// describeFileDiff names the first element in which two canonical descriptors differ.
func describeFileDiff(a, b *descriptorpb.FileDescriptorProto) (kind string, text string) {
	if a.GetPackage() != b.GetPackage() {
		return "package", fmt.Sprintf("package %q vs %q", a.GetPackage(), b.GetPackage())
	}
	if strings.Join(a.Dependency, ",") != strings.Join(b.Dependency, ",") {
		return "imports", fmt.Sprintf("imports %v vs %v", a.Dependency, b.Dependency)
	}
	if !proto.Equal(a.Options, b.Options) {
		return "file-options", fmt.Sprintf("file options %v vs %v", a.Options, b.Options)
	}
	var msgDiff func(path string, x, y *descriptorpb.DescriptorProto) (string, string)
	msgDiff = func(path string, x, y *descriptorpb.DescriptorProto) (string, string) {
		p := path + "." + x.GetName()
		if x.GetName() != y.GetName() {
			return "message-name", fmt.Sprintf("%s: message %s vs %s", path, x.GetName(), y.GetName())
		}
		if !proto.Equal(x.Options, y.Options) {
			return "message-options", fmt.Sprintf("%s: options %v vs %v", p, x.Options, y.Options)
		}
		if len(x.Field) != len(y.Field) {
			return "field-count", fmt.Sprintf("%s: %d vs %d fields", p, len(x.Field), len(y.Field))
		}
		for i := range x.Field {
			fx, fy := x.Field[i], y.Field[i]
			if !proto.Equal(fx, fy) {
				what := "field"
				switch {
				case fx.GetName() != fy.GetName():
					what = "field-name"
				case fx.GetNumber() != fy.GetNumber():
					what = "field-number"
				case fx.GetType() != fy.GetType() || fx.GetTypeName() != fy.GetTypeName():
					what = "field-type"
				case fx.GetLabel() != fy.GetLabel():
					what = "field-label"
				case fx.GetProto3Optional() != fy.GetProto3Optional():
					what = "field-proto3-optional"
				case fx.GetJsonName() != fy.GetJsonName():
					what = "field-json-name"
				case (fx.OneofIndex == nil) != (fy.OneofIndex == nil) || fx.GetOneofIndex() != fy.GetOneofIndex():
					what = "field-oneof-membership"
				case !proto.Equal(fx.Options, fy.Options):
					what = "field-options"
					if x.GetOptions().GetMapEntry() {
						what = "map-entry-field-options"
					}
				}
				return what, fmt.Sprintf("%s.%s: %v vs %v", p, fx.GetName(), fx, fy)
			}
		}
		if len(x.OneofDecl) != len(y.OneofDecl) {
			return "oneof-count", fmt.Sprintf("%s: %d vs %d oneofs", p, len(x.OneofDecl), len(y.OneofDecl))
		}
		for i := range x.OneofDecl {
			if !proto.Equal(x.OneofDecl[i], y.OneofDecl[i]) {
				return "oneof", fmt.Sprintf("%s: oneof %v vs %v", p, x.OneofDecl[i], y.OneofDecl[i])
			}
		}
		if len(x.NestedType) != len(y.NestedType) {
			return "nested-count", fmt.Sprintf("%s: %d vs %d nested messages", p, len(x.NestedType), len(y.NestedType))
		}
		for i := range x.NestedType {
			if k, t := msgDiff(p, x.NestedType[i], y.NestedType[i]); k != "" {
				return k, t
			}
		}
		if len(x.EnumType) != len(y.EnumType) {
			return "nested-enum-count", fmt.Sprintf("%s: %d vs %d nested enums", p, len(x.EnumType), len(y.EnumType))
		}
		for i := range x.EnumType {
			if !proto.Equal(x.EnumType[i], y.EnumType[i]) {
				return "enum", fmt.Sprintf("%s: enum %v vs %v", p, x.EnumType[i], y.EnumType[i])
			}
		}
		if !proto.Equal(x, y) {
			return "message-other", fmt.Sprintf("%s: %v vs %v", p, x, y)
		}
		return "", ""
	}
	if len(a.MessageType) != len(b.MessageType) {
		return "message-count", fmt.Sprintf("%d vs %d messages", len(a.MessageType), len(b.MessageType))
	}
	for i := range a.MessageType {
		if k, t := msgDiff(a.GetPackage(), a.MessageType[i], b.MessageType[i]); k != "" {
			return k, t
		}
	}
	if len(a.EnumType) != len(b.EnumType) {
		return "enum-count", fmt.Sprintf("%d vs %d enums", len(a.EnumType), len(b.EnumType))
	}
	for i := range a.EnumType {
		if !proto.Equal(a.EnumType[i], b.EnumType[i]) {
			what := "enum"
			if len(a.EnumType[i].Value) == len(b.EnumType[i].Value) {
				for j := range a.EnumType[i].Value {
					if !proto.Equal(a.EnumType[i].Value[j].Options, b.EnumType[i].Value[j].Options) {
						what = "enum-value-options"
					}
				}
			}
			return what, fmt.Sprintf("enum %v vs %v", a.EnumType[i], b.EnumType[i])
		}
	}
	if len(a.Service) != len(b.Service) {
		return "service-count", fmt.Sprintf("%d vs %d services", len(a.Service), len(b.Service))
	}
	for i := range a.Service {
		if !proto.Equal(a.Service[i], b.Service[i]) {
			return "service", fmt.Sprintf("service %v vs %v", a.Service[i], b.Service[i])
		}
	}
	if !proto.Equal(a, b) {
		return "file-other", "descriptors differ"
	}
	return "", ""
}

// c05CheckFiles: print every file, re-parse all printed files together, compare.
func c05CheckFiles(c *rt.C, files []protoreflect.FileDescriptor, extra map[string]string, id string, class string, origin map[string]string) {
	printed := map[string]string{}
	det := func() map[string]any {
		d := map[string]any{"class": class, "id": id}
		if origin != nil {
			d["sources"] = origin
		}
		d["printed"] = printed
		return d
	}
	for _, f := range files {
		var txt string
		var err error
		c.Input([]byte(f.Path()))
		ok, pv, fn, st := rt.Guard(func() { txt, err = protoprint.PrintFile(context.Background(), f, "") })
		c.EndBudget()
		if !ok {
			d := det()
			d["stack"] = st
			c.Violate("print-panic/"+fn, fmt.Sprintf("PrintFile(%s) panicked: %v", f.Path(), pv), d)
			return
		}
		if err != nil {
			c.Violate("print-error/"+errSig(err), fmt.Sprintf("PrintFile(%s) fails: %v", f.Path(), err), det())
			return
		}
		printed[f.Path()] = txt
	}
	mfs := fstest.MapFS{}
	for p, t := range printed {
		mfs[p] = &fstest.MapFile{Data: []byte(t)}
	}
	for p, t := range extra {
		if _, dup := mfs[p]; !dup {
			mfs[p] = &fstest.MapFile{Data: []byte(t)}
		}
	}
	img, err := protosrc.ReadFSImage(context.Background(), mfs, nil, emptyResolver{})
	if err != nil {
		c.Violate("reparse-fails/"+errSig(err), fmt.Sprintf("the printed text does not parse/link (%s): %v", id, rt.Clip(err.Error(), 400)), det())
		return
	}
	reparsed := map[string]*descriptorpb.FileDescriptorProto{}
	for _, fd := range img.File {
		reparsed[fd.GetName()] = fd
	}
	// second print needs linked descriptors
	linked, lerr := protodesc.NewFiles(&descriptorpb.FileDescriptorSet{File: img.File})
	for _, f := range files {
		c.Eval(rt.Hash(class, printed[f.Path()]), len(printed[f.Path()]) > 60)
		orig := protodesc.ToFileDescriptorProto(f)
		again, ok := reparsed[f.Path()]
		if !ok {
			c.Violate("reparse/missing-file", fmt.Sprintf("%s is missing after re-parsing", f.Path()), det())
			continue
		}
		ca, commA, e1 := canonFile(orig)
		cb, commB, e2 := canonFile(again)
		if e1 != nil || e2 != nil {
			panic(fmt.Sprintf("harness: canon: %v %v", e1, e2))
		}
		if kind, text := describeFileDiff(ca, cb); kind != "" {
			d := det()
			d["file"] = f.Path()
			c.Violate("descriptor-differs/"+kind, fmt.Sprintf("printing and re-parsing %s changes the descriptor (%s): %s", f.Path(), kind, rt.Clip(text, 500)), d)
		}
		// comments
		keys := make([]string, 0, len(commA))
		for k := range commA {
			keys = append(keys, k)
		}
		sort.Strings(keys)
		for _, k := range keys {
			if commB[k] != commA[k] {
				d := det()
				d["file"] = f.Path()
				c.Violate("comment-differs", fmt.Sprintf("leading comment at path %s of %s: %q before, %q after re-parsing", k, f.Path(), commA[k], commB[k]), d)
				break
			}
		}
		if len(commA) > 0 {
			c.Feature("c05:comments")
		}
		for k := range commB {
			if _, ok := commA[k]; !ok {
				d := det()
				d["file"] = f.Path()
				c.Violate("comment-appears", fmt.Sprintf("a leading comment %q appears at path %s of %s after re-parsing", commB[k], k, f.Path()), d)
				break
			}
		}
		if lerr == nil {
			if f2, err := linked.FindFileByPath(f.Path()); err == nil {
				var t2 string
				var perr error
				ok, pv, fn, _ := rt.Guard(func() { t2, perr = protoprint.PrintFile(context.Background(), f2, "") })
				if !ok {
					c.Violate("reprint-panic/"+fn, fmt.Sprintf("printing the re-parsed %s panicked: %v", f.Path(), pv), det())
				} else if perr != nil {
					c.Violate("reprint-error/"+errSig(perr), fmt.Sprintf("printing the re-parsed %s fails: %v", f.Path(), perr), det())
				} else if t2 != printed[f.Path()] {
					d := det()
					d["second_print"] = t2
					c.Violate("reprint-differs/"+reprintClass(printed[f.Path()], t2), fmt.Sprintf("printing the re-parsed %s gives a different text: %s", f.Path(), firstDifferingLine(printed[f.Path()], t2)), d)
				} else {
					c.Event("reprints_identical")
				}
			}
		}
		if c.WantSample() && len(printed[f.Path()]) > 300 {
			c.Sample(map[string]any{"file": f.Path(), "printed": rt.Clip(printed[f.Path()], 900), "class": class})
		}
	}
}

// reprintClass: what kind of line differs between the first and the second print
func reprintClass(a, b string) string {
	la, lb := strings.Split(a, "\n"), strings.Split(b, "\n")
	for i := 0; i < len(la) && i < len(lb); i++ {
		if la[i] == lb[i] {
			continue
		}
		strip := func(l string) string {
			if j := strings.Index(l, "//"); j >= 0 {
				l = l[:j]
			}
			return strings.TrimRight(l, " ")
		}
		if strip(la[i]) == strip(lb[i]) {
			return "non-leading-comment"
		}
		return "other"
	}
	return "length"
}

// c05CheckBundle compiles every package of the bundle and checks all compiled files.
func c05CheckBundle(c *rt.C, b *jBundle, id, class string) {
	src := b.sources()
	mb := newMemBundle(src)
	var files []protoreflect.FileDescriptor
	seen := map[string]bool{}
	for _, pkg := range mb.packages {
		cp, err := compileBundlePackage(mb, pkg)
		if err != nil {
			c.Event("bundle_does_not_compile")
			c.Feature("c05:compile-failed/" + id + "/" + errSig(err))
			if c.Runner().Arg("show", "") != "" {
				fmt.Printf("COMPILE-FAIL %s: %v\n%s\n", id, err, bundleBytes(src))
			}
			return
		}
		for _, f := range cp.Files {
			if !seen[f.Path()] {
				seen[f.Path()] = true
				files = append(files, f)
			}
		}
	}
	c05CheckFiles(c, files, nil, id, class, src)
}

// decorate adds descriptions and escapes to a bundle (C05 quantifies over
// "descriptions and every annotation present").
func decorate(b *jBundle) {
	descs := []string{"A plain description", "With \"quotes\" and a \\ backslash", "Two lines\nof text", "Paragraph one\n\nParagraph two", "Unicode: é 日本語", "Slashes // and /* stars */", "Trailing space ",
		"100% of %d items, %s and %% signs", "Ends with a percent %", "Beyond the BMP: 🔥 𝒳 🇳🇿", "Control \u0001 and \u007f and tab\there"}
	i := 0
	next := func() string { i++; return descs[i%len(descs)] }
	var inDecl func(d *jDecl, top bool)
	inType := func(t *jT) {
		for t != nil {
			if t.Inline != nil {
				inDecl(t.Inline, false)
			}
			t = t.Item
		}
	}
	inDecl = func(d *jDecl, top bool) {
		if top {
			// (the description written inside an inline body belongs to the property that holds it)
			d.Desc = next()
		}
		for _, fl := range d.Fields {
			fl.Desc = next()
			fl.DescLine = false
			inType(fl.T)
		}
		if d.Kind == kEnum {
			d.OptDesc = map[string]string{}
			for _, o := range d.Options {
				if o == "UNSPECIFIED" {
					continue
				}
				d.OptDesc[o] = next()
			}
		}
	}
	inFields := func(fs []*jF) {
		for _, fl := range fs {
			fl.Desc = next()
			fl.DescLine = false
			inType(fl.T)
		}
	}
	for _, f := range b.Files {
		for _, e := range f.Elems {
			switch {
			case e.Decl != nil:
				inDecl(e.Decl, true)
			case e.Service != nil:
				for _, m := range e.Service.Methods {
					inFields(m.Req)
					inFields(m.Res)
				}
			case e.Topic != nil:
				for _, m := range e.Topic.Messages {
					inFields(m.Fields)
				}
			}
		}
	}
}

func runC05(r *rt.Runner) {
	for _, cell := range isolationMatrix() {
		cell := cell
		if cell.TotalityOnly {
			continue
		}
		r.Do("iso/"+cell.ID, func(c *rt.C) {
			c05CheckBundle(c, cell.Bundle, "iso:"+cell.ID, "isolation")
			c.Feature("c05:isolation")
		})
	}
	// option values: strings needing escapes, numeric boundaries, nested messages, repeated and map fields, enums
	r.Do("options/escapes", func(c *rt.C) {
		var fields []*jF
		for i, p := range []string{`^"quoted"$`, `^back\\slash$`, "^tab\\tchar$", "^[a-z]{2,3}$", "^unié$", "^it's$", "^percent%d$", "^/slashes//$", `^\d+\.\d+$`, "^🔥+$", "^[𝒳-𝒵]$"} {
			fields = append(fields, fld(fmt.Sprintf("pat%c", 'A'+i), tScalar(kString).with(func(t *jT) { t.Rules = &jRules{Pattern: pS(p)} })))
		}
		fields = append(fields, fld("bigMax", tInt("UINT64").with(func(t *jT) { t.Rules = &jRules{Max: pI(9223372036854775807)} })))
		fields = append(fields, fld("bigLen", tScalar(kString).with(func(t *jT) { t.Rules = &jRules{MaxLen: pU(18446744073709551615)} })))
		pF := func(v float64) *float64 { return &v }
		fields = append(fields, fld("ratio", tFloat("FLOAT64").with(func(t *jT) { t.Rules = &jRules{FMin: pF(0.1), FMax: pF(3.141592653589793)} })))
		fields = append(fields, fld("tiny", tFloat("FLOAT64").with(func(t *jT) { t.Rules = &jRules{FMin: pF(0.000001234), FMax: pF(12345678901234567890)} })))
		fields = append(fields, fld("third", tFloat("FLOAT64").with(func(t *jT) { t.Rules = &jRules{FMin: pF(1.0 / 3.0), FMax: pF(16777217)} })))
		fields = append(fields, fld("when", tScalar(kDate).with(func(t *jT) { t.Rules = &jRules{SMin: pS("2020-01-01"), SMax: pS("2030-01-01"), SExMax: pB(true)} })))
		info := map[string]map[string]string{"RED": {"hex": "ff\"00\\00", "name": "réd", "z": "", "ab": "x\ny", "fire": "🔥 hot 𝒳", "ctl": "bell\u0007 esc\u001b"}}
		b := elemsBundle(&jElem{Decl: &jDecl{Kind: kObject, Name: "Escapes", Fields: fields}}, &jElem{Decl: &jDecl{Kind: kEnum, Name: "Color", Options: []string{"RED", "GREEN"}, OptInfo: info}})
		c05CheckBundle(c, b, "options/escapes", "option-values")
		c.Feature("c05:option-values")
	})
	// JSON names that are not the ones derived from the proto field names
	r.Do("naming", func(c *rt.C) {
		c05CheckBundle(c, namingBundle(), "naming/containers", "naming-stress")
		c.Feature("c05:naming-stress")
	})
	// name-scoping hazards
	r.Do("scoping", func(c *rt.C) {
		inner := func(name string) *jT {
			return &jT{Kind: kObject, InlineName: name, Inline: &jDecl{Kind: kObject, Fields: []*jF{fld("label", tScalar(kString))}}}
		}
		bundles := map[string]*jBundle{
			"self-reference":          elemsBundle(objDecl("Node", fld("next", tRef(kObject, "Node", "iso.v1.Node")), fld("kids", tArr(tRef(kObject, "Node", "iso.v1.Node"))))),
			"nested-same-as-top":      elemsBundle(objDecl("Item", fld("name", tScalar(kString))), objDecl("Holder", fld("inner", inner("Item")), fld("outer", tRef(kObject, "Item", "iso.v1.Item")))),
			"nested-named-parent":     elemsBundle(objDecl("Holder", fld("inner", inner("Holder")))),
			"two-parents-same-nested": elemsBundle(objDecl("Left", fld("part", inner("Part"))), objDecl("Right", fld("part", inner("Part")))),
			"nested-refers-parent":    elemsBundle(objDecl("Tree", fld("branch", &jT{Kind: kObject, Inline: &jDecl{Kind: kObject, Fields: []*jF{fld("tree", tRef(kObject, "Tree", "iso.v1.Tree"))}}}))),
		}
		inlineEnum := func() *jT { return &jT{Kind: kEnum, Inline: &jDecl{Kind: kEnum, Options: []string{"ON", "OFF"}}} }
		// a nested type (named after its field) that has the name of a package-level type which a sibling field refers to
		bundles["nested-enum-shadows-top-enum"] = elemsBundle(enumDecl("Status", "OPEN", "DONE"), objDecl("Job", fld("status", inlineEnum()), fld("overall", tRef(kEnum, "Status", "iso.v1.Status"))))
		bundles["nested-enum-shadows-top-enum-ref-first"] = elemsBundle(enumDecl("Status", "OPEN", "DONE"), objDecl("Job", fld("overall", tRef(kEnum, "Status", "iso.v1.Status")), fld("status", inlineEnum())))
		bundles["nested-enum-shadows-top-message"] = elemsBundle(objDecl("Status", fld("text", tScalar(kString))), objDecl("Job", fld("status", inlineEnum()), fld("overall", tRef(kObject, "Status", "iso.v1.Status")), fld("all", tArr(tRef(kObject, "Status", "iso.v1.Status")))))
		bundles["nested-message-shadows-top-enum"] = elemsBundle(enumDecl("Mode", "FAST", "SLOW"), objDecl("Job", fld("mode", &jT{Kind: kObject, Inline: &jDecl{Kind: kObject, Fields: []*jF{fld("label", tScalar(kString))}}}), fld("overall", tRef(kEnum, "Mode", "iso.v1.Mode")), fld("byName", tMap(tRef(kEnum, "Mode", "iso.v1.Mode")))))
		bundles["nested-oneof-shadows-top-message"] = elemsBundle(objDecl("Choice", fld("text", tScalar(kString))), objDecl("Job", fld("choice", &jT{Kind: kOneof, Inline: &jDecl{Kind: kOneof, Fields: []*jF{fld("left", &jT{Kind: kObject, Inline: &jDecl{Kind: kObject, Fields: []*jF{fld("x", tScalar(kString))}}})}}}), fld("overall", tRef(kObject, "Choice", "iso.v1.Choice"))))
		for _, name := range rt.SortedKeys(bundles) {
			c05CheckBundle(c, bundles[name], "scoping/"+name, "scoping")
		}
		c.Feature("c05:scoping")
	})
	for b := 0; b < r.Scale(300, 32000); b++ {
		r.Do(fmt.Sprintf("bundle/%d", b), func(c *rt.C) {
			bundle := detBundle(c.Rand())
			// extras.proto uses options it declares itself; the harness re-links printed text through
			// protodesc, which knows registered extensions only, so that file cannot be re-printed here
			for p := range bundle.Protos {
				if strings.HasSuffix(p, "/extras.proto") {
					delete(bundle.Protos, p)
				}
			}
			if b%2 == 0 {
				decorate(bundle)
			}
			c05CheckBundle(c, bundle, fmt.Sprintf("random:%d", b), "random")
			c.Feature("c05:random")
		})
	}
	// hand-shaped proto3 files: option values nested 1 … 8 levels deep (the constraint messages of the validate
	// library are recursive), repeated and map-typed option fields, every scalar kind of option value
	r.Do("synthetic-options", func(c *rt.C) {
		var sb strings.Builder
		sb.WriteString("syntax = \"proto3\";\n\npackage synth.v1;\n\nimport \"buf/validate/validate.proto\";\nimport \"j5/ext/v1/annotations.proto\";\nimport \"j5/list/v1/annotations.proto\";\n\n// Deep option values\nmessage Deep {\n")
		n := 0
		for depth := 1; depth <= 8; depth++ {
			chain := strings.Repeat("repeated.items.", depth-1)
			n++
			fmt.Fprintf(&sb, "  repeated string list_%d = %d [(buf.validate.field).%sstring.min_len = %d];\n", depth, n, chain, depth)
			chain = strings.Repeat("map.values.", depth-1)
			n++
			fmt.Fprintf(&sb, "  map<string, string> map_%d = %d [(buf.validate.field).%sstring = {min_len: %d, pattern: \"^a{%d}$\"}];\n", depth, n, chain, depth, depth)
		}
		n++
		fmt.Fprintf(&sb, "  string key_%d = %d [(j5.list.v1.field).string.foreign_key.uuid.filtering = {filterable: true, default_filters: [\"a\", \"b\"]}];\n", n, n)
		n++
		fmt.Fprintf(&sb, "  repeated int64 nums = %d [(buf.validate.field).repeated = {min_items: 1, unique: true, items: {int64: {in: [1, 2, 3], not_in: [4]}}}];\n", n)
		n++
		fmt.Fprintf(&sb, "  double ratio = %d [(buf.validate.field).double = {gt: 0.1, lte: 3.141592653589793}];\n", n)
		n++
		fmt.Fprintf(&sb, "  bytes blob = %d [(buf.validate.field).bytes = {prefix: \"\\x00\\xff\\\"q\", min_len: 1}];\n", n)
		sb.WriteString("}\n")
		// commented declarations with nothing inside and no options
		sb.WriteString("\n// takes no parameters\nmessage NoParameters {}\n\n// nothing to say\n// on two lines\nmessage Silent {\n}\n\n// no methods yet\nservice NothingService {}\n\n// no values but zero\nenum OnlyZero {\n  // the zero\n  ONLY_ZERO_UNSPECIFIED = 0;\n}\n\n// holder\nmessage Outer {\n  // nested and empty\n  message InnerEmpty {}\n\n  // uses it\n  InnerEmpty inner = 1;\n\n  // and the top-level one\n  NoParameters none = 2;\n}\n")
		// detached comments (section headings): before a declaration that has no leading comment of its own, before one
		// that has, two in a row, inside a message, before an enum value and a method
		sb.WriteString("\n// Section: detached heading\n\nmessage AfterDetached {\n  // detached inside the body\n\n  string a = 1;\n\n  // leading of b\n  string b = 2;\n}\n\n// detached one\n\n// detached two\n\n// leading of Both\nmessage Both {\n  string c = 1;\n}\n\n// Section: enums\n\nenum Sectioned {\n  SECTIONED_UNSPECIFIED = 0;\n\n  // detached before a value\n\n  SECTIONED_ONE = 1;\n}\n\n// Section: services\n\nservice SectionedService {\n  // detached before a method\n\n  rpc Do(Both) returns (Both) {}\n}\n")
		src := map[string]string{"synth/v1/deep.proto": sb.String()}
		ct, err := compileProtoText(src)
		if err != nil {
			c.Feature("c05:synthetic-does-not-compile/" + errSig(err))
			return
		}
		f, err := ct.Files.FindFileByPath("synth/v1/deep.proto")
		if err != nil {
			return
		}
		c05CheckFiles(c, []protoreflect.FileDescriptor{f}, nil, "synthetic-options", "synthetic-options", nil)
		c.Feature("c05:synthetic-options")
	})
	// a hand-written file declaring its own option messages: map fields of every key and value kind, repeated
	// scalars, nested messages, enums (no registered extension has a map whose values are not strings)
	r.Do("custom-options", func(c *rt.C) { c05CustomOptions(c) })
	// every hand-written proto3 file in the repository's proto/ tree
	r.Do("repo-protos", func(c *rt.C) {
		root := os.Getenv("VERIF_REPO_DIR")
		if root == "" {
			root = "/repo"
		}
		roots, _ := filepath.Glob(filepath.Join(root, "proto", "*"))
		sort.Strings(roots)
		for _, pr := range roots {
			mfs := fstest.MapFS{}
			_ = filepath.Walk(pr, func(p string, info os.FileInfo, err error) error {
				if err == nil && !info.IsDir() && strings.HasSuffix(p, ".proto") {
					data, _ := os.ReadFile(p)
					rel, _ := filepath.Rel(pr, p)
					mfs[rel] = &fstest.MapFile{Data: data}
				}
				return nil
			})
			if len(mfs) == 0 {
				continue
			}
			img, err := protosrc.ReadFSImage(context.Background(), mfs, nil, emptyResolver{})
			if err != nil {
				c.Event("repo_proto_root_does_not_compile")
				continue
			}
			linked, err := protodesc.NewFiles(&descriptorpb.FileDescriptorSet{File: img.File})
			if err != nil {
				c.Event("repo_proto_root_does_not_link")
				continue
			}
			var files []protoreflect.FileDescriptor
			names := make([]string, 0, len(mfs))
			for n := range mfs {
				names = append(names, n)
			}
			sort.Strings(names)
			for _, n := range names {
				if f, err := linked.FindFileByPath(n); err == nil {
					files = append(files, f)
				}
			}
			c05CheckFiles(c, files, nil, "repo:"+filepath.Base(pr), "repo-proto", nil)
			c.Feature("c05:repo-proto")
		}
	})
}

const c05CustomFile = "custom/v1/custom.proto"

func c05CompileCustom(src string) (protoreflect.FileDescriptor, error) {
	cc := protocompile.Compiler{
		Resolver: protocompile.WithStandardImports(&protocompile.SourceResolver{
			Accessor: func(name string) (io.ReadCloser, error) {
				if name != c05CustomFile {
					return nil, os.ErrNotExist
				}
				return io.NopCloser(strings.NewReader(src)), nil
			},
		}),
		SourceInfoMode: protocompile.SourceInfoStandard,
	}
	files, err := cc.Compile(context.Background(), c05CustomFile)
	if err != nil {
		return nil, err
	}
	return files[0], nil
}

// c05DecodeWith re-decodes the descriptor of file with the extension types declared in typesFrom, so that
// option values are compared as values (not as unknown bytes).
func c05DecodeWith(file, typesFrom protoreflect.FileDescriptor) *descriptorpb.FileDescriptorProto {
	fdp := protodesc.ToFileDescriptorProto(file)
	fdp.SourceCodeInfo = nil
	types := &protoregistry.Types{}
	exts := typesFrom.Extensions()
	for i := 0; i < exts.Len(); i++ {
		if err := types.RegisterExtension(dynamicpb.NewExtensionType(exts.Get(i))); err != nil {
			panic("harness: register extension: " + err.Error())
		}
	}
	b, err := proto.MarshalOptions{Deterministic: true}.Marshal(fdp)
	if err != nil {
		panic("harness: marshal: " + err.Error())
	}
	out := &descriptorpb.FileDescriptorProto{}
	if err := (proto.UnmarshalOptions{Resolver: types}).Unmarshal(b, out); err != nil {
		panic("harness: unmarshal: " + err.Error())
	}
	return out
}

func c05CustomOptions(c *rt.C) {
	type mapCase struct{ name, typ, entries string }
	cases := []mapCase{
		{"string-string", "map<string, string>", `{key: "colour", value: "red \"dark\""}, {key: "badge", value: "new"}`},
		{"int32-int64", "map<int32, int64>", `{key: 2, value: -9223372036854775808}, {key: 1, value: 7}`},
		{"string-int32", "map<string, int32>", `{key: "low", value: 1}, {key: "high", value: -2147483648}`},
		{"string-uint64", "map<string, uint64>", `{key: "max", value: 18446744073709551615}`},
		{"string-bool", "map<string, bool>", `{key: "visible", value: true}, {key: "editable", value: false}`},
		{"string-enum", "map<string, Level>", `{key: "default", value: LEVEL_HIGH}, {key: "zero", value: LEVEL_UNSPECIFIED}`},
		{"string-double", "map<string, double>", `{key: "ratio", value: 0.25}, {key: "third", value: 0.3333333333333333}`},
		{"string-bytes", "map<string, bytes>", `{key: "magic", value: "\001\002\377"}`},
		{"string-message", "map<string, Sub>", `{key: "a", value: {text: "x", n: 3}}, {key: "b", value: {}}`},
		{"bool-string", "map<bool, string>", `{key: true, value: "yes"}, {key: false, value: "no"}`},
		{"int64-string", "map<int64, string>", `{key: -5, value: "minus five"}, {key: 9007199254740993, value: "big"}`},
		{"uint32-bool", "map<uint32, bool>", `{key: 4294967295, value: true}`},
	}
	for _, tc := range cases {
		src := strings.Join([]string{
			`syntax = "proto3";`, ``, `package custom.v1;`, ``, `import "google/protobuf/descriptor.proto";`, ``,
			`extend google.protobuf.FieldOptions {`, `  Display display = 50001;`, `}`, ``,
			`extend google.protobuf.MessageOptions {`, `  Display shown = 50002;`, `}`, ``,
			`message Sub {`, `  string text = 1;`, `  int32 n = 2;`, `}`, ``,
			`message Display {`, `  string label = 1;`, `  ` + tc.typ + ` hints = 2;`, `  repeated int32 sizes = 3;`, `  Sub sub = 4;`, `  repeated Level levels = 5;`, `}`, ``,
			`enum Level {`, `  LEVEL_UNSPECIFIED = 0;`, `  LEVEL_LOW = 1;`, `  LEVEL_HIGH = 5;`, `}`, ``,
			`message Thing {`,
			`  option (shown) = {`, `    hints: [` + tc.entries + `]`, `    levels: [LEVEL_LOW, LEVEL_HIGH]`, `  };`, ``,
			`  string name = 1 [(display) = {`, `    label: "Name"`, `    hints: [` + tc.entries + `]`, `    sizes: [1, -2, 2147483647]`, `    sub: {text: "t", n: -1}`, `  }];`,
			`}`, ``,
		}, "\n")
		id := "custom/" + tc.name
		det := map[string]any{"class": "custom-options", "id": id, "source": src}
		original, err := c05CompileCustom(src)
		if err != nil {
			c.Feature("c05:custom-does-not-compile/" + tc.name + "/" + errSig(err))
			continue
		}
		var printed string
		c.Input([]byte(src))
		ok, pv, fn, st := rt.Guard(func() { printed, err = protoprint.PrintFile(context.Background(), original, "") })
		c.EndBudget()
		if !ok {
			det["stack"] = st
			c.Violate("print-panic/"+fn, fmt.Sprintf("PrintFile of a file with a %s option field panicked: %v", tc.typ, pv), det)
			continue
		}
		if err != nil {
			c.Violate("print-error/"+errSig(err), fmt.Sprintf("PrintFile of a file with a %s option field fails: %v", tc.typ, err), det)
			continue
		}
		det["printed"] = printed
		c.Eval(rt.Hash("custom-options", printed), true)
		reparsed, err := c05CompileCustom(printed)
		if err != nil {
			c.Violate("reparse-fails/"+errSig(err), fmt.Sprintf("the printed text of a file with a %s option field does not compile: %v", tc.typ, rt.Clip(err.Error(), 300)), det)
			continue
		}
		want, got := c05DecodeWith(original, original), c05DecodeWith(reparsed, original)
		if !proto.Equal(want, got) {
			c.Violate("descriptor-differs/custom-option-value", fmt.Sprintf("printing and re-parsing changes a %s option value: %v before, %v after", tc.typ, want.MessageType[2].Field[0].Options, got.MessageType[2].Field[0].Options), det)
			continue
		}
		var again string
		ok, pv, fn, _ = rt.Guard(func() { again, err = protoprint.PrintFile(context.Background(), reparsed, "") })
		if !ok {
			c.Violate("reprint-panic/"+fn, fmt.Sprintf("printing the re-parsed file panicked: %v", pv), det)
		} else if err != nil {
			c.Violate("reprint-error/"+errSig(err), fmt.Sprintf("printing the re-parsed file fails: %v", err), det)
		} else if again != printed {
			det["second_print"] = again
			c.Violate("reprint-differs/"+reprintClass(printed, again), "printing the re-parsed file gives a different text: "+firstDifferingLine(printed, again), det)
		} else {
			c.Event("reprints_identical")
			c.Event("custom_option_files_round_tripped")
		}
		c.Feature("c05:custom-options/" + tc.name)
	}
}
