//go:build verif

package props

import (
	"crypto/sha256"
	"fmt"
	"math/rand"
	"sort"
	"strings"

	"github.com/pentops/j5/internal/j5s/protobuild"
	"github.com/pentops/j5/internal/verifh/rt"
	"google.golang.org/protobuf/proto"
)

func init() { Registry["C14"] = runC14 }

type c14Digest struct {
	desc string
	text string
	// kept for the report
	rawText string
}

// c14Compile compiles every package of the bundle under one configuration and
// returns digests per output file.
func c14Compile(mb *memBundle, pkgOrder []string, reuse bool, warm func(ps *protobuild.PackageSet)) (map[string]c14Digest, error) {
	out := map[string]c14Digest{}
	var ps *protobuild.PackageSet
	var err error
	for _, pkg := range pkgOrder {
		if ps == nil || !reuse {
			ps, err = protobuild.NewPackageSet(noDeps{}, mb)
			if err != nil {
				return nil, err
			}
			if warm != nil {
				warm(ps)
			}
		}
		cp, err := compileOn(ps, pkg)
		if err != nil {
			return nil, fmt.Errorf("package %s: %w", pkg, err)
		}
		txt, err := printPackage(cp)
		if err != nil {
			return nil, err
		}
		for i, f := range cp.Files {
			b, err := proto.MarshalOptions{Deterministic: true}.Marshal(cp.Protos[i])
			if err != nil {
				return nil, err
			}
			t := txt[f.Path()]
			out[pkg+"|"+f.Path()] = c14Digest{desc: fmt.Sprintf("%x", sha256.Sum256(b)), text: fmt.Sprintf("%x", sha256.Sum256([]byte(t))), rawText: t}
		}
	}
	return out, nil
}

func firstDifferingLine(a, b string) string {
	la, lb := strings.Split(a, "\n"), strings.Split(b, "\n")
	for i := 0; i < len(la) && i < len(lb); i++ {
		if la[i] != lb[i] {
			return fmt.Sprintf("line %d: %q vs %q", i+1, la[i], lb[i])
		}
	}
	return fmt.Sprintf("lengths %d vs %d lines", len(la), len(lb))
}

func lineClass(d string) string {
	// what kind of line differs: the first identifier-ish word of the differing line
	i := strings.Index(d, "\"")
	if i < 0 {
		return "unknown"
	}
	w := strings.TrimSpace(d[i+1:])
	w = strings.TrimLeft(w, " \t")
	for j, r := range w {
		if !(r == '_' || r == '.' || r == '(' || r == ')' || (r >= 'a' && r <= 'z') || (r >= 'A' && r <= 'Z')) {
			w = w[:j]
			break
		}
	}
	if w == "" {
		return "unknown"
	}
	return w
}

// detBundle: multi-file multi-package bundles biased toward what iterates maps.
func detBundle(rng *rand.Rand) *jBundle {
	g := &j5Gen{rng: rng}
	b := g.randomBundle()
	// enum with info on several options, several imports, several dependencies
	f := b.Files[0]
	info := map[string]map[string]string{}
	opts := []string{"ONE", "TWO", "THREE", "FOUR", "FIVE", "SIX"}
	keys := []string{"alpha", "beta", "gamma", "delta", "epsilon", "zeta"}
	for i, o := range opts {
		// 1, 2, 3 … entries: every map size from one up is printed
		info[o] = map[string]string{}
		for _, k := range keys[:i+1] {
			info[o][k] = k[:1] + o
		}
	}
	f.Elems = append(f.Elems, &jElem{Decl: &jDecl{Kind: kEnum, Name: "InfoEnum", Options: opts, OptInfo: info}})
	f.Elems = append(f.Elems, objDecl("ManyTypes", fld("when", tScalar(kTimestamp)), fld("day", tScalar(kDate)), fld("amount", tScalar(kDecimal)), fld("whatever", tScalar("any")),
		fld("ident", tKeyF("id62").with(func(t *jT) { t.Rules = nil })), fld("count", tInt("INT32").with(func(t *jT) {
			t.Rules = &jRules{Min: pI(1), Max: pI(9)}
			t.List = &jList{Filterable: true, Sortable: true}
		})),
		fld("names", tArr(tScalar(kString).with(func(t *jT) { t.Rules = &jRules{MinLen: pU(1)} })).with(func(t *jT) { t.Rules = &jRules{MinItems: pU(1), MaxItems: pU(5), Unique: pB(true)} }))))
	// a hand-written proto file of the package that declares options for several kinds of element
	dir := f.Path[:strings.LastIndex(f.Path, "/")]
	if b.Protos == nil {
		b.Protos = map[string]string{}
	}
	b.Protos[dir+"/extras.proto"] = "syntax = \"proto3\";\n\npackage " + f.Pkg + ";\n\nimport \"google/protobuf/descriptor.proto\";\n\n" +
		"extend google.protobuf.FieldOptions {\n  string verif_note = 51001;\n  int32 verif_rank = 51002;\n}\n\n" +
		"extend google.protobuf.MessageOptions {\n  string verif_msg_note = 51001;\n}\n\n" +
		"extend google.protobuf.EnumOptions {\n  bool verif_flag = 51001;\n}\n\n" +
		"extend google.protobuf.ServiceOptions {\n  string verif_svc = 51001;\n}\n\n" +
		"extend google.protobuf.MethodOptions {\n  string verif_method = 51001;\n}\n\n" +
		"// uses them\nmessage ExtrasUser {\n  option (verif_msg_note) = \"noted\";\n\n  string a = 1 [\n    (verif_note) = \"n\",\n    (verif_rank) = 2\n  ];\n\n  enum Kind {\n    option (verif_flag) = true;\n\n    KIND_UNSPECIFIED = 0;\n  }\n}\n"
	// source files with further dots in their names, each with a service of its own
	for _, part := range []string{"account", "invoice"} {
		name := "Billing" + capWord(part)
		b.Files = append(b.Files, &jFile{Path: dir + "/billing." + part + ".j5s", Pkg: f.Pkg, Elems: []*jElem{
			objDecl(name, fld("name", tScalar(kString))),
			{Service: &jService{Name: name, BasePath: "/billing/" + part, Methods: []*jMethod{{Name: "Get" + name, HTTPMethod: "GET", Path: "/one", HasRes: true, Res: []*jF{fld("it", tRef(kObject, name, f.Pkg+"."+name))}}}}},
			{Topic: &jTopic{Name: name, Type: "publish", Messages: []*jTopicMsg{{Name: "Post" + name, Fields: []*jF{fld("name", tScalar(kString))}}}}},
		}})
	}
	// two imported packages whose derived short alias is the same: which one a short reference means is decided by
	// the order of the import statements, never by chance
	for _, v := range []string{"v1", "v2"} {
		b.Files = append(b.Files, &jFile{Path: "bill/ledger/" + v + "/entry.j5s", Pkg: "bill.ledger." + v, Elems: []*jElem{objDecl("Entry", fld("in"+strings.ToUpper(v), tScalar(kString)))}})
	}
	f.Imports = append(f.Imports, &jImport{Path: "bill.ledger.v1"}, &jImport{Path: "bill.ledger.v2"})
	// a hand-written proto file of the package that imports the generated file of another package of the bundle
	// a package whose directory lies below the directory of another package of the bundle
	b.Files = append(b.Files, &jFile{Path: dir + "/billing/v1/nested.j5s", Pkg: f.Pkg + ".billing.v1", Elems: []*jElem{objDecl("NestedBelow", fld("label", tScalar(kString)))}})
	// (a package that nothing else of the bundle refers to)
	b.Files = append(b.Files, &jFile{Path: "bill/onlyproto/v1/stub.j5s", Pkg: "bill.onlyproto.v1", Elems: []*jElem{objDecl("Stub", fld("label", tScalar(kString)))}})
	b.Protos[dir+"/handwritten.proto"] = "syntax = \"proto3\";\n\npackage " + f.Pkg + ";\n\nimport \"bill/onlyproto/v1/stub.j5s.proto\";\n\n// refers to a type compiled from j5s in another package\nmessage HandWritten {\n  bill.onlyproto.v1.Stub stub = 1;\n}\n"
	// two files of the package, each using the same-named type of a different package
	for _, v := range []string{"v1", "v2"} {
		b.Files = append(b.Files, &jFile{Path: dir + "/ledger" + v + ".j5s", Pkg: f.Pkg, Imports: []*jImport{{Path: "bill/ledger/" + v + "/entry.j5s.proto", File: true}},
			Elems: []*jElem{objDecl("UsesLedger"+strings.ToUpper(v), fld("entry", tRef(kObject, "bill.ledger."+v+".Entry", "bill.ledger."+v+".Entry")))}})
	}
	f.Elems = append(f.Elems, objDecl("LedgerUser", fld("entry", tRef(kObject, "ledger.Entry", "bill.ledger.v2.Entry")), fld("entries", tArr(tRef(kObject, "ledger.Entry", "bill.ledger.v2.Entry")))))
	// a stale copy of a generated file that was committed beside its source: the file source lists it, the
	// compiler is expected to keep ignoring it whatever the listing order
	b.Protos[f.Path+".proto"] = "syntax = \"proto3\";\n\npackage " + f.Pkg + ";\n\n// left over from an earlier build\nmessage StaleLeftover {\n  string was_here = 1;\n}\n"
	return b
}

func c14Check(c *rt.C, b *jBundle, id string) map[string]string {
	src := b.sources()
	rng := c.Rand()
	pkgs := b.packages()
	c.Eval(rt.HashBytes(bundleBytes(src)), len(src) > 1)
	type config struct {
		name string
		run  func() (map[string]c14Digest, error)
	}
	shuffle := func(xs []string) []string {
		out := append([]string{}, xs...)
		rng.Shuffle(len(out), func(i, j int) { out[i], out[j] = out[j], out[i] })
		return out
	}
	reverse := func(xs []string) []string {
		out := append([]string{}, xs...)
		for i, j := 0, len(out)-1; i < j; i, j = i+1, j-1 {
			out[i], out[j] = out[j], out[i]
		}
		return out
	}
	other := detBundle(rand.New(rand.NewSource(rng.Int63()))).sources()
	configs := []config{
		{"baseline", func() (map[string]c14Digest, error) { return c14Compile(newMemBundle(src), pkgs, false, nil) }},
		{"repeat", func() (map[string]c14Digest, error) { return c14Compile(newMemBundle(src), pkgs, false, nil) }},
		{"reused-packageset", func() (map[string]c14Digest, error) { return c14Compile(newMemBundle(src), pkgs, true, nil) }},
		{"reused-reverse-package-order", func() (map[string]c14Digest, error) { return c14Compile(newMemBundle(src), reverse(pkgs), true, nil) }},
		{"reused-shuffled-package-order", func() (map[string]c14Digest, error) { return c14Compile(newMemBundle(src), shuffle(pkgs), true, nil) }},
		{"reversed-file-listing", func() (map[string]c14Digest, error) {
			mb := newMemBundle(src)
			mb.permuteFiles = reverse
			mb.permutePackages = reverse
			return c14Compile(mb, pkgs, false, nil)
		}},
		{"shuffled-file-listing", func() (map[string]c14Digest, error) {
			mb := newMemBundle(src)
			mb.permuteFiles = shuffle
			mb.permutePackages = shuffle
			return c14Compile(mb, pkgs, true, nil)
		}},
		{"compiled-twice-on-one-set", func() (map[string]c14Digest, error) {
			return c14Compile(newMemBundle(src), append(append([]string{}, pkgs...), pkgs...), true, nil)
		}},
		{"after-unrelated-bundle", func() (map[string]c14Digest, error) {
			// something else was compiled earlier in this process
			omb := newMemBundle(other)
			for _, p := range omb.packages {
				_, _ = compileBundlePackage(omb, p)
			}
			return c14Compile(newMemBundle(src), pkgs, false, nil)
		}},
	}
	var base map[string]c14Digest
	var baseErr error
	for i := 0; i < 3; i++ {
		configs = append(configs, config{fmt.Sprintf("repeat-%d", i+2), configs[1].run})
	}
	digests := map[string]string{}
	for _, cfg := range configs {
		var got map[string]c14Digest
		var err error
		c.Input(bundleBytes(src))
		ok, pv, fn, _ := rt.Guard(func() { got, err = cfg.run() })
		c.EndBudget()
		if !ok {
			c.Event("compile_panics") // totality is C07's subject
			_ = pv
			_ = fn
			return nil
		}
		if err != nil {
			if base != nil {
				c.Violate("configuration-changes-outcome/"+cfg.name, fmt.Sprintf("bundle %s compiles in the baseline configuration but fails in configuration %q: %v", id, cfg.name, err), srcDetail(src))
				return nil
			}
			if baseErr == nil {
				c.Event("bundle_does_not_compile")
				c.Feature("c14:compile-failed/" + id + "/" + errSig(err))
				baseErr = err
			}
			// a bundle that is rejected is rejected in every configuration
			continue
		}
		if baseErr != nil {
			c.Violate("configuration-changes-outcome/"+cfg.name+"-compiles", fmt.Sprintf("bundle %s fails in the baseline configuration (%v) but compiles in configuration %q", id, baseErr, cfg.name), srcDetail(src))
			return nil
		}
		c.Event("configurations_compiled")
		c.Feature("c14:config:" + cfg.name)
		if base == nil {
			base = got
			for k, v := range got {
				digests[k] = v.desc + "/" + v.text
			}
			continue
		}
		keys := make([]string, 0, len(base))
		for k := range base {
			keys = append(keys, k)
		}
		sort.Strings(keys)
		for _, k := range keys {
			bv := base[k]
			gv, okk := got[k]
			if !okk {
				c.Violate("nondeterministic/file-set/"+cfg.name, fmt.Sprintf("bundle %s: output file %s is missing in configuration %q", id, k, cfg.name), srcDetail(src))
				continue
			}
			if gv.text != bv.text {
				d := srcDetail(src)
				d["baseline_text"] = bv.rawText
				d["other_text"] = gv.rawText
				diff := firstDifferingLine(bv.rawText, gv.rawText)
				c.Violate("nondeterministic/text/"+lineClass(diff), fmt.Sprintf("bundle %s: printed text of %s differs between the baseline and configuration %q: %s", id, k, cfg.name, diff), d)
			}
			if gv.desc != bv.desc {
				c.Violate("nondeterministic/descriptor/"+cfg.name, fmt.Sprintf("bundle %s: descriptor bytes of %s differ between the baseline and configuration %q", id, k, cfg.name), srcDetail(src))
			}
		}
	}
	if c.WantSample() {
		c.Sample(map[string]any{"bundle": id, "files": len(src), "packages": pkgs, "configurations": len(configs), "digests": digests})
	}
	return digests
}

func runC14(r *rt.Runner) {
	// --- every worker process compiles the same fixed bundles; digests are compared across processes ---
	// (first in every process: nothing else has been compiled yet, so what a process-wide leftover of one version does to
	// the next shows within the process and, the orders being opposite, between odd and even processes)
	// --- "what else was compiled earlier in the same process": two versions of a package with the same type
	// names but different nesting, so that the text of a reference depends on the version; compiled and
	// printed in alternation, and in opposite order in odd and even worker processes
	r.DoAll("earlier-compiles", func(c *rt.C) {
		version := func(nestedFoo bool, twist string, stampRequired bool) *jBundle {
			nestedName := "Bar"
			if nestedFoo {
				nestedName = "Foo"
			}
			return elemsBundle(
				objDecl("Foo", fld("name", tScalar(kString))),
				enumDecl("Kind", "ONE", "TWO"),
				objDecl("Outer",
					fld("ref", tRef(kObject, "Foo", "iso.v1.Foo")),
					fld("refs", tArr(tRef(kObject, "Foo", "iso.v1.Foo"))),
					fld("kind", tRef(kEnum, "Kind", "iso.v1.Kind")),
					// timestamps with rules: optional ones in every version, one that is required in the first and the last version only
					fld("seen", tScalar(kTimestamp).with(func(t *jT) { t.Rules = &jRules{SExMin: pB(true)} })),
					&jF{Name: "stamp", T: tScalar(kTimestamp).with(func(t *jT) { t.Rules = &jRules{SExMin: pB(true)} }), Req: stampRequired},
					fld("later", tScalar(kTimestamp).with(func(t *jT) { t.Rules = &jRules{SExMax: pB(true)} })),
					fld("inner", &jT{Kind: kObject, InlineName: nestedName, Inline: &jDecl{Kind: kObject, Fields: []*jF{fld("x", tScalar(kString)), fld(twist, tScalar(kBool))}}})))
		}
		versions := []*jBundle{version(true, "alpha", true), version(false, "alpha", false), version(true, "beta", false), version(false, "beta", true)}
		order := []int{0, 1, 2, 3, 1, 0, 3, 2, 0}
		if r.Cfg.Shard%2 == 1 {
			order = []int{1, 0, 3, 2, 0, 1, 2, 3, 1}
		}
		first := map[int]map[string]c14Digest{}
		for step, vi := range order {
			b := versions[vi]
			src := b.sources()
			if step == 0 && r.Arg("show", "") == "earlier" {
				fmt.Printf("SHOW %s\n", bundleBytes(src))
			}
			got, err := c14Compile(newMemBundle(src), b.packages(), false, nil)
			if err != nil {
				c.Feature("c14:compile-failed/earlier-compiles/" + errSig(err))
				return
			}
			if step < 2 && r.Arg("show", "") == "earlier" {
				for k, d := range got {
					fmt.Printf("SHOWTEXT %s\n%s\n", k, d.rawText)
				}
			}
			c.Eval(rt.Hash("earlier", fmt.Sprint(step, vi)), true)
			c.Event("configurations_compiled")
			if first[vi] == nil {
				first[vi] = got
				continue
			}
			for k, d := range got {
				if d.desc != first[vi][k].desc {
					c.Violate("nondeterministic/descriptor/after-other-version", fmt.Sprintf("%s of version %d compiles to different descriptors once other versions of the package were compiled in the process", k, vi), srcDetail(src))
				}
				if d.text != first[vi][k].text {
					det := srcDetail(src)
					det["first"], det["later"] = first[vi][k].rawText, d.rawText
					c.Violate("nondeterministic/text/after-other-version", fmt.Sprintf("%s of version %d prints differently once other versions of the package were compiled in the process: %s", k, vi, firstDiff(first[vi][k].rawText, d.rawText)), det)
				}
			}
		}
		// and across processes, which ran the versions in opposite orders
		for vi := range versions {
			var parts []string
			for _, k := range rt.SortedKeys(first[vi]) {
				parts = append(parts, k+"="+first[vi][k].text[:12])
			}
			r.Note(fmt.Sprintf("xproc:c14-earlier-version-%d", vi), strings.Join(parts, " "))
		}
		c.Feature("c14:earlier-compiles")
	})
	r.DoAll("xproc", func(c *rt.C) {
		rng := rand.New(rand.NewSource(r.Cfg.Seed*7919 + 17))
		var all []string
		for i := 0; i < 12; i++ {
			b := detBundle(rng)
			d := c14Check(c, b, fmt.Sprintf("xproc-%d", i))
			keys := make([]string, 0, len(d))
			for k := range d {
				keys = append(keys, k)
			}
			sort.Strings(keys)
			for _, k := range keys {
				all = append(all, k+"="+d[k])
			}
		}
		c.Feature("c14:cross-process")
		r.Note("xproc:c14-digests", fmt.Sprintf("%x", sha256.Sum256([]byte(strings.Join(all, "\n")))))
		// finer-grained, so that a difference can be located: one note per bundle
		rng = rand.New(rand.NewSource(r.Cfg.Seed*7919 + 17))
		for i := 0; i < 12; i++ {
			b := detBundle(rng)
			src := b.sources()
			mb := newMemBundle(src)
			got, err := c14Compile(mb, b.packages(), false, nil)
			if err != nil {
				continue
			}
			keys := make([]string, 0, len(got))
			for k := range got {
				keys = append(keys, k)
			}
			sort.Strings(keys)
			var parts []string
			for _, k := range keys {
				parts = append(parts, k+"="+got[k].desc[:12]+"/"+got[k].text[:12])
			}
			r.Note(fmt.Sprintf("xproc:c14-bundle-%02d", i), strings.Join(parts, " "))
		}
	})
	// --- one short name declared twice in a package, at top level in one file and nested in another, referenced from a
	// third: what the reference resolves to must not depend on the order the files are listed in
	for _, variant := range []string{"top-first", "nested-first", "ref-first"} {
		variant := variant
		r.Do("same-name/nested-and-top-level/"+variant, func(c *rt.C) {
			top := &jFile{Path: "dup/v1/a_status.j5s", Pkg: "dup.v1", Elems: []*jElem{
				objDecl("Status", fld("code", tScalar(kString))),
				enumDecl("Level", "LOW", "HIGH")}}
			nested := &jFile{Path: "dup/v1/m_order.j5s", Pkg: "dup.v1", Elems: []*jElem{
				objDecl("Order",
					fld("orderId", tScalar(kString)),
					fld("status", &jT{Kind: kObject, InlineName: "Status", Inline: &jDecl{Kind: kObject, Fields: []*jF{fld("open", tScalar(kBool))}}}),
					fld("level", &jT{Kind: kEnum, InlineName: "Level", Inline: &jDecl{Kind: kEnum, Options: []string{"UP", "DOWN"}}}))}}
			user := &jFile{Path: "dup/v1/z_user.j5s", Pkg: "dup.v1", Elems: []*jElem{
				objDecl("User",
					fld("status", tRef(kObject, "Status", "dup.v1.Status")),
					fld("statuses", tArr(tRef(kObject, "Status", "dup.v1.Status"))),
					fld("level", tRef(kEnum, "Level", "dup.v1.Level")))}}
			switch variant {
			case "nested-first":
				top.Path, nested.Path = "dup/v1/m_status.j5s", "dup/v1/a_order.j5s"
			case "ref-first":
				user.Path = "dup/v1/0_user.j5s"
			}
			c14Check(c, &jBundle{Files: []*jFile{top, nested, user}}, "same-name:"+variant)
			c.Feature("c14:same-name-nested-and-top-level")
		})
	}
	for _, cell := range isolationMatrix() {
		cell := cell
		if cell.TotalityOnly {
			continue
		}
		r.Do("iso/"+cell.ID, func(c *rt.C) {
			c14Check(c, cell.Bundle, "iso:"+cell.ID)
			c.Feature("c14:isolation")
		})
	}
	for b := 0; b < r.Scale(150, 4000); b++ {
		r.Do(fmt.Sprintf("bundle/%d", b), func(c *rt.C) {
			c14Check(c, detBundle(c.Rand()), fmt.Sprintf("random:%d", b))
			c.Feature("c14:random")
		})
	}
}
