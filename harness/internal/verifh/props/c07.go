//go:build verif

package props

import (
	"context"
	"errors"
	"fmt"
	"sort"
	"strings"
	"unicode/utf8"

	"github.com/pentops/j5/internal/bcl/errpos"
	"github.com/pentops/j5/internal/j5s/protobuild"
	"github.com/pentops/j5/internal/verifh/rt"
)

func init() { Registry["C07"] = runC07 }

func srcDetail(src map[string]string) map[string]any {
	return map[string]any{"sources": src}
}

// c07Positions checks that every positioned diagnostic in err that names one of
// the bundle's files points inside that file.
func c07Positions(c *rt.C, err error, src map[string]string, entry string, class string) {
	var list errpos.Errors
	if ews, ok := errpos.AsErrorsWithSource(err); ok && ews != nil {
		list = ews.Errors
	} else if es, ok := errpos.AsErrors(err); ok {
		list = es
	}
	if len(list) == 0 {
		c.Event("errors_without_any_position")
		if c.Runner().Arg("show", "") != "" {
			fmt.Printf("NOPOS %s %s: %v\n", entry, class, err)
		}
		return
	}
	for _, e := range list {
		if e == nil || e.Pos == nil {
			c.Event("diagnostics_without_position")
			continue
		}
		name := ""
		if e.Pos.Filename != nil {
			name = *e.Pos.Filename
		}
		text, ours := src[name]
		if name == "" && !ours && e.Pos.Start.Line < 0 {
			// protocompile reports "no position" as line 0; the repository's reporter turns that into -1 with an
			// empty file name: a linker diagnostic (e.g. an unused import of the generated file) without any
			// position, counted like e.Pos == nil
			c.Event("diagnostics_without_position")
			continue
		}
		if name == "" && !ours {
			// a position without a file name: it must at least lie inside one of the j5s sources
			c.Event("diagnostics_without_file_name")
			okSomewhere := false
			for fn, t := range src {
				if !strings.HasSuffix(fn, ".j5s") {
					continue
				}
				ls := strings.Split(t, "\n")
				in := func(p errpos.Point) bool {
					return p.Line >= 0 && p.Column >= 0 && p.Line < len(ls) && p.Column <= utf8.RuneCountInString(ls[p.Line])
				}
				if in(e.Pos.Start) && (in(e.Pos.End) || (e.Pos.End.Line == 0 && e.Pos.End.Column == 0)) {
					okSomewhere = true
				}
			}
			if !okSomewhere {
				d := srcDetail(src)
				d["diagnostic"] = e.Error()
				c.Violate("diagnostic/outside-every-file/"+entry+"/"+class, fmt.Sprintf("%s: diagnostic %q carries position %d:%d-%d:%d (0-based) that lies in none of the source files", entry, rt.Clip(e.Error(), 150), e.Pos.Start.Line, e.Pos.Start.Column, e.Pos.End.Line, e.Pos.End.Column), d)
			}
			continue
		}
		if !ours {
			// generated .j5s.proto (linker diagnostics) or no filename: observed, not judged
			if strings.HasSuffix(name, ".j5s.proto") {
				c.Event("diagnostics_about_generated_proto")
			} else {
				c.Event("diagnostics_without_source_file")
				if c.Runner().Arg("show", "") != "" {
					fmt.Printf("NOFILE %s %s: name=%q %v\n", entry, class, name, e)
				}
			}
			continue
		}
		c.Event("diagnostics_positioned_in_source")
		lines := strings.Split(text, "\n")
		inside := func(p errpos.Point) bool {
			if p.Line < 0 || p.Column < 0 || p.Line >= len(lines) {
				return false
			}
			return p.Column <= utf8.RuneCountInString(lines[p.Line])
		}
		if !inside(e.Pos.Start) || !inside(e.Pos.End) {
			d := srcDetail(src)
			d["diagnostic"] = e.Error()
			c.Violate("diagnostic/outside-file/"+entry+"/"+class, fmt.Sprintf("%s: diagnostic %q for %s points outside the file: %d:%d-%d:%d (0-based, file has %d lines)", entry, rt.Clip(e.Error(), 150), name, e.Pos.Start.Line, e.Pos.Start.Column, e.Pos.End.Line, e.Pos.End.Column, len(lines)), d)
		}
		if e.Pos.Start.Line > e.Pos.End.Line || (e.Pos.Start.Line == e.Pos.End.Line && e.Pos.Start.Column > e.Pos.End.Column) {
			if !(e.Pos.End.Line == 0 && e.Pos.End.Column == 0) {
				d := srcDetail(src)
				d["diagnostic"] = e.Error()
				c.Violate("diagnostic/start-after-end/"+entry, fmt.Sprintf("%s: diagnostic %q has start after end", entry, rt.Clip(e.Error(), 150)), d)
			}
		}
	}
}

func bundleBytes(src map[string]string) []byte {
	names := make([]string, 0, len(src))
	for n := range src {
		names = append(names, n)
	}
	sort.Strings(names)
	var sb strings.Builder
	for _, n := range names {
		sb.WriteString("=== " + n + "\n" + src[n] + "\n")
	}
	return []byte(sb.String())
}

// c07Run drives all three entry points over a bundle. wantAccept: the bundle is
// within the documented language and must compile.
func c07Run(c *rt.C, src map[string]string, id string, wantAccept bool, class string) {
	mb := newMemBundle(src)
	in := bundleBytes(src)
	c.Eval(rt.HashBytes(in), true)
	c.Feature("c07:" + class)
	det := func() map[string]any { return srcDetail(src) }
	for _, pkg := range mb.packages {
		var err error
		c.Input(in)
		ok, pv, fn, st := rt.Guard(func() { _, err = compileBundlePackage(mb, pkg) })
		c.EndBudget()
		if !ok {
			d := det()
			d["stack"] = st
			c.Violate("compile-panic/"+fn, fmt.Sprintf("CompilePackage(%s) panicked (%s %s): %v", pkg, class, id, pv), d)
			continue
		}
		if err != nil {
			c.Event("compile_errors")
			if wantAccept {
				sig := "accept/" + id + "/" + errSig(err)
				if class == "random-valid" {
					sig = "accept/random/" + errSig(err)
				} else if class == "random-ruled" {
					sig = "accept/ruled/" + errSig(err)
				} else if class == "random-entity" || class == "random-api" {
					sig = "accept/" + strings.TrimPrefix(class, "random-") + "/" + errSig(err)
				}
				d := det()
				d["error"] = err.Error()
				c.Violate(sig, fmt.Sprintf("a package within the documented language is rejected (%s): CompilePackage(%s): %v", id, pkg, rt.Clip(err.Error(), 400)), d)
			}
			c07Positions(c, err, src, "CompilePackage", class)
		} else {
			c.Event("compile_ok")
		}
	}
	// lint entry points
	ps, err := protobuild.NewPackageSet(noDeps{}, mb)
	if err != nil {
		c.Event("packageset_error")
		return
	}
	names := make([]string, 0, len(src))
	for n := range src {
		names = append(names, n)
	}
	sort.Strings(names)
	for _, n := range names {
		var ews *errpos.ErrorsWithSource
		var lerr error
		c.Input(in)
		ok, pv, fn, st := rt.Guard(func() { ews, lerr = protobuild.LintFile(context.Background(), ps, n, src[n]) })
		c.EndBudget()
		if !ok {
			d := det()
			d["stack"] = st
			c.Violate("lintfile-panic/"+fn, fmt.Sprintf("LintFile(%s) panicked (%s %s): %v", n, class, id, pv), d)
			continue
		}
		if ews != nil && wantAccept && strings.HasSuffix(n, ".j5s") {
			// `j5 j5s lint` fails whenever the linter reports anything, warnings included
			d := det()
			d["diagnostics"] = rt.Clip(ews.Error(), 1500)
			c.Violate("lint-not-clean/LintFile/"+errSig(ews), fmt.Sprintf("a package within the documented language does not pass the linter (%s, file %s): %s", id, n, rt.Clip(ews.Error(), 300)), d)
		}
		if ews != nil {
			c.Event("lintfile_diagnostics")
			c07Positions(c, ews, src, "LintFile", class)
			okh, pvh, fnh, _ := rt.Guard(func() { _ = ews.HumanString(2) })
			if !okh {
				c.Violate("lintfile-render-panic/"+fnh, fmt.Sprintf("rendering LintFile diagnostics panicked: %v", pvh), det())
			}
		} else if lerr != nil {
			c.Event("lintfile_error")
			if wantAccept && strings.HasSuffix(n, ".j5s") {
				c.Violate("lint-fails/LintFile/"+errSig(lerr), fmt.Sprintf("the linter fails on a file of a package within the documented language (%s, file %s): %s", id, n, rt.Clip(lerr.Error(), 300)), det())
			}
			c07Positions(c, lerr, src, "LintFile", class)
		} else {
			c.Event("lintfile_clean")
		}
	}
	ps2, err := protobuild.NewPackageSet(noDeps{}, mb)
	if err == nil {
		var ews *errpos.ErrorsWithSource
		var lerr error
		c.Input(in)
		ok, pv, fn, st := rt.Guard(func() { ews, lerr = protobuild.LintAll(context.Background(), ps2) })
		c.EndBudget()
		if !ok {
			d := det()
			d["stack"] = st
			c.Violate("lintall-panic/"+fn, fmt.Sprintf("LintAll panicked (%s %s): %v", class, id, pv), d)
		} else if ews != nil {
			if wantAccept {
				d := det()
				d["diagnostics"] = rt.Clip(ews.Error(), 1500)
				c.Violate("lint-not-clean/LintAll/"+errSig(ews), fmt.Sprintf("a package within the documented language does not pass the linter (%s): %s", id, rt.Clip(ews.Error(), 300)), d)
			}
			c.Event("lintall_diagnostics")
			c07Positions(c, ews, src, "LintAll", class)
		} else if lerr != nil {
			c.Event("lintall_error")
			if wantAccept {
				c.Violate("lint-fails/LintAll/"+errSig(lerr), fmt.Sprintf("the linter fails on a package within the documented language (%s): %s", id, rt.Clip(lerr.Error(), 300)), det())
			}
		}
	}
	var _ = errors.New
	if c.WantSample() && class == "random-valid" {
		c.Sample(map[string]any{"class": class, "sources": src})
	}
}

// semanticFaults: structurally valid files with one semantic error each.
func semanticFaults() map[string]string {
	base := "package iso.v1\n\n"
	return map[string]string{
		"unknown-type":           base + "object Foo {\n\tfield name strng\n}\n",
		"unknown-qualifier":      base + "object Foo {\n\tfield count integer:INT33\n}\n",
		"missing-qualifier":      base + "object Foo {\n\tfield count integer\n}\n",
		"unknown-attribute":      base + "object Foo {\n\tfield name string {\n\t\tnoSuchAttribute = true\n\t}\n}\n",
		"unknown-rule":           base + "object Foo {\n\tfield name string {\n\t\trules.noSuchRule = 1\n\t}\n}\n",
		"wrong-attribute-type":   base + "object Foo {\n\tfield name string {\n\t\trules.minLength = \"one\"\n\t}\n}\n",
		"required-and-optional":  base + "object Foo {\n\tfield name string {\n\t\trequired = true\n\t\toptional = true\n\t}\n}\n",
		"both-marks":             base + "object Foo {\n\tfield name ! ? string\n}\n",
		"duplicate-field":        base + "object Foo {\n\tfield name string\n\tfield name string\n}\n",
		"duplicate-object":       base + "object Foo {\n\tfield name string\n}\n\nobject Foo {\n\tfield other string\n}\n",
		"duplicate-enum-option":  base + "enum Color {\n\toption RED\n\toption RED\n}\n",
		"unknown-ref":            base + "object Foo {\n\tfield bar object:NoSuchType\n}\n",
		"unknown-package-ref":    base + "object Foo {\n\tfield bar object:nosuch.v1.Bar\n}\n",
		"unknown-import":         base + "import nosuch.v1\n\nobject Foo {\n\tfield name string\n}\n",
		"enum-ref-to-object":     base + "object Foo {\n\tfield bar enum:Bar\n}\n\nobject Bar {\n}\n",
		"object-ref-to-enum":     base + "object Foo {\n\tfield bar object:Color\n}\n\nenum Color {\n\toption RED\n}\n",
		"unknown-root-block":     base + "widget Foo {\n}\n",
		"unknown-child-block":    base + "object Foo {\n\twidget name string\n}\n",
		"field-without-type":     base + "object Foo {\n\tfield name\n}\n",
		"field-without-name":     base + "object Foo {\n\tfield\n}\n",
		"object-without-name":    base + "object {\n\tfield name string\n}\n",
		"extra-tag":              base + "object Foo Bar {\n}\n",
		"wrong-package":          "package other.v1\n\nobject Foo {\n}\n",
		"no-package":             "object Foo {\n}\n",
		"enum-rule-unknown":      base + "object Foo {\n\tfield color enum:Color {\n\t\trules.in = [\"PURPLE\"]\n\t}\n}\n\nenum Color {\n\toption RED\n}\n",
		"bad-http-method":        base + "service Foo {\n\tmethod Bar {\n\t\thttpMethod = \"FETCH\"\n\t\thttpPath = \"/x\"\n\t\trequest {\n\t\t}\n\t}\n}\n",
		"missing-path-field":     base + "service Foo {\n\tmethod Bar {\n\t\thttpMethod = \"GET\"\n\t\thttpPath = \"/x/:missing\"\n\t\trequest {\n\t\t}\n\t\tresponse {\n\t\t}\n\t}\n}\n",
		"method-without-request": base + "service Foo {\n\tmethod Bar {\n\t\thttpMethod = \"GET\"\n\t\thttpPath = \"/x\"\n\t}\n}\n",
		"topic-unknown-type":     base + "topic Foo broadcast {\n}\n",
		"topic-message-name":     base + "topic Foo publish {\n\tmessage x {\n\t}\n}\n",
		"entity-no-status":       base + "entity Foo {\n\tkey fooId key:id62\n}\n",
		"entity-no-key":          base + "entity Foo {\n\tstatus ACTIVE\n}\n",
		"array-of-array":         base + "object Foo {\n\tfield x array:array:string\n}\n",
		"map-of-map":             base + "object Foo {\n\tfield x map:map:string\n}\n",
		"int-overflow":           base + "object Foo {\n\tfield x integer:INT32 {\n\t\trules.maximum = 99999999999999999999\n\t}\n}\n",
		"self-flatten":           base + "object Foo {\n\tfield foo object:Foo {\n\t\tflatten = true\n\t}\n}\n",
		"lowercase-type-name":    base + "object foo {\n\tfield name string\n}\n",
		"field-name-with-dash":   base + "object Foo {\n\tfield \"my-name\" string\n}\n",
		"keyword-as-name":        base + "object Foo {\n\tfield field field\n}\n",
		"unicode-name":           base + "object Foo {\n\tfield naïve string\n}\n",
		"oneof-scalar-option":    base + "oneof Foo {\n\toption name string\n}\n",
		"inline-name-clash":      base + "object Foo {\n\tfield bar object {\n\t\tfield x string\n\t}\n\tfield baz object {\n\t\tobject.name = \"Bar\"\n\t\tfield y string\n\t}\n}\n",
	}
}

func runC07(r *rt.Runner) {
	// --- (iii) the isolation matrix: each feature in a package of its own ---------------------------
	for _, cell := range isolationMatrix() {
		cell := cell
		r.Do("iso/"+cell.ID, func(c *rt.C) {
			c07Run(c, cell.Bundle.sources(), "iso:"+cell.ID, !cell.TotalityOnly || cell.MustAccept, "isolation")
		})
	}
	// --- random bundles of the documented language --------------------------------------------------------
	for b := 0; b < r.Scale(300, 8000); b++ {
		r.Do(fmt.Sprintf("valid/%d", b), func(c *rt.C) {
			g := &j5Gen{rng: c.Rand()}
			bundle := g.randomBundle()
			c07Run(c, bundle.sources(), fmt.Sprintf("random:%d", b), true, "random-valid")
		})
	}
	// --- random combinations of admissible rules on every field type (the generator C04 and C12 use) ---------
	for b := 0; b < r.Scale(300, 8000); b++ {
		r.Do(fmt.Sprintf("ruled/%d", b), func(c *rt.C) {
			g := &j5Gen{rng: c.Rand()}
			var fields []*jF
			for _, n := range g.pickNames(1 + g.rng.Intn(5)) {
				f := fld(n, g.ruledType())
				if g.rng.Intn(4) == 0 {
					f.Req = true
				}
				fields = append(fields, f)
			}
			bundle := elemsBundle(&jElem{Decl: &jDecl{Kind: kObject, Name: "Ruled", Fields: fields}})
			c07Run(c, bundle.sources(), fmt.Sprintf("ruled:%d", b), true, "random-ruled")
		})
	}
	// --- entities (every key / shard / command / summary mix of C17's generator) and API-shaped bundles -------
	for b := 0; b < r.Scale(200, 6000); b++ {
		r.Do(fmt.Sprintf("entity/%d", b), func(c *rt.C) {
			g := &j5Gen{rng: c.Rand()}
			p := g.entityPlan("solo.v1", nil, g.rng.Intn(3), 1+g.rng.Intn(3))
			bundle := &jBundle{Files: []*jFile{{Path: "solo/v1/entity.j5s", Pkg: "solo.v1", Elems: []*jElem{{Entity: p.E}}}}}
			c07Run(c, bundle.sources(), fmt.Sprintf("entity:%d", b), true, "random-entity")
		})
	}
	for b := 0; b < r.Scale(100, 3000); b++ {
		r.Do(fmt.Sprintf("api/%d", b), func(c *rt.C) {
			g := &j5Gen{rng: c.Rand()}
			bundle, _ := g.apiBundle(b%3 != 0, b%2 == 0, g.rng.Intn(7))
			c07Run(c, bundle.sources(), fmt.Sprintf("api:%d", b), true, "random-api")
		})
	}
	// --- (ii) semantic errors ------------------------------------------------------------------------------------
	faults := semanticFaults()
	for _, name := range rt.SortedKeys(faults) {
		src := faults[name]
		r.Do("fault/"+name, func(c *rt.C) {
			c07Run(c, map[string]string{"iso/v1/cell.j5s": src}, "fault:"+name, false, "semantic-fault")
		})
	}
	// --- (i) token-level mutations of valid files, truncations, random bytes -----------------------
	cells := isolationMatrix()
	for b := 0; b < r.Scale(400, 12000); b++ {
		r.Do(fmt.Sprintf("mutant/%d", b), func(c *rt.C) {
			rng := c.Rand()
			var src map[string]string
			if rng.Intn(2) == 0 {
				src = cells[rng.Intn(len(cells))].Bundle.sources()
			} else {
				g := &j5Gen{rng: rng}
				src = g.randomBundle().sources()
			}
			names := make([]string, 0, len(src))
			for n := range src {
				if strings.HasSuffix(n, ".j5s") {
					names = append(names, n)
				}
			}
			sort.Strings(names)
			victim := names[rng.Intn(len(names))]
			mut := map[string]string{}
			for k, v := range src {
				mut[k] = v
			}
			class := "token-mutation"
			switch rng.Intn(6) {
			case 0:
				mut[victim] = src[victim][:rng.Intn(len(src[victim])+1)]
				class = "truncation"
			case 1:
				mut[victim] = randomUnicode(rng, rng.Intn(60))
				class = "random-text"
			default:
				x := src[victim]
				for k := 1 + rng.Intn(3); k > 0; k-- {
					x = mutateBCL(rng, x)
				}
				mut[victim] = x
			}
			c07Run(c, mut, fmt.Sprintf("mutant:%d", b), false, class)
		})
	}
}
