//go:build verif

package props

import (
	"fmt"
	"math"
	"math/rand"
	"strings"

	"github.com/shopspring/decimal"
	"google.golang.org/protobuf/proto"
	"google.golang.org/protobuf/reflect/protoreflect"
	"google.golang.org/protobuf/types/dynamicpb"
)

// G-MSG: messages of a modelled type, populated through dynamicpb.

var vStrings = []string{"a", "héllo wörld", "with \"quotes\" and \\ and / and 'apostrophes'", "line\nbreak\ttab\rcr", "\u0001\u001f\u007f", "\x00\x01\x02\x03\x04\x05\x06\x07\x08\x09\x0a\x0b\x0c\x0d\x0e\x0f\x10\x11\x12\x13\x14\x15\x16\x17\x18\x19\x1a\x1b\x1c\x1d\x1e\x1f", "b\vb\x0e\x0f", "日本語😀", "</script><!--", "   sep", " leading and trailing ", strings.Repeat("long ", 60), "{\"json\":[1,2]}", "replacement \uFFFD char", "\uFFFD", "fish & chips > all <b> \u2028 \u2029", ""}
var vKeys = []string{"abc", "0123456789abcdefghijAB", "9f1b2c3d-4e5f-6a7b-8c9d-0e1f2a3b4c5d", "key with space", ""}
var vInt32 = []int64{1, -1, math.MaxInt32, math.MinInt32, 42, 0}
var vInt64 = []int64{1, -1, math.MaxInt64, math.MinInt64, 1<<53 + 1, -(1<<53 + 1), 0}
var vUint32 = []uint64{1, math.MaxUint32, 1 << 31, 7, 0}
var vUint64 = []uint64{1, math.MaxUint64, 1 << 63, 1<<53 + 1, 0}
var vFloat = []float64{math.Copysign(0, -1), 1.5, -2.25, math.MaxFloat32, math.SmallestNonzeroFloat32, 1e-7, 16777216, 0.1, 3.4e38, -1e-38, 0}
var vDouble = []float64{math.Copysign(0, -1), 1.5, -2.25, 1e15, 999999999999999, 1e14 + 0.5, math.MaxFloat64, math.SmallestNonzeroFloat64, 0.1, 1e21, 1e-7, 123456789.12345679, 1 << 53, 0}
var vBytes = [][]byte{{0}, {0xff, 0xfe}, {1, 2, 3}, {0xfb, 0xff, 0xbf, 0xfe}, []byte("hello world!?>>"), make([]byte, 64), longBytes(4096), longBytes(4097), longBytes(9001), {}}

func longBytes(n int) []byte {
	b := make([]byte, n)
	for i := range b {
		b[i] = byte(i*7 + i/251)
	}
	return b
}

type tsVal struct {
	sec   int64
	nanos int32
}

var vTimestamps = []tsVal{{1700000000, 0}, {1700000000, 123000000}, {1700000000, 123456789}, {1700000000, 123456000}, {1700000000, 1000}, {1700000000, 120000000}, {1700000000, 500000}, {-1, 999999999}, {-62135596800, 0}, {253402300799, 999999999}, {0, 1}, {951782400, 0}, {0, 0}}

type dateVal struct{ y, m, d int32 }

var vDates = []dateVal{{2024, 2, 29}, {2000, 2, 29}, {1600, 2, 29}, {2400, 2, 29}, {1900, 2, 28}, {2100, 3, 1}, {4, 2, 29}, {1, 1, 1}, {9999, 12, 31}, {1999, 12, 31}, {33, 1, 2}, {987, 10, 5}, {2023, 4, 30}, {2023, 1, 31}}
var vDecimals = []string{"1", "-1", "1.50", "0.001", "-123456789012345678901234567890.123456789", "100", "0", "0.0", "-0.5", "007.10"}

type msgGen struct {
	rng   *rand.Rand
	ct    *compiledTypes
	model *tModel
	// systematic cursor: when >= 0, value tables are indexed with it instead of the PRNG
	cursor int
	// features observed while generating (kind@position)
	feats map[string]bool
	// anyInner lists message types usable inside Any
	anyInner []string
	// anyInnerDeep lists message types that themselves hold Any fields (an Any inside an Any)
	anyInnerDeep []string
	maxDepth     int
}

func (g *msgGen) idx(n int) int {
	if g.cursor >= 0 {
		return g.cursor % n
	}
	return g.rng.Intn(n)
}

func (g *msgGen) coin(p int) bool { // true with probability 1/p (systematic: cursor-determined)
	if g.cursor >= 0 {
		return g.cursor%p == 0
	}
	return g.rng.Intn(p) == 0
}

func newDyn(md protoreflect.MessageDescriptor) *dynamicpb.Message { return dynamicpb.NewMessage(md) }

func setByName(m protoreflect.Message, name string, v protoreflect.Value) {
	fd := m.Descriptor().Fields().ByName(protoreflect.Name(name))
	if fd == nil {
		panic(fmt.Sprintf("harness: no field %s in %s", name, m.Descriptor().FullName()))
	}
	m.Set(fd, v)
}

// scalarValue builds the protoreflect value of one scalar of the given kind.
func (g *msgGen) scalarValue(fd protoreflect.FieldDescriptor, kind string) protoreflect.Value {
	switch kind {
	case kString:
		return protoreflect.ValueOfString(vStrings[g.idx(len(vStrings))])
	case kKey:
		return protoreflect.ValueOfString(vKeys[g.idx(len(vKeys))])
	case kBool:
		return protoreflect.ValueOfBool(g.idx(2) == 0)
	case kInt32, kSint32:
		return protoreflect.ValueOfInt32(int32(vInt32[g.idx(len(vInt32))]))
	case kInt64, kSint64:
		return protoreflect.ValueOfInt64(vInt64[g.idx(len(vInt64))])
	case kUint32:
		return protoreflect.ValueOfUint32(uint32(vUint32[g.idx(len(vUint32))]))
	case kUint64:
		return protoreflect.ValueOfUint64(vUint64[g.idx(len(vUint64))])
	case kFloat:
		return protoreflect.ValueOfFloat32(float32(vFloat[g.idx(len(vFloat))]))
	case kDouble:
		return protoreflect.ValueOfFloat64(vDouble[g.idx(len(vDouble))])
	case kBytes:
		b := vBytes[g.idx(len(vBytes))]
		return protoreflect.ValueOfBytes(append([]byte{}, b...))
	case kTimestamp:
		v := vTimestamps[g.idx(len(vTimestamps))]
		m := newDyn(fd.Message())
		if v.sec != 0 {
			setByName(m, "seconds", protoreflect.ValueOfInt64(v.sec))
		}
		if v.nanos != 0 {
			setByName(m, "nanos", protoreflect.ValueOfInt32(v.nanos))
		}
		return protoreflect.ValueOfMessage(m)
	case kDate:
		v := vDates[g.idx(len(vDates))]
		m := newDyn(fd.Message())
		setByName(m, "year", protoreflect.ValueOfInt32(v.y))
		setByName(m, "month", protoreflect.ValueOfInt32(v.m))
		setByName(m, "day", protoreflect.ValueOfInt32(v.d))
		return protoreflect.ValueOfMessage(m)
	case kDecimal:
		m := newDyn(fd.Message())
		setByName(m, "value", protoreflect.ValueOfString(vDecimals[g.idx(len(vDecimals))]))
		return protoreflect.ValueOfMessage(m)
	}
	panic("harness: scalarValue of kind " + kind)
}

func isScalarKind(k string) bool {
	for _, s := range scalarKinds {
		if s == k {
			return true
		}
	}
	return false
}

func (g *msgGen) feat(kind, pos string) {
	if g.feats != nil {
		g.feats[kind+"@"+pos] = true
	}
}

// value builds one element value for the field (scalar, enum, message).
func (g *msgGen) value(tf *tField, fd protoreflect.FieldDescriptor, depth int, pos string) (protoreflect.Value, bool) {
	switch {
	case isScalarKind(tf.Kind):
		g.feat(tf.Kind, pos)
		if depth >= 3 {
			g.feat(tf.Kind, "depth3")
		}
		return g.scalarValue(fd, tf.Kind), true
	case tf.Kind == kEnum:
		e := g.model.enum(tf.Ref)
		g.feat(kEnum, pos)
		n := e.number(g.idx(len(e.Values)))
		return protoreflect.ValueOfEnum(protoreflect.EnumNumber(n)), true
	case tf.Kind == kObject || tf.Kind == kOneof:
		if depth >= g.maxDepth {
			if g.coin(2) {
				return protoreflect.Value{}, false
			}
			return protoreflect.ValueOfMessage(newDyn(fd.Message())), true // empty message
		}
		g.feat(tf.Kind, pos)
		return protoreflect.ValueOfMessage(g.message(tf.Ref, depth+1)), true
	case tf.Kind == kJ5Any:
		g.feat(kJ5Any, pos)
		inner, name := g.anyPayload(depth)
		if inner == nil {
			return protoreflect.Value{}, false
		}
		m := newDyn(fd.Message())
		setByName(m, "type_name", protoreflect.ValueOfString(name))
		b, err := proto.MarshalOptions{Deterministic: true}.Marshal(inner)
		if err != nil {
			panic("harness: marshal any payload: " + err.Error())
		}
		setByName(m, "proto", protoreflect.ValueOfBytes(b))
		return protoreflect.ValueOfMessage(m), true
	case tf.Kind == kPbAny:
		g.feat(kPbAny, pos)
		inner, name := g.anyPayload(depth)
		if inner == nil {
			return protoreflect.Value{}, false
		}
		m := newDyn(fd.Message())
		setByName(m, "type_url", protoreflect.ValueOfString("type.googleapis.com/"+name))
		b, err := proto.MarshalOptions{Deterministic: true}.Marshal(inner)
		if err != nil {
			panic("harness: marshal any payload: " + err.Error())
		}
		setByName(m, "value", protoreflect.ValueOfBytes(b))
		return protoreflect.ValueOfMessage(m), true
	}
	panic("harness: value of kind " + tf.Kind)
}

func (g *msgGen) anyPayload(depth int) (proto.Message, string) {
	if len(g.anyInner) == 0 {
		return nil, ""
	}
	name := g.anyInner[g.idx(len(g.anyInner))]
	if depth < 2 && len(g.anyInnerDeep) > 0 && g.coin(4) {
		name = g.anyInnerDeep[g.idx(len(g.anyInnerDeep))]
	}
	save := g.maxDepth
	if g.maxDepth > depth+2 {
		g.maxDepth = depth + 2
	}
	m := g.message(name, depth+1)
	g.maxDepth = save
	return m, name
}

var vMapKeys = []string{"k", "", "!type", "ключ", "a.b", "with space", "k2", "quo\"te", "back\\slash", "tab\tnl\n", "\x01ctl", "emoji😀", "</script>", "\uFFFDkey"}

// message builds a message of the modelled type.
func (g *msgGen) message(full string, depth int) *dynamicpb.Message {
	tm := g.model.msg(full)
	md := g.ct.message(full)
	if tm == nil || md == nil {
		panic("harness: unknown message type " + full)
	}
	m := newDyn(md)
	groupSet := map[string]bool{}
	// for real oneofs (wrapper "type", exposed and plain groups): choose at most one arm
	chosen := map[string]string{}
	for _, grp := range tm.Groups {
		var arms []*tField
		for _, f := range tm.Fields {
			if f.Group == grp.Name {
				arms = append(arms, f)
			}
		}
		if len(arms) == 0 {
			continue
		}
		if tm.Wrapper && depth > 0 || !g.coin(4) || tm.Wrapper {
			chosen[grp.Name] = arms[g.idx(len(arms))].Name
		}
	}
	for _, tf := range tm.Fields {
		fd := md.Fields().ByName(protoreflect.Name(tf.Name))
		if fd == nil {
			panic(fmt.Sprintf("harness: model field %s missing in descriptor %s", tf.Name, full))
		}
		pos := "singular"
		if tf.Group != "" {
			if chosen[tf.Group] != tf.Name || groupSet[tf.Group] {
				continue
			}
			groupSet[tf.Group] = true
			pos = "oneof-arm"
			v, ok := g.value(tf, fd, depth, pos)
			if ok {
				m.Set(fd, v)
			}
			continue
		}
		if tf.Flatten {
			pos = "flattened"
		}
		switch tf.Card {
		case "repeated":
			n := []int{0, 1, 3}[g.idx(3)]
			if depth >= g.maxDepth && (tf.Kind == kObject || tf.Kind == kOneof) {
				n = 0
			}
			if n == 0 {
				continue
			}
			l := m.Mutable(fd).List()
			save := g.cursor
			for i := 0; i < n; i++ {
				v, ok := g.value(tf, fd, depth, "array")
				if ok {
					l.Append(v)
				}
				if g.cursor >= 0 {
					g.cursor++
				}
			}
			g.cursor = save
		case "map":
			n := []int{0, 1, 3}[g.idx(3)]
			if depth >= g.maxDepth && (tf.Kind == kObject || tf.Kind == kOneof) {
				n = 0
			}
			if n == 0 {
				continue
			}
			mp := m.Mutable(fd).Map()
			save := g.cursor
			for i := 0; i < n; i++ {
				key := vMapKeys[(g.idx(len(vMapKeys))+i)%len(vMapKeys)]
				v, ok := g.value(tf, fd.MapValue(), depth, "map")
				if ok {
					mp.Set(protoreflect.ValueOfString(key).MapKey(), v)
				}
				if g.cursor >= 0 {
					g.cursor++
				}
			}
			g.cursor = save
		case "optional":
			if g.coin(5) {
				continue // absent
			}
			v, ok := g.value(tf, fd, depth, "optional")
			if ok {
				m.Set(fd, v)
			}
		default:
			if g.cursor < 0 && g.coin(4) {
				continue
			}
			if tf.Flatten {
				// the flattened child's members count as "inside flattened object"
				child := g.model.msg(tf.Ref)
				for _, cf := range child.Fields {
					if isScalarKind(cf.Kind) && cf.Card == "" {
						g.feat(cf.Kind, "flattened")
					}
				}
			}
			v, ok := g.value(tf, fd, depth, pos)
			if ok {
				m.Set(fd, v)
			}
		}
	}
	return m
}

// ---- normalisation for equality (C01 statement) ----------------------------------------------------

// normMessage returns a copy of m in which decimals are canonical numeric
// strings, set-but-empty flattened sub-messages are cleared and Any values are
// replaced by a canonical form (type name + deterministic proto bytes of the
// decoded inner message, obtained through decodeAny).
// normKeepEmptyFlatten: set while normalising what the decoder returned. A set-but-empty flattened child cannot be
// told from an absent one in JSON, so it is dropped from the *expected* message; the decoder, however, has no
// business creating one that the document gives it no member for (not even a null one).
var normKeepEmptyFlatten bool

func normObserved(model *tModel, m protoreflect.Message, decodeAny func(typeName string, protoBytes, j5json []byte) (proto.Message, error)) (protoreflect.Message, error) {
	normKeepEmptyFlatten = true
	defer func() { normKeepEmptyFlatten = false }()
	return normMessage(model, m, decodeAny)
}

func normMessage(model *tModel, m protoreflect.Message, decodeAny func(typeName string, protoBytes, j5json []byte) (proto.Message, error)) (protoreflect.Message, error) {
	// re-materialise as a purely dynamic message: a decoded message may hold
	// generated well-known-type messages (timestamppb) inside dynamic parents,
	// which proto.Clone / proto.Equal refuse to mix.
	b, err := proto.MarshalOptions{Deterministic: true}.Marshal(m.Interface())
	if err != nil {
		return nil, err
	}
	out := dynamicpb.NewMessage(m.Descriptor())
	if err := proto.Unmarshal(b, out); err != nil {
		return nil, err
	}
	err = normInPlace(model, out, decodeAny)
	return out, err
}

func canonDecimal(s string) string {
	d, err := decimal.NewFromString(s)
	if err != nil {
		return "!invalid:" + s
	}
	return d.String()
}

func normValue(model *tModel, tf *tField, fd protoreflect.FieldDescriptor, v protoreflect.Value, decodeAny func(string, []byte, []byte) (proto.Message, error)) error {
	switch tf.Kind {
	case kDecimal:
		dm := v.Message()
		vf := dm.Descriptor().Fields().ByName("value")
		dm.Set(vf, protoreflect.ValueOfString(canonDecimal(dm.Get(vf).String())))
	case kObject, kOneof:
		return normInPlace(model, v.Message(), decodeAny)
	case kJ5Any:
		am := v.Message()
		d := am.Descriptor().Fields()
		name := am.Get(d.ByName("type_name")).String()
		inner, err := decodeAny(name, am.Get(d.ByName("proto")).Bytes(), am.Get(d.ByName("j5_json")).Bytes())
		if err != nil {
			return fmt.Errorf("any %s: %w", name, err)
		}
		ninner, err := normMessage(model, inner.ProtoReflect(), decodeAny)
		if err != nil {
			return err
		}
		b, _ := proto.MarshalOptions{Deterministic: true}.Marshal(ninner.Interface())
		am.Set(d.ByName("proto"), protoreflect.ValueOfBytes(b))
		am.Clear(d.ByName("j5_json"))
	case kPbAny:
		am := v.Message()
		d := am.Descriptor().Fields()
		name := strings.TrimPrefix(am.Get(d.ByName("type_url")).String(), "type.googleapis.com/")
		inner, err := decodeAny(name, am.Get(d.ByName("value")).Bytes(), nil)
		if err != nil {
			return fmt.Errorf("any %s: %w", name, err)
		}
		ninner, err := normMessage(model, inner.ProtoReflect(), decodeAny)
		if err != nil {
			return err
		}
		b, _ := proto.MarshalOptions{Deterministic: true}.Marshal(ninner.Interface())
		am.Set(d.ByName("value"), protoreflect.ValueOfBytes(b))
	}
	return nil
}

func normInPlace(model *tModel, m protoreflect.Message, decodeAny func(string, []byte, []byte) (proto.Message, error)) error {
	tm := model.msg(string(m.Descriptor().FullName()))
	if tm == nil {
		return nil // a type outside the model (well-known type)
	}
	for _, tf := range tm.Fields {
		fd := m.Descriptor().Fields().ByName(protoreflect.Name(tf.Name))
		if fd == nil || !m.Has(fd) {
			continue
		}
		switch tf.Card {
		case "repeated":
			l := m.Mutable(fd).List()
			for i := 0; i < l.Len(); i++ {
				if err := normValue(model, tf, fd, l.Get(i), decodeAny); err != nil {
					return err
				}
			}
		case "map":
			var err error
			m.Mutable(fd).Map().Range(func(k protoreflect.MapKey, v protoreflect.Value) bool {
				err = normValue(model, tf, fd.MapValue(), v, decodeAny)
				return err == nil
			})
			if err != nil {
				return err
			}
		default:
			if fd.Kind() == protoreflect.MessageKind {
				if err := normValue(model, tf, fd, m.Mutable(fd), decodeAny); err != nil {
					return err
				}
				if tf.Flatten && isEmptyMessage(m.Get(fd).Message()) && !normKeepEmptyFlatten {
					m.Clear(fd)
				}
			}
		}
	}
	return nil
}

func isEmptyMessage(m protoreflect.Message) bool {
	empty := true
	m.Range(func(protoreflect.FieldDescriptor, protoreflect.Value) bool {
		empty = false
		return false
	})
	return empty
}
