//go:build verif

package props

import (
	"fmt"
	"math/rand"
	"regexp"
	"sort"
	"strings"

	"github.com/pentops/j5/gen/j5/schema/v1/schema_j5pb"
	"github.com/pentops/j5/gen/j5/source/v1/source_j5pb"
	"github.com/pentops/j5/internal/j5s/protobuild"
	"github.com/pentops/j5/internal/structure"
	"github.com/pentops/j5/internal/verifh/rt"
	"github.com/pentops/j5/lib/j5schema"
	"google.golang.org/protobuf/proto"
	"google.golang.org/protobuf/reflect/protodesc"
	"google.golang.org/protobuf/reflect/protoreflect"
	"google.golang.org/protobuf/reflect/protoregistry"
	"google.golang.org/protobuf/types/descriptorpb"
)

// C15: export (descriptors -> source API) / import (source API -> schema set) /
// export again. The monitor watches the real entry points (structure.APIFromImage,
// j5schema.PackageSetFromSourceAPI, RootSchema.ToJ5Root) and compares the two
// exported forms schema by schema, then walks the re-imported set for
// unresolved references.

func init() { Registry["C15"] = runC15 }

var reVersionPart = regexp.MustCompile(`^v[0-9]+$`)

// rootPackage cuts a proto package at its version part: "a.v1.service" -> "a.v1"
func rootPackage(pkg string) string {
	parts := strings.Split(pkg, ".")
	for i, p := range parts {
		if reVersionPart.MatchString(p) {
			return strings.Join(parts[:i+1], ".")
		}
	}
	return pkg
}

func imageOfFiles(files *protoregistry.Files, pkgs []string) *source_j5pb.SourceImage {
	img := &source_j5pb.SourceImage{}
	var fds []*descriptorpb.FileDescriptorProto
	files.RangeFiles(func(f protoreflect.FileDescriptor) bool {
		fds = append(fds, protodesc.ToFileDescriptorProto(f))
		return true
	})
	sort.Slice(fds, func(i, j int) bool { return fds[i].GetName() < fds[j].GetName() })
	img.File = fds
	seen := map[string]bool{}
	for _, p := range pkgs {
		p = rootPackage(p)
		if !seen[p] {
			seen[p] = true
			img.Packages = append(img.Packages, &source_j5pb.PackageInfo{Name: p, Label: p})
		}
	}
	return img
}

// bundleImage compiles every package of a j5s bundle on one PackageSet and
// gathers the result with its dependencies as a source image.
func bundleImage(mb *memBundle) (*source_j5pb.SourceImage, error) {
	ps, err := protobuild.NewPackageSet(noDeps{}, mb)
	if err != nil {
		return nil, err
	}
	files := &protoregistry.Files{}
	for _, pkg := range mb.packages {
		cp, err := compileOn(ps, pkg)
		if err != nil {
			return nil, err
		}
		for _, f := range cp.Files {
			if err := registerRecursive(files, f); err != nil {
				return nil, err
			}
		}
	}
	return imageOfFiles(files, mb.packages), nil
}

type c15Schemas map[string]map[string]*schema_j5pb.RootSchema // package -> name -> root

func apiSchemas(api *source_j5pb.API) c15Schemas {
	out := c15Schemas{}
	for _, p := range api.Packages {
		if len(p.Schemas) > 0 {
			out[p.Name] = p.Schemas
		}
		for _, sp := range p.SubPackages {
			if len(sp.Schemas) > 0 {
				out[p.Name+"."+sp.Name] = sp.Schemas
			}
		}
	}
	return out
}

// walkFields visits every field schema (including array items and map values) of a root
func walkExportedFields(r *schema_j5pb.RootSchema, fn func(prop *schema_j5pb.ObjectProperty, f *schema_j5pb.Field, depth int)) {
	var props []*schema_j5pb.ObjectProperty
	switch t := r.Type.(type) {
	case *schema_j5pb.RootSchema_Object:
		props = t.Object.Properties
	case *schema_j5pb.RootSchema_Oneof:
		props = t.Oneof.Properties
	}
	var rec func(p *schema_j5pb.ObjectProperty, f *schema_j5pb.Field, d int)
	rec = func(p *schema_j5pb.ObjectProperty, f *schema_j5pb.Field, d int) {
		if f == nil {
			return
		}
		fn(p, f, d)
		switch t := f.Type.(type) {
		case *schema_j5pb.Field_Array:
			rec(p, t.Array.Items, d+1)
		case *schema_j5pb.Field_Map:
			rec(p, t.Map.ItemSchema, d+1)
		}
	}
	for _, p := range props {
		rec(p, p.Schema, 0)
	}
}

func exportedRef(f *schema_j5pb.Field) *schema_j5pb.Ref {
	switch t := f.Type.(type) {
	case *schema_j5pb.Field_Object:
		return t.Object.GetRef()
	case *schema_j5pb.Field_Oneof:
		return t.Oneof.GetRef()
	case *schema_j5pb.Field_Enum:
		return t.Enum.GetRef()
	}
	return nil
}

// hasListRules: does the exported field carry any list rule
func hasListRules(f *schema_j5pb.Field) bool {
	found := false
	var scan func(m protoreflect.Message)
	scan = func(m protoreflect.Message) {
		m.Range(func(fd protoreflect.FieldDescriptor, v protoreflect.Value) bool {
			if fd.Name() == "list_rules" {
				found = true
				return false
			}
			if fd.Kind() == protoreflect.MessageKind && !fd.IsList() && !fd.IsMap() {
				if fd.Name() == "items" || fd.Name() == "item_schema" || fd.Name() == "key_schema" || fd.Name() == "ref" {
					return true
				}
				scan(v.Message())
			}
			return !found
		})
	}
	scan(f.ProtoReflect())
	return found
}

// c15Observe records which features the first export carries (coverage of what the round trip was asked to keep)
func c15Observe(c *rt.C, first c15Schemas) {
	for pkg, schemas := range first {
		for name, root := range schemas {
			if strings.Contains(name, "_") {
				c.Feature("c15:saw/nested-type")
			}
			switch t := root.Type.(type) {
			case *schema_j5pb.RootSchema_Enum:
				if len(t.Enum.Info) > 0 {
					c.Feature("c15:saw/enum-info-fields")
				}
				for _, o := range t.Enum.Options {
					if len(o.Info) > 0 {
						c.Feature("c15:saw/enum-option-info")
					}
					if o.Description != "" {
						c.Feature("c15:saw/enum-option-description")
					}
				}
			case *schema_j5pb.RootSchema_Object:
				if t.Object.Entity != nil {
					c.Feature("c15:saw/entity-marker")
				}
				if len(t.Object.AnyMember) > 0 {
					c.Feature("c15:saw/any-member")
				}
			}
			walkExportedFields(root, func(p *schema_j5pb.ObjectProperty, f *schema_j5pb.Field, depth int) {
				if ref := exportedRef(f); ref != nil {
					if ref.Package != pkg {
						c.Feature("c15:saw/cross-package-ref")
					}
					if ref.Package == pkg && ref.Schema == name {
						c.Feature("c15:saw/self-recursive")
					}
				}
				if hasListRules(f) {
					c.Feature("c15:saw/list-rules/" + strings.TrimPrefix(fieldKindName(f), "array-of-"))
				}
				if k, ok := f.Type.(*schema_j5pb.Field_Key); ok && k.Key.Entity != nil {
					c.Feature("c15:saw/key-entity")
				}
				if a, ok := f.Type.(*schema_j5pb.Field_Any); ok && len(a.Any.Types) > 0 {
					c.Feature("c15:saw/any-types")
				}
				if o, ok := f.Type.(*schema_j5pb.Field_Object); ok && o.Object.Flatten {
					c.Feature("c15:saw/flatten")
				}
				if p.Required {
					c.Feature("c15:saw/required")
				}
				if p.ExplicitlyOptional {
					c.Feature("c15:saw/explicitly-optional")
				}
				switch f.Type.(type) {
				case *schema_j5pb.Field_Array:
					c.Feature("c15:saw/array")
				case *schema_j5pb.Field_Map:
					c.Feature("c15:saw/map")
				}
			})
		}
	}
}

func rootKindName(r *schema_j5pb.RootSchema) string {
	switch r.Type.(type) {
	case *schema_j5pb.RootSchema_Object:
		return "object"
	case *schema_j5pb.RootSchema_Oneof:
		return "oneof"
	case *schema_j5pb.RootSchema_Enum:
		return "enum"
	}
	return "nil"
}

// c15Compare names what differs between the first and the second export of one schema
func c15Compare(c *rt.C, want, got *schema_j5pb.RootSchema, pkg, name, id string, det func() map[string]any) {
	if proto.Equal(want, got) {
		c.Event("schemas_reexported_equal")
		return
	}
	kind := rootKindName(want)
	if kind != rootKindName(got) {
		c.Violate("reexport-differs/root-kind", fmt.Sprintf("%s: %s.%s is exported as %s, after the round trip as %s", id, pkg, name, kind, rootKindName(got)), det())
		return
	}
	var wp, gp []*schema_j5pb.ObjectProperty
	switch t := want.Type.(type) {
	case *schema_j5pb.RootSchema_Object:
		wp, gp = t.Object.Properties, got.GetObject().Properties
	case *schema_j5pb.RootSchema_Oneof:
		wp, gp = t.Oneof.Properties, got.GetOneof().Properties
	}
	reported := false
	if len(wp) == len(gp) {
		for i := range wp {
			if proto.Equal(wp[i], gp[i]) {
				continue
			}
			path := protoPathDiff(wp[i].ProtoReflect(), gp[i].ProtoReflect())
			fk := fieldKindName(wp[i].Schema)
			d := det()
			d["first_export"], d["second_export"] = fmt.Sprint(wp[i]), fmt.Sprint(gp[i])
			c.Violate("reexport-differs/"+kind+"/"+fk+"/"+strings.TrimPrefix(path, "schema."), fmt.Sprintf("%s: property %s.%s.%s (%s) loses or changes %s in the export/import round trip:\n first  {%v}\n second {%v}", id, pkg, name, wp[i].Name, fk, path, wp[i], gp[i]), d)
			reported = true
		}
	}
	if !reported {
		path := protoPathDiff(want.ProtoReflect(), got.ProtoReflect())
		// list indexes out of the signature
		d := det()
		d["first_export"], d["second_export"] = rt.Clip(fmt.Sprint(want), 2000), rt.Clip(fmt.Sprint(got), 2000)
		c.Violate("reexport-differs/"+kind+"/"+path, fmt.Sprintf("%s: %s %s.%s differs in %s after the export/import round trip:\n first  {%v}\n second {%v}", id, kind, pkg, name, path, rt.Clip(fmt.Sprint(want), 400), rt.Clip(fmt.Sprint(got), 400)), d)
	}
}

// c15RoundTrip is the monitor proper.
func c15RoundTrip(c *rt.C, img *source_j5pb.SourceImage, id, class string, det func() map[string]any) {
	c.Feature("c15:" + class)
	var api *source_j5pb.API
	var err error
	ok, pv, fn, st := rt.Guard(func() { api, err = structure.APIFromImage(img) })
	if !ok {
		d := det()
		d["stack"] = st
		c.Violate("export-panic/"+fn, fmt.Sprintf("%s: structure.APIFromImage panicked: %v", id, pv), d)
		return
	}
	if err != nil {
		// the descriptor set cannot be exported at all: nothing to round-trip (C04 / C16 judge this)
		c.Event("export_failed")
		c.Feature("c15:export-failed/" + errSig(err))
		return
	}
	first := apiSchemas(api)
	total := 0
	for _, s := range first {
		total += len(s)
	}
	if total == 0 {
		c.Event("export_without_schemas")
		return
	}
	c.Eval(rt.Hash(id, string(rt.HashBytes(mustMarshal(api)))), true)
	c15Observe(c, first)

	// every reference of the exported form points at an exported schema
	for pkg, schemas := range first {
		for name, root := range schemas {
			walkExportedFields(root, func(p *schema_j5pb.ObjectProperty, f *schema_j5pb.Field, _ int) {
				ref := exportedRef(f)
				if ref == nil {
					return
				}
				c.Event("exported_refs_checked")
				if first[ref.Package][ref.Schema] == nil {
					c.Violate("export-dangling-ref/"+fieldKindName(f), fmt.Sprintf("%s: %s.%s.%s refers to %s.%s, which the exported API does not hold", id, pkg, name, p.Name, ref.Package, ref.Schema), det())
				}
			})
		}
	}

	var set *j5schema.SchemaSet
	ok, pv, fn, st = rt.Guard(func() { set, err = j5schema.PackageSetFromSourceAPI(api.Packages) })
	if !ok {
		d := det()
		d["stack"] = st
		c.Violate("import-panic/"+fn, fmt.Sprintf("%s: PackageSetFromSourceAPI panicked: %v", id, pv), d)
		return
	}
	if err != nil {
		c.Violate("import-error/"+errSig(err), fmt.Sprintf("%s: the exported API cannot be imported again: %v", id, err), det())
		return
	}
	c.Event("imports")

	// second export, schema by schema
	second := c15Schemas{}
	for pkgName, pkg := range set.Packages {
		for name, ref := range pkg.Schemas {
			if ref == nil || ref.To == nil {
				if first[pkgName][name] != nil {
					c.Violate("import-unlinked/own-schema", fmt.Sprintf("%s: %s.%s is in the API but unlinked after import", id, pkgName, name), det())
				}
				continue
			}
			var root *schema_j5pb.RootSchema
			ok, pv, fn, st := rt.Guard(func() { root = ref.To.ToJ5Root() })
			if !ok {
				d := det()
				d["stack"] = st
				c.Violate("reexport-panic/"+fn, fmt.Sprintf("%s: ToJ5Root of the imported %s.%s panicked: %v", id, pkgName, name, pv), d)
				continue
			}
			if second[pkgName] == nil {
				second[pkgName] = map[string]*schema_j5pb.RootSchema{}
			}
			second[pkgName][name] = root
			// every reference below the imported schema is linked, and to the schema it names
			c15WalkLinked(c, ref.To, id, pkgName, name, det)
		}
	}
	for pkg, schemas := range first {
		for name, root := range schemas {
			got := second[pkg][name]
			if got == nil {
				c.Violate("reexport-missing/"+rootKindName(root), fmt.Sprintf("%s: %s.%s is in the exported API but not in the schema set built from it", id, pkg, name), det())
				continue
			}
			c15Compare(c, root, got, pkg, name, id, det)
		}
	}
	for pkg, schemas := range second {
		for name, root := range schemas {
			if first[pkg][name] == nil {
				c.Violate("reexport-extra/"+rootKindName(root), fmt.Sprintf("%s: %s.%s appears in the imported set but is not in the exported API", id, pkg, name), det())
			}
		}
	}

	// the second form imports again and is a fixed point
	api2 := proto.Clone(api).(*source_j5pb.API)
	for _, p := range api2.Packages {
		for n := range p.Schemas {
			if s := second[p.Name][n]; s != nil {
				p.Schemas[n] = s
			}
		}
		for _, sp := range p.SubPackages {
			for n := range sp.Schemas {
				if s := second[p.Name+"."+sp.Name][n]; s != nil {
					sp.Schemas[n] = s
				}
			}
		}
	}
	var set2 *j5schema.SchemaSet
	ok, _, _, _ = rt.Guard(func() { set2, err = j5schema.PackageSetFromSourceAPI(api2.Packages) })
	if ok && err == nil {
		for pkgName, pkg := range set2.Packages {
			for name, ref := range pkg.Schemas {
				if ref == nil || ref.To == nil || second[pkgName][name] == nil {
					continue
				}
				var root *schema_j5pb.RootSchema
				if ok, _, _, _ := rt.Guard(func() { root = ref.To.ToJ5Root() }); ok && !proto.Equal(root, second[pkgName][name]) {
					c.Violate("third-export-differs/"+rootKindName(root), fmt.Sprintf("%s: %s.%s changes again in a second round trip (%s)", id, pkgName, name, protoPathDiff(second[pkgName][name].ProtoReflect(), root.ProtoReflect())), det())
				}
				c.Event("third_exports_compared")
			}
		}
	} else if first != nil && len(c15Diffs(first, second)) == 0 {
		c.Violate("second-import-fails", fmt.Sprintf("%s: the re-exported API (equal to the first) fails to import: %v", id, err), det())
	}
	if c.WantSample() {
		names := []string{}
		for pkg, s := range first {
			for n := range s {
				names = append(names, pkg+"."+n)
			}
		}
		sort.Strings(names)
		d := det()
		d["id"] = id
		d["schemas"] = names
		c.Sample(d)
	}
}

func c15Diffs(a, b c15Schemas) []string {
	var out []string
	for pkg, s := range a {
		for n, r := range s {
			if g := b[pkg][n]; g == nil || !proto.Equal(r, g) {
				out = append(out, pkg+"."+n)
			}
		}
	}
	return out
}

func mustMarshal(m proto.Message) []byte {
	b, err := proto.MarshalOptions{Deterministic: true}.Marshal(m)
	if err != nil {
		return []byte(err.Error())
	}
	return b
}

// c15WalkLinked walks the Go schema objects of the imported set: every RefSchema
// must be linked to a root of the name and package it carries.
func c15WalkLinked(c *rt.C, root j5schema.RootSchema, id, pkg, name string, det func() map[string]any) {
	var props j5schema.PropertySet
	switch t := root.(type) {
	case *j5schema.ObjectSchema:
		props = t.Properties
	case *j5schema.OneofSchema:
		props = t.Properties
	default:
		return
	}
	var check func(propName string, f j5schema.FieldSchema)
	check = func(propName string, f j5schema.FieldSchema) {
		var ref *j5schema.RefSchema
		want := ""
		switch t := f.(type) {
		case *j5schema.ObjectField:
			ref, want = t.Ref, "object"
		case *j5schema.OneofField:
			ref, want = t.Ref, "oneof"
		case *j5schema.EnumField:
			ref, want = t.Ref, "enum"
		case *j5schema.ArrayField:
			check(propName, t.Schema)
			return
		case *j5schema.MapField:
			check(propName, t.Schema)
			return
		default:
			return
		}
		c.Event("imported_refs_checked")
		if ref == nil || ref.To == nil {
			c.Violate("import-unlinked/"+want, fmt.Sprintf("%s: the %s reference of %s.%s.%s is not linked after import", id, want, pkg, name, propName), det())
			return
		}
		got := ""
		switch ref.To.(type) {
		case *j5schema.ObjectSchema:
			got = "object"
		case *j5schema.OneofSchema:
			got = "oneof"
		case *j5schema.EnumSchema:
			got = "enum"
		}
		if got != want {
			c.Violate("import-mislinked/"+want+"-to-"+got, fmt.Sprintf("%s: the %s field %s.%s.%s is linked to a %s schema", id, want, pkg, name, propName, got), det())
			return
		}
		if ref.To.Name() != ref.Schema || ref.To.PackageName() != ref.Package.Name {
			c.Violate("import-mislinked/name", fmt.Sprintf("%s: reference %s.%s of %s.%s.%s is linked to %s", id, ref.Package.Name, ref.Schema, pkg, name, propName, ref.To.FullName()), det())
		}
	}
	for _, p := range props {
		if p.Schema == nil {
			c.Violate("import-nil-schema", fmt.Sprintf("%s: %s.%s.%s has no schema after import", id, pkg, name, p.JSONName), det())
			continue
		}
		check(p.JSONName, p.Schema)
	}
}

// ---- raw .proto inputs with the annotations the j5s compiler does not emit in this shape ------------

type rawGen struct {
	rng *rand.Rand
	all bool
}

func (g *rawGen) on() bool { return g.all || g.rng.Intn(2) == 0 }

// rawProtoBundle writes two or three packages of plain .proto with cross-package references,
// nesting three deep, enums reached only through fields, recursion and every annotation C15 names.
func (g *rawGen) bundle() (map[string]string, []string) {
	var sh strings.Builder
	sh.WriteString("syntax = \"proto3\";\npackage rawb.v1;\nimport \"j5/ext/v1/annotations.proto\";\n\n")
	sh.WriteString("// A shared type\nmessage Shared {\n  string id = 1;\n  Kind kind = 2;\n")
	parts := g.on()
	if parts {
		sh.WriteString("  message Part {\n    int64 n = 1;\n    enum Level {\n      LEVEL_UNSPECIFIED = 0;\n      LEVEL_HIGH = 1;\n    }\n    Level level = 2;\n    message Deep {\n      string note = 1;\n      Part back = 2;\n    }\n    Deep deep = 3;\n  }\n  repeated Part parts = 3;\n")
	}
	sh.WriteString("}\n\n")
	sh.WriteString("enum Kind {\n")
	info := g.on()
	if info {
		sh.WriteString("  option (j5.ext.v1.enum) = {info_fields: [{name: \"code\" label: \"Code\" description: \"short code\"}, {name: \"note\"}]};\n")
	}
	sh.WriteString("  KIND_UNSPECIFIED = 0;\n")
	if info {
		sh.WriteString("  KIND_FIRST = 1 [(j5.ext.v1.enum_value) = {description: \"the first\" info: [{key: \"code\" value: \"a\"}, {key: \"note\" value: \"n\"}]}];\n")
	} else {
		sh.WriteString("  KIND_FIRST = 1;\n")
	}
	sh.WriteString("  // the second\n  KIND_SECOND = 2;\n}\n\n")
	sh.WriteString("enum OnlyFromField {\n  ONLY_FROM_FIELD_UNSPECIFIED = 0;\n  ONLY_FROM_FIELD_X = 1;\n}\n\n")
	if g.on() {
		// the zero option is not offered: the exported enum starts at 1
		sh.WriteString("enum Strict {\n  option (j5.ext.v1.enum).no_default = true;\n  STRICT_UNSPECIFIED = 0;\n  STRICT_ONE = 1;\n  STRICT_TWO = 2;\n}\n\nmessage UsesStrict {\n  Strict strict = 1;\n  repeated Strict stricts = 2;\n}\n\n")
	}
	sh.WriteString("enum Unreferenced {\n  UNREFERENCED_UNSPECIFIED = 0;\n  UNREFERENCED_Y = 1;\n}\n\n")
	sh.WriteString("message Choice {\n  option (j5.ext.v1.message).oneof = {};\n  oneof type {\n    string text = 1;\n    Shared shared = 2;\n    Choice again = 3;\n  }\n}\n")

	var m strings.Builder
	m.WriteString("syntax = \"proto3\";\npackage rawa.v1;\n")
	m.WriteString("import \"buf/validate/validate.proto\";\nimport \"j5/ext/v1/annotations.proto\";\nimport \"j5/list/v1/annotations.proto\";\nimport \"j5/types/any/v1/any.proto\";\nimport \"j5/types/date/v1/date.proto\";\nimport \"j5/types/decimal/v1/decimal.proto\";\nimport \"google/protobuf/timestamp.proto\";\nimport \"rawb/v1/shared.proto\";\n\n")
	n := 0
	num := func() int { n++; return n }
	if g.on() {
		// the less common entity parts
		m.WriteString("message ThingRefs {\n  option (j5.ext.v1.psm) = {entity_name: \"thing\" entity_part: ENTITY_PART_REFERENCES};\n  string other_id = 1;\n}\n\n")
		// ... one of them also a member of any fields: both markers on one object
		m.WriteString("message ThingDerived {\n  option (j5.ext.v1.psm) = {entity_name: \"thing\" entity_part: ENTITY_PART_DERIVED};\n  option (j5.ext.v1.message).object = {any_member: [\"payload\"]};\n  int64 total = 1;\n}\n\n")
	}
	if g.on() {
		// an object that flattens the object of the same name of another package
		m.WriteString("message Shared {\n  rawb.v1.Shared base = 1 [(j5.ext.v1.field).object.flatten = true];\n  string extra = 2;\n  Shared next = 3;\n}\n\n")
	}
	m.WriteString("message Member {\n")
	if g.on() {
		m.WriteString("  option (j5.ext.v1.message).object = {any_member: [\"payload\", \"other\"]};\n")
	}
	m.WriteString("  string name = 1;\n}\n\n")

	m.WriteString("// The thing keys\nmessage ThingKeys {\n")
	ent := g.on()
	if ent {
		m.WriteString("  option (j5.ext.v1.psm) = {entity_name: \"thing\" entity_part: ENTITY_PART_KEYS};\n")
		if g.on() {
			m.WriteString("  option (j5.ext.v1.message).object = {any_member: [\"other\", \"keys\"]};\n")
		}
	}
	// a primary key is usually, but need not be, marked required as well
	if g.on() {
		m.WriteString("  string thing_id = 1 [(buf.validate.field).required = true, (buf.validate.field).string.uuid = true")
	} else {
		m.WriteString("  string thing_id = 1 [(buf.validate.field).string.uuid = true")
	}
	if g.on() {
		m.WriteString(", (j5.ext.v1.key) = {primary_key: true}")
	}
	m.WriteString("];\n")
	if g.on() {
		m.WriteString("  string owner_id = 2 [(j5.ext.v1.field).key = {}, (j5.ext.v1.key) = {foreign_key: {package: \"rawb.v1\" entity: \"owner\"}")
		if g.on() {
			m.WriteString(" tenant_type: \"org\"")
		}
		m.WriteString("}, (j5.list.v1.field).string.foreign_key.uuid.filtering.filterable = true];\n")
	}
	m.WriteString("}\n\n")

	m.WriteString("message Holder {\n")
	if ent && g.on() {
		m.WriteString("  option (j5.ext.v1.psm) = {entity_name: \"thing\" entity_part: ENTITY_PART_DATA};\n")
	}
	n = 0
	if g.on() {
		fmt.Fprintf(&m, "  ThingKeys keys = %d [(j5.ext.v1.field).object.flatten = true, (buf.validate.field).required = true];\n", num())
	}
	if g.on() {
		fmt.Fprintf(&m, "  rawb.v1.Shared shared = %d;\n", num())
	}
	if g.on() {
		fmt.Fprintf(&m, "  repeated rawb.v1.Shared shared_list = %d [(buf.validate.field).repeated = {min_items: 1 max_items: 4}];\n", num())
	}
	if g.on() {
		fmt.Fprintf(&m, "  map<string, rawb.v1.Shared> shared_map = %d;\n", num())
	}
	if g.on() {
		fmt.Fprintf(&m, "  rawb.v1.OnlyFromField only = %d [(j5.list.v1.field).enum.filtering = {filterable: true default_filters: [\"X\"]}];\n", num())
	}
	if g.on() {
		fmt.Fprintf(&m, "  repeated rawb.v1.Kind kinds = %d [(buf.validate.field).repeated.items.enum.defined_only = true];\n", num())
	}
	if g.on() {
		fmt.Fprintf(&m, "  rawb.v1.Kind kind = %d [(buf.validate.field).enum = {defined_only: true in: [1, 2]}];\n", num())
	}
	if g.on() {
		fmt.Fprintf(&m, "  rawb.v1.Choice choice = %d [(j5.list.v1.field).oneof.filtering.filterable = true, (buf.validate.field).required = true];\n", num())
	}
	if parts && g.on() {
		fmt.Fprintf(&m, "  rawb.v1.Shared.Part part = %d;\n", num())
	}
	if parts && g.on() {
		fmt.Fprintf(&m, "  rawb.v1.Shared.Part.Level level = %d;\n", num())
	}
	if g.on() {
		fmt.Fprintf(&m, "  j5.types.any.v1.Any payload = %d [(j5.ext.v1.field).any = {only_defined: true types: [\"rawa.v1.Member\"]}, (j5.list.v1.field).any.filtering.filterable = true];\n", num())
	}
	if g.on() {
		fmt.Fprintf(&m, "  j5.types.any.v1.Any open = %d;\n", num())
	}
	if g.on() {
		// types listed as a hint, other types still allowed
		fmt.Fprintf(&m, "  j5.types.any.v1.Any hinted = %d [(j5.ext.v1.field).any = {types: [\"rawa.v1.Member\", \"rawb.v1.Shared\"]}];\n", num())
	}
	if g.on() {
		fmt.Fprintf(&m, "  Holder self = %d;\n", num())
	}
	if g.on() {
		fmt.Fprintf(&m, "  repeated Holder children = %d;\n", num())
	}
	if g.on() {
		fmt.Fprintf(&m, "  map<string, Holder> by_name = %d;\n", num())
	}
	if g.on() {
		fmt.Fprintf(&m, "  optional string nick = %d [(buf.validate.field).string = {min_len: 1 max_len: 10 pattern: \"^[a-z]+$\"}, (j5.list.v1.field).string.open_text.searching = {searchable: true field_identifier: \"nick\"}];\n", num())
	}
	if g.on() {
		fmt.Fprintf(&m, "  int64 count = %d [(buf.validate.field).int64 = {gte: 0 lt: 100}, (j5.list.v1.field).int64 = {filtering: {filterable: true} sorting: {sortable: true default_sort: true}}];\n", num())
	}
	if g.on() {
		fmt.Fprintf(&m, "  uint64 big = %d [(j5.list.v1.field).uint64.filtering.filterable = true];\n", num())
	}
	if g.on() {
		fmt.Fprintf(&m, "  double ratio = %d [(j5.list.v1.field).double.sorting.sortable = true, (buf.validate.field).double = {gt: 0 lte: 1}];\n", num())
	}
	if g.on() {
		fmt.Fprintf(&m, "  bool flag = %d [(buf.validate.field).bool.const = true, (j5.list.v1.field).bool.filtering.filterable = true];\n", num())
	}
	if g.on() {
		fmt.Fprintf(&m, "  bytes blob = %d [(buf.validate.field).bytes = {min_len: 1 max_len: 64}];\n", num())
	}
	if g.on() {
		fmt.Fprintf(&m, "  google.protobuf.Timestamp at = %d [(j5.list.v1.field).timestamp = {filtering: {filterable: true} sorting: {sortable: true}}];\n", num())
	}
	if g.on() {
		fmt.Fprintf(&m, "  j5.types.date.v1.Date day = %d [(j5.ext.v1.field).date.rules = {minimum: \"2000-01-01\" exclusive_minimum: true}, (j5.list.v1.field).date.filtering.filterable = true];\n", num())
	}
	if g.on() {
		fmt.Fprintf(&m, "  j5.types.decimal.v1.Decimal amount = %d [(j5.ext.v1.field).decimal.rules = {minimum: \"0\" maximum: \"10.5\"}, (j5.list.v1.field).decimal.sorting.sortable = true];\n", num())
	}
	if g.on() {
		fmt.Fprintf(&m, "  repeated string tags = %d [(j5.list.v1.field).string.open_text.searching.searchable = true, (buf.validate.field).repeated = {unique: true items: {string: {min_len: 1}}}];\n", num())
	}
	if g.on() {
		fmt.Fprintf(&m, "  string mail = %d [(buf.validate.field).string.email = true];\n", num())
	}
	if g.on() {
		fmt.Fprintf(&m, "  string ident = %d [(j5.ext.v1.field).key = {}, (buf.validate.field).string.pattern = \"^[0-9a-zA-Z]{22}$\"];\n", num())
	}
	if g.on() {
		fmt.Fprintf(&m, "  oneof exposed {\n    option (j5.ext.v1.oneof).expose = true;\n    string left = %d;\n    Member right = %d;\n  }\n", num(), num())
	}
	if g.on() {
		fmt.Fprintf(&m, "  message Local {\n    string a = 1;\n    enum Mode {\n      MODE_UNSPECIFIED = 0;\n      MODE_ON = 1;\n    }\n    Mode mode = 2;\n    rawb.v1.Shared shared = 3;\n  }\n  Local local = %d;\n  repeated Local.Mode modes = %d;\n", num(), num())
	}
	if g.on() {
		// an enum whose values carry no prefix at all
		fmt.Fprintf(&m, "  enum Bare {\n    UNSPECIFIED = 0;\n    ONE = 1;\n    TWO = 2;\n  }\n  Bare bare = %d;\n  repeated Bare bares = %d;\n", num(), num())
	}
	indirect := g.on()
	if indirect {
		// types of a package (and of one of its sub-packages) which the image does not list as its own
		fmt.Fprintf(&m, "  dep.v1.Base base = %d;\n  dep.v1.shared.Address address = %d;\n  map<string, dep.v1.shared.Address> addresses = %d;\n  dep.v1.shared.Address.Kind address_kind = %d;\n", num(), num(), num(), num())
	}
	if n == 0 {
		m.WriteString("  string only = 1;\n")
	}
	m.WriteString("}\n")

	main := m.String()
	files := map[string]string{"rawb/v1/shared.proto": sh.String()}
	if indirect {
		main = strings.Replace(main, "import \"rawb/v1/shared.proto\";", "import \"rawb/v1/shared.proto\";\nimport \"dep/v1/base.proto\";\nimport \"dep/v1/shared/address.proto\";", 1)
		files["dep/v1/base.proto"] = "syntax = \"proto3\";\npackage dep.v1;\nimport \"dep/v1/shared/address.proto\";\n\nmessage Base {\n  string id = 1;\n  dep.v1.shared.Address home = 2;\n}\n"
		files["dep/v1/shared/address.proto"] = "syntax = \"proto3\";\npackage dep.v1.shared;\n\nmessage Address {\n  string line = 1;\n  enum Kind {\n    KIND_UNSPECIFIED = 0;\n    KIND_HOME = 1;\n  }\n  Kind kind = 2;\n  Address forward = 3;\n}\n"
	}
	files["rawa/v1/main.proto"] = main
	pkgs := []string{"rawa.v1", "rawb.v1"}
	if g.on() {
		// a sub-package referring to both
		files["rawa/v1/sub/sub.proto"] = "syntax = \"proto3\";\npackage rawa.v1.sub;\nimport \"rawa/v1/main.proto\";\nimport \"rawb/v1/shared.proto\";\n\nmessage Wrapper {\n  rawa.v1.Holder holder = 1;\n  rawb.v1.Unreferenced unref = 2;\n  Wrapper next = 3;\n}\n"
	}
	return files, pkgs
}

func c15RawProto(c *rt.C, files map[string]string, pkgs []string, id, class string) {
	det := func() map[string]any { d := srcDetail(files); d["id"] = id; return d }
	ct, err := compileProtoText(files)
	if err != nil {
		c.Event("raw_proto_does_not_compile")
		c.Feature("c15:raw-compile-failed/" + errSig(err))
		return
	}
	img := &source_j5pb.SourceImage{File: ct.FileSet}
	for _, p := range pkgs {
		img.Packages = append(img.Packages, &source_j5pb.PackageInfo{Name: p, Label: p})
	}
	c15RoundTrip(c, img, id, class, det)
}

func c15Bundle(c *rt.C, b *jBundle, id, class string) {
	src := b.sources()
	mb := newMemBundle(src)
	det := func() map[string]any { d := srcDetail(src); d["id"] = id; return d }
	var img *source_j5pb.SourceImage
	var err error
	ok, _, _, _ := rt.Guard(func() { img, err = bundleImage(mb) })
	if !ok || err != nil {
		c.Event("bundle_does_not_compile")
		if err != nil {
			c.Feature("c15:bundle-compile-failed/" + errSig(err))
			if c.Runner().Arg("show", "") != "" {
				fmt.Printf("COMPILE-FAIL %s: %v\n%s\n", id, err, bundleBytes(src))
			}
		}
		return
	}
	c15RoundTrip(c, img, id, class+"/memory", det)
	// the same bundle through its printed text (what a registry would hold)
	if c.Rand().Intn(2) == 0 {
		text := map[string]string{}
		for _, pkg := range mb.packages {
			cp, err := compileBundlePackage(mb, pkg)
			if err != nil {
				return
			}
			printed, err := printPackage(cp)
			if err != nil {
				c.Event("package_does_not_print")
				return
			}
			for p, t := range printed {
				text[p] = t
			}
		}
		ct, err := compileProtoText(text)
		if err != nil {
			c.Event("printed_text_does_not_compile")
			return
		}
		img2 := &source_j5pb.SourceImage{File: ct.FileSet, Packages: img.Packages}
		c15RoundTrip(c, img2, id, class+"/text", det)
	}
}

func runC15(r *rt.Runner) {
	for _, cell := range isolationMatrix() {
		cell := cell
		if cell.TotalityOnly {
			continue
		}
		r.Do("iso/"+cell.ID, func(c *rt.C) { c15Bundle(c, cell.Bundle, "iso:"+cell.ID, "j5s-isolation") })
	}
	r.Do("raw/all-features", func(c *rt.C) {
		files, pkgs := (&rawGen{rng: c.Rand(), all: true}).bundle()
		c15RawProto(c, files, pkgs, "raw:all", "raw-annotated")
	})
	r.Do("raw/sink", func(c *rt.C) {
		m := sinkModel("sink.v1")
		src := map[string]string{}
		for _, f := range m.Files {
			src[f.Path] = f.render()
		}
		c15RawProto(c, src, []string{"sink.v1"}, "raw:sink", "raw-model")
	})
	for i := 0; i < r.Scale(300, 40000); i++ {
		r.Do(fmt.Sprintf("raw/annotated/%d", i), func(c *rt.C) {
			files, pkgs := (&rawGen{rng: c.Rand()}).bundle()
			c15RawProto(c, files, pkgs, fmt.Sprintf("raw:%d", i), "raw-annotated")
		})
	}
	for i := 0; i < r.Scale(150, 20000); i++ {
		r.Do(fmt.Sprintf("raw/model/%d", i), func(c *rt.C) {
			m := randomModel(c.Rand(), "rand.v1")
			src := map[string]string{}
			for _, f := range m.Files {
				src[f.Path] = f.render()
			}
			c15RawProto(c, src, []string{"rand.v1"}, fmt.Sprintf("model:%d", i), "raw-model")
		})
	}
	for i := 0; i < r.Scale(200, 24000); i++ {
		r.Do(fmt.Sprintf("rules/%d", i), func(c *rt.C) {
			g := &j5Gen{rng: c.Rand()}
			var fields []*jF
			for _, n := range g.pickNames(2 + g.rng.Intn(6)) {
				f := fld(n, g.ruledType())
				if g.rng.Intn(4) == 0 {
					f.Req = true
				}
				fields = append(fields, f)
			}
			b := elemsBundle(&jElem{Decl: &jDecl{Kind: kObject, Name: "Ruled", Fields: fields}})
			c15Bundle(c, b, fmt.Sprintf("rules:%d", i), "j5s-rules")
		})
	}
	for i := 0; i < r.Scale(250, 32000); i++ {
		r.Do(fmt.Sprintf("bundle/%d", i), func(c *rt.C) {
			bundle := (&j5Gen{rng: c.Rand()}).randomBundle()
			if i%2 == 0 {
				decorate(bundle)
			}
			c15Bundle(c, bundle, fmt.Sprintf("random:%d", i), "j5s-bundle")
		})
	}
}
