//go:build verif

package props

import (
	"bytes"
	"fmt"
	"math"
	"math/rand"
	"regexp"
	"sort"
	"strings"

	"github.com/pentops/j5/internal/verifh/rt"
	"github.com/pentops/j5/lib/j5codec"
	"google.golang.org/protobuf/encoding/prototext"
	"google.golang.org/protobuf/proto"
	"google.golang.org/protobuf/reflect/protoreflect"
	"google.golang.org/protobuf/types/dynamicpb"
)

func init() {
	Registry["C01"] = func(r *rt.Runner) { runCodecProps(r, "C01") }
	Registry["C08"] = func(r *rt.Runner) { runCodecProps(r, "C08") }
}

// codecEnv: a set of modelled types, their linked descriptors and a codec that
// can resolve them (for Any values).
type codecEnv struct {
	name      string
	model     *tModel
	ct        *compiledTypes
	codec     *j5codec.Codec
	roots     []string // message types used as roots
	inner     []string // message types usable inside Any
	innerDeep []string // message types with Any fields of their own
}

func newCodecEnv(name string, model *tModel) (*codecEnv, error) {
	src := map[string]string{}
	for _, f := range model.Files {
		src[f.Path] = f.render()
	}
	ct, err := compileProtoText(src)
	if err != nil {
		return nil, fmt.Errorf("compiling generated proto: %w", err)
	}
	return newCodecEnvFrom(name, model, ct), nil
}

func newCodecEnvFrom(name string, model *tModel, ct *compiledTypes) *codecEnv {
	env := &codecEnv{name: name, model: model, ct: ct}
	env.codec = j5codec.NewCodec(j5codec.WithResolver(ct.Types), j5codec.WithProtoToAny())
	for _, m := range model.allMsgs() {
		env.roots = append(env.roots, m.Full)
		if !hasAnyField(m) {
			// oneof wrappers are messages like any other: usable as Any payload
			env.inner = append(env.inner, m.Full)
		} else if !m.Wrapper {
			env.innerDeep = append(env.innerDeep, m.Full)
		}
	}
	return env
}

func hasAnyField(m *tMsg) bool {
	for _, f := range m.Fields {
		if f.Kind == kJ5Any || f.Kind == kPbAny {
			return true
		}
	}
	return false
}

func (env *codecEnv) gen(rng *rand.Rand, cursor int, feats map[string]bool) *msgGen {
	return &msgGen{rng: rng, ct: env.ct, model: env.model, cursor: cursor, feats: feats, anyInner: env.inner, anyInnerDeep: env.innerDeep, maxDepth: 4}
}

func (env *codecEnv) decodeAny(typeName string, protoBytes, j5json []byte) (proto.Message, error) {
	mt, err := env.ct.Types.FindMessageByName(protoreflect.FullName(typeName))
	if err != nil {
		return nil, err
	}
	msg := mt.New()
	if len(protoBytes) > 0 || len(j5json) == 0 {
		if err := proto.Unmarshal(protoBytes, msg.Interface()); err != nil {
			return nil, err
		}
		return msg.Interface(), nil
	}
	// only the JSON form is present: decoding it is the codec's own job (the
	// inner types are themselves round-trip roots, so this trust is checked)
	if err := env.codec.JSONToProto(j5json, msg); err != nil {
		return nil, err
	}
	return msg.Interface(), nil
}

var reGenName = regexp.MustCompile(`_[0-9]+|[0-9]+`)

func errSig(err error) string {
	s := err.Error()
	// keep the innermost message only: the outer parts are field paths
	if i := strings.LastIndex(s, ": "); i >= 0 && i+2 < len(s) {
		s = s[i+2:]
	}
	s = reGenName.ReplaceAllString(s, "N")
	s = strings.Map(func(r rune) rune {
		if r == '\n' || r == '"' {
			return ' '
		}
		return r
	}, s)
	s = strings.Join(strings.Fields(s), " ")
	if len(s) > 60 {
		s = s[:60]
	}
	return s
}

// firstDifference names the kind and container of the first field in which two
// messages of a modelled type differ (for a stable, informative signature).
func firstDifference(model *tModel, a, b protoreflect.Message) string {
	tm := model.msg(string(a.Descriptor().FullName()))
	if tm == nil {
		return "unmodelled"
	}
	for _, tf := range tm.Fields {
		fd := a.Descriptor().Fields().ByName(protoreflect.Name(tf.Name))
		if fd == nil {
			continue
		}
		card := tf.Card
		if card == "" {
			card = "singular"
		}
		if tf.Group != "" {
			card = "oneof-arm"
		}
		if a.Has(fd) != b.Has(fd) {
			return fmt.Sprintf("%s/%s/presence", tf.Kind, card)
		}
		if !a.Has(fd) {
			continue
		}
		av, bv := a.Get(fd), b.Get(fd)
		switch {
		case fd.IsList():
			al, bl := av.List(), bv.List()
			if al.Len() != bl.Len() {
				return fmt.Sprintf("%s/%s/length", tf.Kind, card)
			}
			for i := 0; i < al.Len(); i++ {
				if d := valueDifference(model, tf, fd, al.Get(i), bl.Get(i)); d != "" {
					return d
				}
			}
		case fd.IsMap():
			am, bm := av.Map(), bv.Map()
			if am.Len() != bm.Len() {
				return fmt.Sprintf("%s/%s/length", tf.Kind, card)
			}
			diff := ""
			am.Range(func(k protoreflect.MapKey, v protoreflect.Value) bool {
				if !bm.Has(k) {
					diff = fmt.Sprintf("%s/%s/key", tf.Kind, card)
					return false
				}
				diff = valueDifference(model, tf, fd.MapValue(), v, bm.Get(k))
				return diff == ""
			})
			if diff != "" {
				return diff
			}
		default:
			if d := valueDifference(model, tf, fd, av, bv); d != "" {
				return d
			}
		}
	}
	return ""
}

func valueDifference(model *tModel, tf *tField, fd protoreflect.FieldDescriptor, a, b protoreflect.Value) string {
	card := tf.Card
	if card == "" {
		card = "singular"
	}
	if tf.Group != "" {
		card = "oneof-arm"
	}
	if fd.Kind() == protoreflect.MessageKind {
		if tf.Kind == kObject || tf.Kind == kOneof {
			return firstDifference(model, a.Message(), b.Message())
		}
		if !proto.Equal(a.Message().Interface(), b.Message().Interface()) {
			return fmt.Sprintf("%s/%s/value", tf.Kind, card)
		}
		return ""
	}
	x := dynamicpb.NewMessage(fd.ContainingMessage())
	y := dynamicpb.NewMessage(fd.ContainingMessage())
	if fd.IsList() || fd.ContainingMessage().IsMapEntry() {
		// compare scalars through their interface value
		if fmt.Sprint(a.Interface()) != fmt.Sprint(b.Interface()) {
			return fmt.Sprintf("%s/%s/value", tf.Kind, card)
		}
		return ""
	}
	x.Set(fd, a)
	y.Set(fd, b)
	if !proto.Equal(x, y) {
		return fmt.Sprintf("%s/%s/value", tf.Kind, card)
	}
	return ""
}

func msgText(m proto.Message) string {
	return rt.Clip(prototext.MarshalOptions{Multiline: false}.Format(m), 1500)
}

// structHash: hash of (type shape, value classes) — here the type name plus the
// set of populated field paths with their lengths, which identifies the shape
// of a message independent of the concrete scalar values... plus the values
// themselves so that distinct boundary values count as distinct cases.
func msgHash(env *codecEnv, m proto.Message) uint64 {
	b, _ := proto.MarshalOptions{Deterministic: true}.Marshal(m)
	return rt.Hash(env.name, string(m.ProtoReflect().Descriptor().FullName()), string(b))
}

// lastEncoded: the slice the previous ProtoToJSON call returned, and its content at that time
var (
	lastEncoded     []byte
	lastEncodedCopy string
)

// checkRoundTrip is the C01 oracle (and the shared execution for C08).
func checkCodecCase(c *rt.C, prop string, env *codecEnv, m *dynamicpb.Message, class string) {
	full := string(m.Descriptor().FullName())
	nontrivial := !isEmptyMessage(m)
	c.Eval(msgHash(env, m), nontrivial)
	det := func() map[string]any {
		return map[string]any{"env": env.name, "type": full, "message": msgText(m), "class": class, "proto_sources": env.ct.Sources}
	}
	var b []byte
	var err error
	c.Input([]byte(full + " " + msgText(m)))
	ok, pv, fn, st := rt.Guard(func() { b, err = env.codec.ProtoToJSON(m) })
	c.EndBudget()
	if !ok {
		d := det()
		d["stack"] = st
		c.Violate("encode-panic/"+fn, fmt.Sprintf("ProtoToJSON panicked on a %s: %v", full, pv), d)
		return
	}
	if err != nil {
		if prop == "C01" {
			c.Violate("encode/error/"+errSig(err), fmt.Sprintf("ProtoToJSON fails on a representable %s: %v", full, err), det())
		}
		return
	}
	// what an earlier call returned stays what it was: the previous document is compared with the copy taken then
	if lastEncoded != nil && string(lastEncoded) != lastEncodedCopy {
		d := det()
		d["earlier_output_then"] = rt.Clip(lastEncodedCopy, 2000)
		d["earlier_output_now"] = rt.Clip(string(lastEncoded), 2000)
		c.Violate("output-overwritten-by-later-call", fmt.Sprintf("the document an earlier ProtoToJSON call returned changed when %s was encoded: it was %s, it is now %s", full, rt.Clip(lastEncodedCopy, 200), rt.Clip(string(lastEncoded), 200)), d)
	}
	lastEncoded, lastEncodedCopy = b, string(b)
	c.Event("earlier_outputs_rechecked")
	if prop == "C08" {
		checkWireFormat(c, env, m, b, det)
		return
	}
	m2 := dynamicpb.NewMessage(m.Descriptor())
	c.Input(b)
	ok, pv, fn, st = rt.Guard(func() { err = env.codec.JSONToProto(b, m2) })
	c.EndBudget()
	d := det()
	d["json"] = string(b)
	if !ok {
		d["stack"] = st
		c.Violate("decode-panic/"+fn, fmt.Sprintf("JSONToProto panicked on the encoder's own output for %s: %v", full, pv), d)
		return
	}
	if err != nil {
		c.Violate("decode/error/"+errSig(err), fmt.Sprintf("JSONToProto rejects the encoder's own output for %s: %v; json=%s", full, err, rt.Clip(string(b), 400)), d)
		return
	}
	n1, e1 := normMessage(env.model, m, env.decodeAny)
	n2, e2 := normObserved(env.model, m2, env.decodeAny)
	if e1 != nil {
		panic("harness: cannot normalise generated message: " + e1.Error())
	}
	if e2 != nil {
		c.Violate("roundtrip/any-undecodable", fmt.Sprintf("decoded %s carries an Any that cannot be decoded: %v", full, e2), d)
		return
	}
	if !proto.Equal(n1.Interface(), n2.Interface()) {
		d["decoded"] = msgText(m2)
		where := firstDifference(env.model, n1, n2)
		c.Violate("roundtrip/differs/"+where, fmt.Sprintf("decode(encode(m)) != m for %s (first difference: %s)\n m  = %s\n m' = %s\n json = %s", full, where, rt.Clip(msgText(n1.Interface()), 500), rt.Clip(msgText(n2.Interface()), 500), rt.Clip(string(b), 500)), d)
		return
	}
	if prop == "C01" {
		checkJ5AnyJSONForm(c, env, m, d)
	}
	if c.WantSample() && nontrivial && len(b) > 60 {
		c.Sample(map[string]any{"type": full, "json": rt.Clip(string(b), 600), "class": class})
	}
}

// checkJ5AnyJSONForm: the same message with its singular j5 Any fields in the JSON form (j5_json holding the
// encoder's own, compact, text for the payload; this is the form every decoded message has). Nothing in that
// form needs normalising: the decoded field must carry the same bytes.
func checkJ5AnyJSONForm(c *rt.C, env *codecEnv, m *dynamicpb.Message, d map[string]any) {
	tm := env.model.msg(string(m.Descriptor().FullName()))
	if tm == nil {
		return
	}
	var m3 *dynamicpb.Message
	want := map[string][]byte{}
	for _, tf := range tm.Fields {
		if tf.Kind != kJ5Any || tf.Card != "" {
			continue
		}
		fd := m.Descriptor().Fields().ByName(protoreflect.Name(tf.Name))
		if fd == nil || !m.Has(fd) {
			continue
		}
		am := m.Get(fd).Message()
		ad := am.Descriptor().Fields()
		name := am.Get(ad.ByName("type_name")).String()
		pb := am.Get(ad.ByName("proto")).Bytes()
		inner, err := env.decodeAny(name, pb, nil)
		if err != nil {
			continue
		}
		var x []byte
		ok, _, _, _ := rt.Guard(func() { x, err = env.codec.ProtoToJSON(inner.ProtoReflect()) })
		if !ok || err != nil {
			continue // reported by the case of the inner type itself
		}
		if m3 == nil {
			m3 = dynamicpb.NewMessage(m.Descriptor())
			proto.Merge(m3, m)
		}
		am3 := m3.Mutable(fd).Message()
		am3.Clear(ad.ByName("proto"))
		am3.Set(ad.ByName("j5_json"), protoreflect.ValueOfBytes(x))
		want[tf.Name] = x
	}
	if m3 == nil {
		return
	}
	var b3 []byte
	var err error
	ok, _, _, _ := rt.Guard(func() { b3, err = env.codec.ProtoToJSON(m3) })
	if !ok || err != nil {
		c.Violate("roundtrip/j5any-json-form/encode", fmt.Sprintf("ProtoToJSON fails on a message whose j5 Any holds the encoder's own JSON: %v", err), d)
		return
	}
	m4 := dynamicpb.NewMessage(m.Descriptor())
	ok, _, _, _ = rt.Guard(func() { err = env.codec.JSONToProto(b3, m4) })
	if !ok || err != nil {
		c.Violate("roundtrip/j5any-json-form/decode", fmt.Sprintf("JSONToProto fails on the encoding of a message whose j5 Any holds the encoder's own JSON: %v", err), d)
		return
	}
	for _, name := range rt.SortedKeys(want) {
		fd := m4.Descriptor().Fields().ByName(protoreflect.Name(name))
		am := m4.Get(fd).Message()
		got := am.Get(am.Descriptor().Fields().ByName("j5_json")).Bytes()
		c.Event("j5any_json_form_round_trips")
		if string(got) != string(want[name]) {
			c.Violate("roundtrip/differs/j5any-json-form", fmt.Sprintf("a j5 Any in JSON form does not come back as it went in (field %s):\n in  j5_json = %s\n out j5_json = %s", name, rt.Clip(string(want[name]), 400), rt.Clip(string(got), 400)), d)
			return
		}
	}
}

// checkWireFormat is the C08 oracle.
func checkWireFormat(c *rt.C, env *codecEnv, m *dynamicpb.Message, b []byte, det func() map[string]any) {
	full := string(m.Descriptor().FullName())
	tree, err := parseStrictJSON(b)
	if err != nil {
		d := det()
		d["json"] = string(b)
		c.Violate("wellformed/"+errSig(err), fmt.Sprintf("ProtoToJSON output for %s is not a well-formed JSON document: %v; output=%s", full, err, rt.Clip(string(b), 400)), d)
		return
	}
	ref := &refRenderer{model: env.model, resolve: func(name string, pb []byte) (protoreflect.Message, error) {
		im, err := env.decodeAny(name, pb, nil)
		if err != nil {
			return nil, err
		}
		return im.ProtoReflect(), nil
	}}
	want, err := ref.message(m)
	if err != nil {
		panic("harness: reference rendering failed: " + err.Error())
	}
	var diffs []string
	jDiff("$", tree, want, &diffs)
	if len(diffs) > 0 {
		d := det()
		d["json"] = string(b)
		d["reference"] = want.String()
		d["differences"] = diffText(diffs)
		c.Violate("format/"+diffSig(diffs[0]), fmt.Sprintf("ProtoToJSON output for %s deviates from the documented wire format: %s\n output    = %s\n reference = %s", full, diffText(diffs), rt.Clip(string(b), 500), rt.Clip(want.String(), 500)), d)
		return
	}
	if c.WantSample() && len(b) > 60 {
		c.Sample(map[string]any{"type": full, "json": rt.Clip(string(b), 600)})
	}
}

var reQuoted = regexp.MustCompile(`"[^"]*"|[-0-9][0-9.eE+-]*`)

// diffSig drops the path and the concrete values of a difference.
func diffSig(d string) string {
	if i := strings.Index(d, "\x00"); i >= 0 {
		d = d[i+1:]
	}
	d = reQuoted.ReplaceAllString(d, "_")
	if len(d) > 70 {
		d = d[:70]
	}
	return d
}

func diffText(ds []string) string {
	out := make([]string, len(ds))
	for i, d := range ds {
		out[i] = strings.Replace(d, "\x00", ": ", 1)
	}
	return strings.Join(out, "; ")
}

var sinkEnvCache *codecEnv

func sinkEnv() *codecEnv {
	if sinkEnvCache == nil {
		env, err := newCodecEnv("sink", sinkModel("verif.sink.v1"))
		if err != nil {
			panic("harness: sink model does not compile: " + err.Error())
		}
		sinkEnvCache = env
	}
	return sinkEnvCache
}

func flushFeats(c *rt.C, prefix string, feats map[string]bool) {
	keys := make([]string, 0, len(feats))
	for k := range feats {
		keys = append(keys, k)
	}
	sort.Strings(keys)
	for _, k := range keys {
		c.Feature(prefix + k)
	}
}

// codecFloors lists the (kind@position) features a run must have observed.
func codecFloorFeatures() []string {
	var out []string
	for _, k := range scalarKinds {
		for _, pos := range []string{"singular", "optional", "array", "map", "oneof-arm", "flattened", "depth3"} {
			out = append(out, "v:"+k+"@"+pos)
		}
	}
	return out
}

// durationRoundTrips: google.protobuf.Duration is one of the types the schema reader supports; it has no entry in
// the type model, so it gets a class of its own: every (seconds, nanos) shape in every position must come back
// exactly (C01), and the canonical document must decode to exactly the message it was made from (C03).
func durationRoundTrips(c *rt.C, prop string) {
	src := map[string]string{"verif/dur/v1/dur.proto": `syntax = "proto3";
package verif.dur.v1;
import "google/protobuf/duration.proto";
message D {
  google.protobuf.Duration d = 1;
  repeated google.protobuf.Duration ds = 2;
  map<string, google.protobuf.Duration> dm = 3;
  D next = 4;
  oneof pick {
    google.protobuf.Duration od = 5;
    string os = 6;
  }
}
`}
	ct, err := compileProtoText(src)
	if err != nil {
		panic("harness: duration proto does not compile: " + err.Error())
	}
	cd := j5codec.NewCodec(j5codec.WithResolver(ct.Types))
	md := ct.message("verif.dur.v1.D")
	dmd := md.Fields().ByName("d").Message()
	mk := func(sec int64, nanos int32) protoreflect.Value {
		d := dynamicpb.NewMessage(dmd)
		d.Set(dmd.Fields().ByName("seconds"), protoreflect.ValueOfInt64(sec))
		d.Set(dmd.Fields().ByName("nanos"), protoreflect.ValueOfInt32(nanos))
		return protoreflect.ValueOfMessage(d)
	}
	vals := [][2]int64{{0, 0}, {1, 0}, {0, 500000000}, {0, -500000000}, {-1, -500000000}, {1, 500000000}, {0, 1}, {0, -1}, {-1, 0}, {315576000000, 999999999}, {-315576000000, -999999999},
		{0, 999999999}, {0, -999999999}, {123, 450000000}, {-123, -450000000}, {0, 10}, {0, -10}, {59, 100}, {-59, -100}, {1, 1}, {-1, -1}}
	c.Feature(strings.ToLower(prop) + ":duration")
	for _, v := range vals {
		for pos := 0; pos < 5; pos++ {
			m := dynamicpb.NewMessage(md)
			switch pos {
			case 0:
				m.Set(md.Fields().ByName("d"), mk(v[0], int32(v[1])))
			case 1:
				l := m.Mutable(md.Fields().ByName("ds")).List()
				l.Append(mk(v[0], int32(v[1])))
				l.Append(mk(1, 0))
			case 2:
				m.Mutable(md.Fields().ByName("dm")).Map().Set(protoreflect.ValueOfString("k").MapKey(), mk(v[0], int32(v[1])))
			case 3:
				inner := dynamicpb.NewMessage(md)
				inner.Set(md.Fields().ByName("d"), mk(v[0], int32(v[1])))
				m.Set(md.Fields().ByName("next"), protoreflect.ValueOfMessage(inner))
			case 4:
				m.Set(md.Fields().ByName("od"), mk(v[0], int32(v[1])))
			}
			posName := []string{"singular", "array", "map", "nested", "oneof"}[pos]
			det := map[string]any{"seconds": v[0], "nanos": v[1], "position": posName, "proto_sources": src}
			c.Eval(rt.Hash("duration", fmt.Sprint(v, pos)), true)
			var b []byte
			var eerr error
			c.Input([]byte(fmt.Sprintf("duration %v %s", v, posName)))
			ok, pv, fn, st := rt.Guard(func() { b, eerr = cd.ProtoToJSON(m) })
			c.EndBudget()
			if !ok {
				det["stack"] = st
				c.Violate("duration/encode-panic/"+fn, fmt.Sprintf("encoding a duration of %ds %dns (%s) panicked: %v", v[0], v[1], posName, pv), det)
				continue
			}
			if eerr != nil {
				c.Violate("duration/encode-error/"+posName, fmt.Sprintf("a duration of %ds %dns (%s) cannot be encoded: %v", v[0], v[1], posName, eerr), det)
				continue
			}
			det["json"] = string(b)
			if _, perr := parseStrictJSON(b); perr != nil {
				c.Violate("duration/invalid-json", fmt.Sprintf("the encoding of a duration of %ds %dns is not valid JSON: %s", v[0], v[1], b), det)
				continue
			}
			m2 := dynamicpb.NewMessage(md)
			var derr error
			c.Input(b)
			ok, pv, fn, st = rt.Guard(func() { derr = cd.JSONToProto(b, m2) })
			c.EndBudget()
			if !ok {
				det["stack"] = st
				c.Violate("duration/decode-panic/"+fn, fmt.Sprintf("decoding %s panicked: %v", b, pv), det)
				continue
			}
			if derr != nil {
				c.Violate("duration/decode-error", fmt.Sprintf("the codec rejects its own encoding %s of a duration of %ds %dns: %v", b, v[0], v[1], derr), det)
				continue
			}
			// compared on the wire form: m is built from dynamic Duration messages, the decoder fills in generated ones
			if !bytes.Equal(mustMarshal(m), mustMarshal(m2)) {
				c.Violate("duration/differs/"+posName, fmt.Sprintf("a duration of %ds %dns (%s) is encoded as %s and comes back as %v", v[0], v[1], posName, b, msgText(m2)), det)
				continue
			}
			c.Event("durations_round_tripped")
		}
	}
}

func runCodecProps(r *rt.Runner, prop string) {
	if prop == "C01" {
		r.Do("duration", func(c *rt.C) { durationRoundTrips(c, prop) })
	}
	// --- systematic: the sink type, every table entry of every kind in every position -----------
	for cur := 0; cur < 14; cur++ {
		r.Do(fmt.Sprintf("sink/sys/%d", cur), func(c *rt.C) {
			env := sinkEnv()
			feats := map[string]bool{}
			for _, root := range env.roots {
				g := env.gen(c.Rand(), cur, feats)
				checkCodecCase(c, prop, env, g.message(root, 0), "systematic")
			}
			flushFeats(c, "v:", feats)
		})
	}
	// --- C08 only: out-of-domain values, judged for well-formedness only ---------------------------------
	if prop == "C08" {
		r.Do("sink/out-of-domain", func(c *rt.C) {
			env := sinkEnv()
			type od struct {
				name string
				set  func(m *dynamicpb.Message)
			}
			leafMD := env.ct.message("verif.sink.v1.Leaf")
			fld := func(prefix string) protoreflect.FieldDescriptor {
				for i := 0; i < leafMD.Fields().Len(); i++ {
					f := leafMD.Fields().Get(i)
					if strings.HasPrefix(string(f.Name()), prefix) {
						return f
					}
				}
				panic("harness: no leaf field " + prefix)
			}
			var cases []od
			for _, v := range []float64{math.NaN(), math.Inf(1), math.Inf(-1)} {
				v := v
				cases = append(cases, od{fmt.Sprintf("float=%v", v), func(m *dynamicpb.Message) { m.Set(fld("l_float_"), protoreflect.ValueOfFloat32(float32(v))) }})
				cases = append(cases, od{fmt.Sprintf("double=%v", v), func(m *dynamicpb.Message) { m.Set(fld("l_double_"), protoreflect.ValueOfFloat64(v)) }})
			}
			for _, dv := range []dateVal{{0, 1, 1}, {10000, 1, 1}, {-5, 1, 1}, {2020, 13, 1}, {2020, 0, 0}, {2020, 1, 32}, {99999, 99, 99}, {2020, -1, -1}} {
				dv := dv
				cases = append(cases, od{fmt.Sprintf("date=%v", dv), func(m *dynamicpb.Message) {
					f := fld("l_date_")
					dm := newDyn(f.Message())
					setByName(dm, "year", protoreflect.ValueOfInt32(dv.y))
					setByName(dm, "month", protoreflect.ValueOfInt32(dv.m))
					setByName(dm, "day", protoreflect.ValueOfInt32(dv.d))
					m.Set(f, protoreflect.ValueOfMessage(dm))
				}})
			}
			for _, tv := range []tsVal{{253402300800, 0}, {-62135596801, 0}, {1 << 60, 0}, {0, -1}, {0, 1000000000}} {
				tv := tv
				cases = append(cases, od{fmt.Sprintf("timestamp=%v", tv), func(m *dynamicpb.Message) {
					f := fld("l_timestamp_")
					dm := newDyn(f.Message())
					setByName(dm, "seconds", protoreflect.ValueOfInt64(tv.sec))
					setByName(dm, "nanos", protoreflect.ValueOfInt32(tv.nanos))
					m.Set(f, protoreflect.ValueOfMessage(dm))
				}})
			}
			for _, dec := range []string{"", "abc", "1.2.3", "\"", "1e400000000"} {
				dec := dec
				cases = append(cases, od{fmt.Sprintf("decimal=%q", dec), func(m *dynamicpb.Message) {
					f := fld("l_decimal_")
					dm := newDyn(f.Message())
					setByName(dm, "value", protoreflect.ValueOfString(dec))
					m.Set(f, protoreflect.ValueOfMessage(dm))
				}})
			}
			cases = append(cases, od{"string=invalid-utf8", func(m *dynamicpb.Message) { m.Set(fld("l_string_"), protoreflect.ValueOfString("bad\xff\xfeutf8")) }})
			cases = append(cases, od{"enum=undefined", func(m *dynamicpb.Message) { m.Set(fld("l_enum_"), protoreflect.ValueOfEnum(77)) }})
			// the same values below containers: a leaf as nested object, array element and map value of the sink, and a few
			// scalars directly as array elements and map values
			sinkMD := env.ct.message("verif.sink.v1.Sink")
			sfld := func(prefix string) protoreflect.FieldDescriptor {
				for i := 0; i < sinkMD.Fields().Len(); i++ {
					f := sinkMD.Fields().Get(i)
					if strings.HasPrefix(string(f.Name()), prefix) {
						return f
					}
				}
				panic("harness: no sink field " + prefix)
			}
			type wrapped struct {
				name string
				m    *dynamicpb.Message
			}
			var all []wrapped
			for _, k := range cases {
				leaf := newDyn(leafMD)
				k.set(leaf)
				all = append(all, wrapped{k.name, leaf})
				for _, pos := range []string{"s_leaf_", "r_leaf_", "m_leaf_"} {
					sm := newDyn(sinkMD)
					l2 := newDyn(leafMD)
					k.set(l2)
					f := sfld(pos)
					switch {
					case f.IsList():
						lst := sm.Mutable(f).List()
						lst.Append(protoreflect.ValueOfMessage(newDyn(leafMD)))
						lst.Append(protoreflect.ValueOfMessage(l2))
					case f.IsMap():
						mp := sm.Mutable(f).Map()
						mp.Set(protoreflect.ValueOfString("a").MapKey(), protoreflect.ValueOfMessage(l2))
						mp.Set(protoreflect.ValueOfString("b").MapKey(), protoreflect.ValueOfMessage(newDyn(leafMD)))
					default:
						sm.Set(f, protoreflect.ValueOfMessage(l2))
					}
					all = append(all, wrapped{k.name + "@" + pos, sm})
				}
			}
			for _, sc := range []struct {
				prefix string
				v      protoreflect.Value
			}{{"enum_", protoreflect.ValueOfEnum(77)}, {"string_", protoreflect.ValueOfString("bad\xff\xfeutf8")}, {"double_", protoreflect.ValueOfFloat64(math.NaN())}, {"float_", protoreflect.ValueOfFloat32(float32(math.Inf(1)))}} {
				sm := newDyn(sinkMD)
				sm.Mutable(sfld("r_" + sc.prefix)).List().Append(sc.v)
				all = append(all, wrapped{"array-element:" + sc.prefix, sm})
				sm = newDyn(sinkMD)
				sm.Mutable(sfld("m_"+sc.prefix)).Map().Set(protoreflect.ValueOfString("k").MapKey(), sc.v)
				all = append(all, wrapped{"map-value:" + sc.prefix, sm})
			}
			// Any values whose payload members are empty rather than missing (a Go caller writing []byte{}; equal as a
			// proto message to the same Any without them), or without a payload at all (a j5_json payload that is not JSON is outside the
			// domain of the property and is not judged)
			for _, prefix := range []string{"j5any", "pbany"} {
				af := sfld(prefix)
				names := []string{"type_name", "proto", "j5_json"}
				typeVal := "verif.sink.v1.Leaf"
				if prefix == "pbany" {
					names = []string{"type_url", "value", ""}
					typeVal = "type.googleapis.com/verif.sink.v1.Leaf"
				}
				for _, shape := range []struct {
					name     string
					typ      string
					pb, json []byte
				}{
					{"empty-json", typeVal, nil, []byte{}},
					{"empty-proto", typeVal, []byte{}, nil},
					{"empty-both", typeVal, []byte{}, []byte{}},
					{"no-payload", typeVal, nil, nil},
					{"no-type", "", nil, []byte("{}")},
					{"no-type-empty", "", []byte{}, []byte{}},
					{"unknown-type", strings.Replace(typeVal, "Leaf", "NoSuchType", 1), []byte{}, nil},
					{"unknown-type-json", strings.Replace(typeVal, "Leaf", "NoSuchType", 1), nil, []byte("{}")},
					{"garbage-proto", typeVal, []byte{0xff, 0xff, 0xff}, nil},
				} {
					if prefix == "pbany" && shape.json != nil {
						continue
					}
					am := newDyn(af.Message())
					if shape.typ != "" {
						setByName(am, names[0], protoreflect.ValueOfString(shape.typ))
					}
					if shape.pb != nil {
						setByName(am, names[1], protoreflect.ValueOfBytes(shape.pb))
					}
					if shape.json != nil {
						setByName(am, names[2], protoreflect.ValueOfBytes(shape.json))
					}
					sm := newDyn(sinkMD)
					sm.Set(af, protoreflect.ValueOfMessage(am))
					all = append(all, wrapped{"any=" + prefix + "/" + shape.name, sm})
					// and below a container
					outer := newDyn(sinkMD)
					sm2 := newDyn(sinkMD)
					sm2.Set(af, protoreflect.ValueOfMessage(proto.Clone(am).ProtoReflect()))
					outer.Mutable(sfld("children")).List().Append(protoreflect.ValueOfMessage(sm2))
					all = append(all, wrapped{"any=" + prefix + "/" + shape.name + "@children", outer})
				}
			}
			for _, k := range all {
				m := k.m
				c.Eval(rt.Hash("ood", k.name), true)
				var b []byte
				var err error
				ok, pv, fn, _ := rt.Guard(func() { b, err = env.codec.ProtoToJSON(m) })
				if !ok {
					c.Violate("encode-panic/"+fn, fmt.Sprintf("ProtoToJSON panicked on out-of-domain value %s: %v", k.name, pv), map[string]any{"value": k.name})
					continue
				}
				if err != nil {
					c.Event("out_of_domain_rejected")
					continue
				}
				c.Event("out_of_domain_encoded")
				if _, perr := parseStrictJSON(b); perr != nil {
					c.Violate("wellformed-out-of-domain/"+strings.SplitN(k.name, "=", 2)[0], fmt.Sprintf("ProtoToJSON succeeded on %s but the output is not well-formed JSON (%v): %s", k.name, perr, rt.Clip(string(b), 300)), map[string]any{"value": k.name, "json": string(b)})
				}
			}
			c.Feature("c08:nonfinite", "c08:date-range")
		})
	}
	// --- random messages of the sink type ------------------------------------------------------------
	for b := 0; b < r.Scale(150, 3000); b++ {
		r.Do(fmt.Sprintf("sink/rand/%d", b), func(c *rt.C) {
			env := sinkEnv()
			feats := map[string]bool{}
			rng := c.Rand()
			for i := 0; i < 12; i++ {
				g := env.gen(rng, -1, feats)
				root := env.roots[rng.Intn(len(env.roots))]
				if i%2 == 0 {
					root = "verif.sink.v1.Sink"
					g.maxDepth = 2 // the sink is wide: deeper random instances are megabytes
					if i%4 == 0 {
						g.maxDepth = 3
					}
				}
				checkCodecCase(c, prop, env, g.message(root, 0), "random-sink")
			}
			flushFeats(c, "v:", feats)
		})
	}
	// --- random type models ------------------------------------------------------------------------------
	for b := 0; b < r.Scale(250, 5000); b++ {
		r.Do(fmt.Sprintf("model/%d", b), func(c *rt.C) {
			rng := c.Rand()
			model := randomModel(rng, fmt.Sprintf("verif.gen%d.v1", b))
			env, err := newCodecEnv(fmt.Sprintf("model-%d", b), model)
			if err != nil {
				panic("harness: generated proto does not compile: " + err.Error() + "\n" + model.Files[0].render())
			}
			feats := map[string]bool{}
			for _, root := range env.roots {
				for i := 0; i < 6; i++ {
					cur := -1
					if i < 3 {
						cur = i + b
					}
					g := env.gen(rng, cur, feats)
					checkCodecCase(c, prop, env, g.message(root, 0), "random-model")
				}
			}
			flushFeats(c, "v:", feats)
			c.Feature("codec:random-model")
		})
	}
}
