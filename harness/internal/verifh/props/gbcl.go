//go:build verif

package props

import (
	"fmt"
	"math/rand"
	"strings"
)

// G-BCL: source-text generators for the BCL/j5s surface syntax (DESIGN.md §3).

// bclAlphabet: one or two representative lexemes per token kind plus the
// error-prone fragments. Used for the bounded-exhaustive enumeration.
var bclAlphabet = []string{
	"a", "b2", "true", `"s"`, `"é\"x"`, "/r/", "1", "2.5", "// c", "/* c */", "| d",
	"=", "{", "}", "[", "]", ".", ",", ":", "+", "!", "?", "\n",
	`"`, "/", `\`, "/*", "|", "é", "😀", "\r", "-",
}

var bclWords = []string{"a", "b", "foo", "bar", "field", "object", "name", "x1", "true", "false", "naïve", "Ünï", "string", "key", "id62", "required"}

var bclStringChars = []string{"a", "b", " ", "é", "ü", "日", "😀", "\t", `\"`, `\\`, "\\\n", "'", "/", "|", "{", "}", "//", "/*", "=", "%", " ", "\u200b", "\x7f", "\u0001"}

var bclRegexChars = []string{"a", "b", "^", "$", "[0-9]", "+", `\d`, `\/`, "//", ".", "*", "(", ")", "|", " ", `\\`, `"`, "é", "{2}"}

type bclGen struct {
	rng *rand.Rand
	sb  strings.Builder
	// knobs
	weird bool // allow accepted-but-unusual forms (comment tokens as values, CR, odd spacing)
}

func (g *bclGen) pick(list []string) string { return list[g.rng.Intn(len(list))] }

func (g *bclGen) ws() string {
	switch g.rng.Intn(8) {
	case 0:
		return "  "
	case 1:
		return "\t"
	case 2:
		if g.weird {
			return " \t "
		}
	}
	return " "
}

func (g *bclGen) optws() string {
	if g.rng.Intn(3) == 0 {
		return g.ws()
	}
	return ""
}

func (g *bclGen) ident() string {
	w := g.pick(bclWords)
	if g.rng.Intn(6) == 0 {
		w += fmt.Sprint(g.rng.Intn(100))
	}
	if g.rng.Intn(10) == 0 {
		w += "_" + g.pick(bclWords)
	}
	return w
}

func (g *bclGen) reference() string {
	n := 1
	if g.rng.Intn(3) == 0 {
		n += g.rng.Intn(3)
	}
	parts := make([]string, n)
	for i := range parts {
		parts[i] = g.ident()
	}
	return strings.Join(parts, ".")
}

func (g *bclGen) str() string {
	n := g.rng.Intn(6)
	if g.rng.Intn(8) == 0 {
		n = g.rng.Intn(30)
	}
	var sb strings.Builder
	sb.WriteString(`"`)
	for i := 0; i < n; i++ {
		sb.WriteString(g.pick(bclStringChars))
	}
	sb.WriteString(`"`)
	return sb.String()
}

func (g *bclGen) regex() string {
	n := 1 + g.rng.Intn(5)
	var sb strings.Builder
	sb.WriteString("/")
	for i := 0; i < n; i++ {
		sb.WriteString(g.pick(bclRegexChars))
	}
	sb.WriteString("/")
	s := sb.String()
	// "/*" or "//" at the very start would lex as a comment; keep those too (the
	// parser decides what is accepted) but less often
	return s
}

func (g *bclGen) number() string {
	switch g.rng.Intn(6) {
	case 0:
		return "0"
	case 1:
		return fmt.Sprint(g.rng.Intn(1000))
	case 2:
		return fmt.Sprintf("%d.%d", g.rng.Intn(100), g.rng.Intn(100))
	case 3:
		return "007"
	case 4:
		return "18446744073709551616"
	default:
		return fmt.Sprintf("%d.", g.rng.Intn(10))
	}
}

func (g *bclGen) commentText() string {
	n := g.rng.Intn(5)
	parts := make([]string, n)
	for i := range parts {
		parts[i] = g.pick([]string{"c", "todo", "é", "//", "/*", "*/x", "|", "{", "}", "\"", "a = 1", "\t", "  "})
	}
	s := strings.Join(parts, " ")
	if g.rng.Intn(2) == 0 {
		s = " " + s
	}
	if g.rng.Intn(6) == 0 {
		s += "  "
	}
	return s
}

func (g *bclGen) value(depth int) string {
	k := g.rng.Intn(12)
	switch {
	case k < 2:
		return g.reference()
	case k < 5:
		return g.str()
	case k < 6:
		return g.regex()
	case k < 8:
		return g.number()
	case k < 9:
		return g.pick([]string{"true", "false"})
	case k < 11 && depth < 3:
		n := g.rng.Intn(4)
		parts := make([]string, n)
		for i := range parts {
			parts[i] = g.value(depth + 1)
		}
		sep := "," + g.optws()
		return "[" + g.optws() + strings.Join(parts, g.optws()+sep) + g.optws() + "]"
	default:
		if g.weird && g.rng.Intn(3) == 0 {
			// literal tokens the grammar also takes as values
			return g.pick([]string{"// trailing", "/* block */", "| descr"})
		}
		return g.str()
	}
}

func (g *bclGen) tag() string {
	s := ""
	if g.rng.Intn(6) == 0 {
		s = g.pick([]string{"!", "?"}) + g.optws()
	}
	if g.rng.Intn(5) == 0 {
		return s + g.str()
	}
	return s + g.reference()
}

func (g *bclGen) indent(depth int) string {
	switch g.rng.Intn(5) {
	case 0:
		return ""
	case 1:
		return strings.Repeat("  ", depth)
	case 2:
		return strings.Repeat(" ", g.rng.Intn(9))
	default:
		return strings.Repeat("\t", depth)
	}
}

func (g *bclGen) eol() {
	if g.rng.Intn(10) == 0 {
		g.sb.WriteString(g.ws())
	}
	g.sb.WriteString("\n")
}

func (g *bclGen) descriptionBlock(depth int) {
	n := 1 + g.rng.Intn(4)
	for i := 0; i < n; i++ {
		g.sb.WriteString(g.indent(depth))
		g.sb.WriteString("|")
		if g.rng.Intn(5) == 0 {
			// empty description line = paragraph break
		} else {
			g.sb.WriteString(g.optws())
			w := g.rng.Intn(14)
			if g.rng.Intn(6) == 0 {
				w = 20 + g.rng.Intn(30) // long lines get re-wrapped by the formatter
			}
			words := make([]string, w)
			for j := range words {
				words[j] = g.pick([]string{"lorem", "ipsum", "a", "é", "supercalifragilistic", "x.", "//", "|", "\"q\"", "{", "1", "tab\tbed"})
				if g.rng.Intn(40) == 0 {
					// a word that alone is as long as a line may be (a URL, a type name)
					words[j] = "https://example.com/" + strings.Repeat("very-long-path-segment/", 3+g.rng.Intn(3)) + "end"
				}
			}
			g.sb.WriteString(strings.Join(words, g.pick([]string{" ", " ", "  "})))
		}
		g.eol()
	}
}

func (g *bclGen) statements(depth int, budget *int) {
	n := g.rng.Intn(5)
	if depth == 0 {
		n = 1 + g.rng.Intn(6)
	}
	for i := 0; i < n && *budget > 0; i++ {
		*budget--
		switch k := g.rng.Intn(20); {
		case k < 2: // blank lines
			for j := g.rng.Intn(4); j >= 0; j-- {
				g.eol()
			}
		case k < 4: // line comment
			g.sb.WriteString(g.indent(depth) + "//" + g.commentText())
			g.sb.WriteString("\n")
		case k < 5: // block comment, maybe multi-line
			g.sb.WriteString(g.indent(depth) + "/*" + strings.ReplaceAll(g.commentText(), "*/", "* /"))
			if g.rng.Intn(2) == 0 {
				g.sb.WriteString("\n" + g.indent(depth) + " more\n\n  lines ")
			}
			g.sb.WriteString("*/")
			g.eol()
		case k < 7:
			g.descriptionBlock(depth)
		case k < 12: // assignment
			g.sb.WriteString(g.indent(depth) + g.reference() + g.optws())
			if g.rng.Intn(5) == 0 {
				g.sb.WriteString("+=")
			} else {
				g.sb.WriteString("=")
			}
			g.sb.WriteString(g.optws() + g.value(0))
			if g.rng.Intn(5) == 0 {
				g.sb.WriteString(g.optws() + "//" + g.commentText())
				g.sb.WriteString("\n")
			} else {
				g.eol()
			}
		default: // block header
			g.sb.WriteString(g.indent(depth) + g.reference())
			for j := g.rng.Intn(4); j > 0; j-- {
				g.sb.WriteString(g.ws() + g.tag())
			}
			for j := g.rng.Intn(3); j > 0 && g.rng.Intn(2) == 0; j-- {
				g.sb.WriteString(g.optws() + ":" + g.optws() + g.tag())
			}
			switch e := g.rng.Intn(10); {
			case e < 5 && depth < 4:
				g.sb.WriteString(g.optws() + "{")
				if g.rng.Intn(5) == 0 {
					g.sb.WriteString(g.optws() + "//" + g.commentText())
					g.sb.WriteString("\n")
				} else {
					g.eol()
				}
				if g.rng.Intn(3) == 0 {
					g.descriptionBlock(depth + 1)
				}
				g.statements(depth+1, budget)
				g.sb.WriteString(g.indent(depth) + "}")
				switch g.rng.Intn(12) {
				case 0:
					g.sb.WriteString(g.optws() + "//" + g.commentText())
					g.sb.WriteString("\n")
				case 1:
					if g.weird {
						// next statement on the same line as the close
						continue
					}
					g.eol()
				default:
					g.eol()
				}
			case e < 7:
				g.sb.WriteString(g.ws() + "|" + g.optws() + g.pick([]string{"Description of it", "x", "with // slashes", "  spaced   out  ", "é"}))
				g.eol()
			case e < 8:
				g.sb.WriteString(g.optws() + "//" + g.commentText())
				g.sb.WriteString("\n")
			default:
				g.eol()
			}
		}
	}
}

// genBCL produces a (mostly) valid source text.
func genBCL(rng *rand.Rand, weird bool) string {
	g := &bclGen{rng: rng, weird: weird}
	if rng.Intn(6) == 0 {
		for j := rng.Intn(3); j >= 0; j-- {
			g.sb.WriteString("\n")
		}
	}
	budget := 4 + rng.Intn(20)
	g.statements(0, &budget)
	s := g.sb.String()
	switch rng.Intn(6) {
	case 0:
		s = strings.TrimRight(s, "\n") // no trailing newline
	case 1:
		s += "\n\n"
	}
	return s
}

// bclTokenish splits a text into coarse lexemes for token-level mutation.
func bclTokenish(s string) []string {
	var out []string
	cur := ""
	flush := func() {
		if cur != "" {
			out = append(out, cur)
			cur = ""
		}
	}
	for _, r := range s {
		switch {
		case r == ' ' || r == '\t' || r == '\n':
			flush()
			out = append(out, string(r))
		case strings.ContainsRune("={}[].,:+!?|\"/\\*", r):
			flush()
			out = append(out, string(r))
		default:
			cur += string(r)
		}
	}
	flush()
	return out
}

// mutateBCL applies one token-level deletion, insertion, swap or duplication.
func mutateBCL(rng *rand.Rand, s string) string {
	toks := bclTokenish(s)
	if len(toks) == 0 {
		return bclAlphabet[rng.Intn(len(bclAlphabet))]
	}
	i := rng.Intn(len(toks))
	switch rng.Intn(4) {
	case 0:
		toks = append(toks[:i], toks[i+1:]...)
	case 1:
		ins := bclAlphabet[rng.Intn(len(bclAlphabet))]
		toks = append(toks[:i], append([]string{ins}, toks[i:]...)...)
	case 2:
		j := rng.Intn(len(toks))
		toks[i], toks[j] = toks[j], toks[i]
	default:
		toks = append(toks[:i], append([]string{toks[i]}, toks[i:]...)...)
	}
	return strings.Join(toks, "")
}

// randomUnicode returns a random string over the full Unicode range biased to
// the characters the lexer distinguishes.
func randomUnicode(rng *rand.Rand, n int) string {
	var sb strings.Builder
	for i := 0; i < n; i++ {
		switch rng.Intn(10) {
		case 0, 1, 2:
			sb.WriteString(bclAlphabet[rng.Intn(len(bclAlphabet))])
		case 3:
			sb.WriteRune(rune(rng.Intn(0x80)))
		case 4:
			sb.WriteRune(rune(rng.Intn(0x800)))
		case 5:
			sb.WriteRune(rune(rng.Intn(0x10000)))
		case 6:
			sb.WriteRune(rune(0x10000 + rng.Intn(0x100000)))
		case 7:
			sb.WriteByte(byte(rng.Intn(256))) // possibly invalid UTF-8
		default:
			sb.WriteString(" ")
		}
	}
	return sb.String()
}
