//go:build verif

// Package rt is the runtime of the verification worker: case selection
// (sharding, replay), write-ahead journal, panic capture, CPU work bound,
// coverage counters, distinct-case bitmap and the summary file that the python
// driver merges. Nothing here decides a property; monitors call C.Violate.
package rt

import (
	"encoding/binary"
	"encoding/json"
	"fmt"
	"hash/fnv"
	"math/rand"
	"os"
	"path/filepath"
	"runtime"
	"runtime/debug"
	"sort"
	"strings"
	"sync"
	"sync/atomic"
	"syscall"
	"time"
)

const (
	ExitBlocked    = 95 // a monitored call made no progress while the process used no CPU: blocked for good
	ExitCPUBudget  = 97 // a monitored call exceeded its CPU work bound
	ExitHarnessBug = 98
	bitmapBits     = 1 << 26
)

type Config struct {
	Prop       string
	Seed       int64
	Tier       string // quick | thorough
	Shard      int
	NShards    int
	StartAfter int64          // skip every case whose global counter is <= StartAfter
	Skip       map[int64]bool // global counters never to run (attributed child deaths)
	Only       string         // replay: run only the case with this id
	OutDir     string
	Args       map[string]string // free-form per-property arguments
}

type Violation struct {
	Sig    string         `json:"sig"`
	What   string         `json:"what"`
	CaseID string         `json:"case_id"`
	CaseN  int64          `json:"case_n"`
	Count  int            `json:"count"`
	Detail map[string]any `json:"detail,omitempty"`
}

type Summary struct {
	Prop        string                `json:"prop"`
	Shard       int                   `json:"shard"`
	DoneUpto    int64                 `json:"done_upto"`
	Finished    bool                  `json:"finished"`
	Cases       int64                 `json:"cases"`
	Evaluations int64                 `json:"evaluations"`
	NonTrivial  int64                 `json:"nontrivial"`
	Features    map[string]int64      `json:"features"`
	Monitor     map[string]int64      `json:"monitor_events"`
	Samples     []any                 `json:"samples"`
	Violations  map[string]*Violation `json:"violations"`
	Overflow    int64                 `json:"violation_overflow"`
	HarnessBugs []string              `json:"harness_bugs"`
	Notes       map[string]any        `json:"notes,omitempty"`
	Exhaustive  map[string]bool       `json:"exhaustive,omitempty"`
}

type Runner struct {
	Cfg Config

	n       int64 // global case counter (1-based)
	sum     Summary
	bitmap  []uint64
	journal *os.File

	lastFlush time.Time

	cpuDeadline atomic.Int64 // ns of process CPU time; 0 = no budget active
	curCase     atomic.Value // string
	mu          sync.Mutex
}

func New(cfg Config) *Runner {
	r := &Runner{Cfg: cfg}
	r.sum = Summary{
		Prop:       cfg.Prop,
		Shard:      cfg.Shard,
		Features:   map[string]int64{},
		Monitor:    map[string]int64{},
		Violations: map[string]*Violation{},
		Notes:      map[string]any{},
		Exhaustive: map[string]bool{},
	}
	r.bitmap = make([]uint64, bitmapBits/64)
	if cfg.NShards <= 0 {
		r.Cfg.NShards = 1
	}
	debug.SetMaxStack(64 << 20)
	if cfg.OutDir != "" {
		_ = os.MkdirAll(cfg.OutDir, 0o755)
		f, err := os.OpenFile(filepath.Join(cfg.OutDir, fmt.Sprintf("journal-%d", cfg.Shard)), os.O_CREATE|os.O_RDWR|os.O_TRUNC, 0o644)
		if err != nil {
			panic(err)
		}
		r.journal = f
	}
	r.curCase.Store("")
	go r.cpuMonitor()
	return r
}

func (r *Runner) Quick() bool    { return r.Cfg.Tier != "thorough" }
func (r *Runner) Thorough() bool { return r.Cfg.Tier == "thorough" }

// Scale returns q for the quick tier and t for the thorough tier.
func (r *Runner) Scale(q, t int) int {
	if r.Thorough() {
		return t
	}
	return q
}

func (r *Runner) Arg(name, def string) string {
	if v, ok := r.Cfg.Args[name]; ok {
		return v
	}
	return def
}

func processCPU() int64 {
	var ru syscall.Rusage
	if err := syscall.Getrusage(syscall.RUSAGE_SELF, &ru); err != nil {
		return 0
	}
	return ru.Utime.Nano() + ru.Stime.Nano()
}

// ProcessCPU is the CPU time (user + system) this process has used so far, in nanoseconds.
func ProcessCPU() int64 { return processCPU() }

// Blocked reports a call that will never return: stacks to stderr, reserved exit code. The driver turns it into
// a violation attributed to the journalled case (death/blocked/<first repo frame>).
func Blocked(what string) {
	buf := make([]byte, 1<<20)
	n := runtime.Stack(buf, true)
	fmt.Fprintf(os.Stderr, "VERIF-BLOCKED %s\n%s\n", what, buf[:n])
	os.Exit(ExitBlocked)
}

func (r *Runner) cpuMonitor() {
	var armedDeadline, cpuAtArm int64
	var armedAt time.Time
	for {
		time.Sleep(25 * time.Millisecond)
		dl := r.cpuDeadline.Load()
		if dl == 0 {
			armedDeadline = 0
			continue
		}
		if dl != armedDeadline {
			armedDeadline, cpuAtArm, armedAt = dl, processCPU(), time.Now()
		} else if time.Since(armedAt) > 30*time.Second && processCPU()-cpuAtArm < int64(1500*time.Millisecond) {
			// not slow but stuck: half a minute of wall time in which the whole process (runtime housekeeping and
			// this monitor included) used less than 5% of one core (a blocked race-detector
			// build measures 1.2%, a call that is running at all uses 100%). A loaded machine slows a runnable process
			// down, it does not bring its CPU use to nothing; a call that is merely slow burns CPU and runs
			// into the work bound instead.
			Blocked(fmt.Sprintf("case=%v: the monitored call has not returned after %s and the process used %dms of CPU in that time", r.curCase.Load(), time.Since(armedAt).Round(time.Second), (processCPU()-cpuAtArm)/1e6))
		}
		if processCPU() > dl {
			buf := make([]byte, 1<<20)
			n := runtime.Stack(buf, true)
			fmt.Fprintf(os.Stderr, "VERIF-CPU-BUDGET-EXCEEDED case=%v\n%s\n", r.curCase.Load(), buf[:n])
			os.Exit(ExitCPUBudget)
		}
	}
}

// C is the context of one case.
type C struct {
	r       *Runner
	ID      string
	N       int64
	rng     *rand.Rand
	evals   int
	sampled bool
}

func hash64(parts ...string) uint64 {
	h := fnv.New64a()
	for _, p := range parts {
		h.Write([]byte(p))
		h.Write([]byte{0})
	}
	return h.Sum64()
}

func Hash(parts ...string) uint64 { return hash64(parts...) }

func HashBytes(b []byte) uint64 {
	h := fnv.New64a()
	h.Write(b)
	return h.Sum64()
}

// Selected reports whether the next case (which Do would run) belongs to this
// worker; generators may use SkipN to jump over large unselected ranges.
func (r *Runner) selected(n int64, id string, all bool) bool {
	if r.Cfg.Only != "" {
		return id == r.Cfg.Only
	}
	if n <= r.Cfg.StartAfter {
		return false
	}
	if !all && int(n%int64(r.Cfg.NShards)) != r.Cfg.Shard {
		return false
	}
	if r.Cfg.Skip[n] {
		return false
	}
	return true
}

// Do runs one case if it is selected for this worker. The case id must be a
// pure function of (property, tier, seed).
func (r *Runner) Do(id string, fn func(c *C)) { r.do(id, false, fn) }

// DoAll runs the case in every worker process (used where the observation is
// compared across processes).
func (r *Runner) DoAll(id string, fn func(c *C)) { r.do(id, true, fn) }

func (r *Runner) do(id string, all bool, fn func(c *C)) {
	r.n++
	n := r.n
	if !r.selected(n, id, all) {
		return
	}
	c := &C{r: r, ID: id, N: n}
	r.curCase.Store(id)
	r.journalWrite(n, id, nil)
	r.sum.Cases++
	func() {
		defer func() {
			if p := recover(); p != nil {
				r.cpuDeadline.Store(0)
				st := string(debug.Stack())
				fn, harness := classifyStack(st)
				if harness {
					msg := fmt.Sprintf("case %s: harness panic %v at %s\n%s", id, p, fn, st)
					fmt.Fprintln(os.Stderr, "VERIF-HARNESS-BUG", msg)
					if len(r.sum.HarnessBugs) < 20 {
						r.sum.HarnessBugs = append(r.sum.HarnessBugs, msg)
					}
					return
				}
				c.Violate("panic/"+fn, fmt.Sprintf("panic: %v", p), map[string]any{"stack": trimStack(st)})
			}
		}()
		fn(c)
	}()
	r.cpuDeadline.Store(0)
	if c.evals == 0 {
		r.sum.Evaluations++
	}
	r.sum.DoneUpto = n
	if time.Since(r.lastFlush) > 1500*time.Millisecond {
		r.Flush(false)
	}
}

func (r *Runner) journalWrite(n int64, id string, input []byte) {
	if r.journal == nil {
		return
	}
	if len(input) > 1<<20 {
		input = input[:1<<20]
	}
	hdr := fmt.Sprintf("%d\n%s\n%d\n", n, id, len(input))
	buf := make([]byte, 8, 8+len(hdr)+len(input))
	binary.LittleEndian.PutUint64(buf, uint64(len(hdr)+len(input)))
	buf = append(buf, hdr...)
	buf = append(buf, input...)
	_, _ = r.journal.WriteAt(buf, 0)
}

func (c *C) Rand() *rand.Rand {
	if c.rng == nil {
		c.rng = rand.New(rand.NewSource(int64(hash64(fmt.Sprint(c.r.Cfg.Seed), c.r.Cfg.Prop, c.ID))))
	}
	return c.rng
}

// Input journals the materialised input of the monitored call that follows
// and arms the CPU work bound B(n) = 2s + n*50us.
func (c *C) Input(b []byte) {
	c.r.journalWrite(c.N, c.ID, b)
	c.Budget(len(b))
}

func (c *C) Budget(n int) {
	c.r.cpuDeadline.Store(processCPU() + int64(2*time.Second) + int64(n)*int64(50*time.Microsecond))
}

func (c *C) EndBudget() { c.r.cpuDeadline.Store(0) }

func (c *C) Feature(names ...string) {
	for _, n := range names {
		c.r.sum.Features[n]++
	}
}

func (c *C) Event(name string) { c.r.sum.Monitor[name]++ }

func (c *C) EventN(name string, n int64) { c.r.sum.Monitor[name] += n }

// Eval counts one evaluation of the property's oracle on a case with the given
// structural hash; nontrivial per the property's stated rule.
func (c *C) Eval(h uint64, nontrivial bool) {
	c.evals++
	c.r.sum.Evaluations++
	if nontrivial {
		c.r.sum.NonTrivial++
		bit := h % bitmapBits
		c.r.bitmap[bit/64] |= 1 << (bit % 64)
	}
}

func (c *C) Sample(v any) {
	if len(c.r.sum.Samples) < 4 && !c.sampled {
		c.sampled = true
		c.r.sum.Samples = append(c.r.sum.Samples, v)
	}
}

// WantSample tells a monitor whether materialising a sample is worthwhile.
func (c *C) WantSample() bool { return len(c.r.sum.Samples) < 4 && !c.sampled }

func (c *C) Violate(sig, what string, detail map[string]any) {
	r := c.r
	if v, ok := r.sum.Violations[sig]; ok {
		v.Count++
		return
	}
	if len(r.sum.Violations) >= 400 {
		r.sum.Overflow++
		return
	}
	r.sum.Violations[sig] = &Violation{Sig: sig, What: clip(what, 2000), CaseID: c.ID, CaseN: c.N, Count: 1, Detail: detail}
}

func (c *C) Runner() *Runner { return c.r }

func (r *Runner) Note(k string, v any) { r.sum.Notes[k] = v }

func (r *Runner) SetExhaustive(space string) { r.sum.Exhaustive[space] = true }

// Guard runs fn, converting a panic into a description. ok=false means fn
// panicked; fnName is the innermost github.com/pentops/j5 function on the
// stack (without line numbers), usable as a stable signature.
func Guard(fn func()) (ok bool, panicVal any, fnName string, stack string) {
	defer func() {
		if p := recover(); p != nil {
			st := string(debug.Stack())
			name, harness := classifyStack(st)
			if harness {
				panic(p) // re-panic: a harness bug must not be reported as a finding
			}
			ok = false
			panicVal = p
			fnName = name
			stack = trimStack(st)
		}
	}()
	fn()
	return true, nil, "", ""
}

func clip(s string, n int) string {
	if len(s) > n {
		return s[:n] + "…"
	}
	return s
}

func Clip(s string, n int) string { return clip(s, n) }

func trimStack(st string) string {
	lines := strings.Split(st, "\n")
	if len(lines) > 60 {
		lines = lines[:60]
	}
	return strings.Join(lines, "\n")
}

// classifyStack finds the innermost frame (after the panic machinery) that
// belongs to github.com/pentops/j5. harness=true when the innermost non-runtime
// frame is harness code (a bug of ours, not of the code under test) — except
// that frames of third-party/stdlib code called from repo code are attributed
// to the nearest repo frame.
func classifyStack(st string) (fn string, harness bool) {
	lines := strings.Split(st, "\n")
	seenPanic := false
	for i := 0; i < len(lines); i++ {
		l := lines[i]
		if strings.HasPrefix(l, "panic(") {
			seenPanic = true
			continue
		}
		if !seenPanic {
			continue
		}
		if strings.HasPrefix(l, "\t") || l == "" || strings.HasPrefix(l, "goroutine ") {
			continue
		}
		name := l
		if j := strings.LastIndex(name, "("); j > 0 {
			name = name[:j]
		}
		if strings.HasPrefix(name, "runtime.") || strings.HasPrefix(name, "runtime/") {
			continue
		}
		if strings.Contains(name, "/internal/verifh/") || strings.Contains(name, ".Verif") {
			return shortFn(name), true
		}
		if strings.HasPrefix(name, "github.com/pentops/j5") {
			return shortFn(name), false
		}
		// stdlib / third party: keep looking outward for the calling frame
	}
	return "unknown", false
}

func shortFn(name string) string {
	name = strings.TrimPrefix(name, "github.com/pentops/j5/")
	// drop closure suffixes func1.2 for stability
	for {
		j := strings.LastIndex(name, ".func")
		if j < 0 {
			break
		}
		name = name[:j]
	}
	name = strings.ReplaceAll(name, "(*", "")
	name = strings.ReplaceAll(name, ")", "")
	if i := strings.Index(name, "[...]"); i >= 0 {
		name = name[:i] + name[i+5:]
	}
	return name
}

func (r *Runner) Flush(final bool) {
	r.lastFlush = time.Now()
	if r.Cfg.OutDir == "" {
		return
	}
	r.sum.Finished = final
	b, err := json.Marshal(&r.sum)
	if err != nil {
		// a sample or detail is not marshalable: harness bug
		fmt.Fprintln(os.Stderr, "VERIF-HARNESS-BUG summary marshal:", err)
		os.Exit(ExitHarnessBug)
	}
	p := filepath.Join(r.Cfg.OutDir, fmt.Sprintf("shard-%d.json", r.Cfg.Shard))
	tmp := p + ".tmp"
	_ = os.WriteFile(tmp, b, 0o644)
	_ = os.Rename(tmp, p)
	// sparse form: indexes of the set bits
	bp := filepath.Join(r.Cfg.OutDir, fmt.Sprintf("bitmap-%d.bin", r.Cfg.Shard))
	_ = os.WriteFile(bp+".tmp", compressBitmap(r.bitmap), 0o644)
	_ = os.Rename(bp+".tmp", bp)
}

// compressBitmap writes the indexes of set bits as little-endian uint32.
func compressBitmap(bm []uint64) []byte {
	set := 0
	for _, w := range bm {
		if w != 0 {
			set += popcount(w)
		}
	}
	if set*4 > len(bm)*8 {
		out := make([]byte, 1+len(bm)*8)
		out[0] = 'R'
		for i, w := range bm {
			binary.LittleEndian.PutUint64(out[1+i*8:], w)
		}
		return out
	}
	out := make([]byte, 1, 1024+set*4)
	out[0] = 'S'
	var tmp [4]byte
	for i, w := range bm {
		for w != 0 {
			b := w & -w
			idx := uint32(i*64) + uint32(trailingZeros(b))
			binary.LittleEndian.PutUint32(tmp[:], idx)
			out = append(out, tmp[:]...)
			w &^= b
		}
	}
	return out
}

func popcount(x uint64) int {
	n := 0
	for x != 0 {
		x &= x - 1
		n++
	}
	return n
}

func trailingZeros(x uint64) int {
	n := 0
	for x&1 == 0 {
		x >>= 1
		n++
	}
	return n
}

func (r *Runner) Finish() {
	r.Flush(true)
}

// SortedKeys is a small helper for deterministic iteration in generators.
func SortedKeys[V any](m map[string]V) []string {
	ks := make([]string, 0, len(m))
	for k := range m {
		ks = append(ks, k)
	}
	sort.Strings(ks)
	return ks
}
