//go:build verif

// Command worker runs the monitors of one property over one shard of its
// deterministic case list. It is built from /repo's working tree with the
// harness injected through a go build overlay (see /verif/DESIGN.md §2.1).
package main

import (
	"flag"
	"fmt"
	"os"
	"strconv"
	"strings"

	"github.com/pentops/j5/internal/verifh/props"
	"github.com/pentops/j5/internal/verifh/rt"
)

func main() {
	var cfg rt.Config
	var skip, args string
	flag.StringVar(&cfg.Prop, "prop", "", "property id")
	flag.Int64Var(&cfg.Seed, "seed", 1, "seed")
	flag.StringVar(&cfg.Tier, "tier", "quick", "quick|thorough")
	flag.IntVar(&cfg.Shard, "shard", 0, "shard index")
	flag.IntVar(&cfg.NShards, "nshards", 1, "number of shards")
	flag.Int64Var(&cfg.StartAfter, "start-after", 0, "skip cases with counter <= this")
	flag.StringVar(&skip, "skip", "", "comma separated case counters to skip")
	flag.StringVar(&cfg.Only, "only", "", "run only this case id")
	flag.StringVar(&cfg.OutDir, "out", "", "output directory")
	flag.StringVar(&args, "args", "", "k=v,k=v per-property arguments")
	flag.Parse()

	cfg.Skip = map[int64]bool{}
	for _, s := range strings.Split(skip, ",") {
		if s == "" {
			continue
		}
		n, err := strconv.ParseInt(s, 10, 64)
		if err != nil {
			fmt.Fprintln(os.Stderr, "bad --skip", s)
			os.Exit(rt.ExitHarnessBug)
		}
		cfg.Skip[n] = true
	}
	cfg.Args = map[string]string{}
	for _, kv := range strings.Split(args, ",") {
		if kv == "" {
			continue
		}
		k, v, _ := strings.Cut(kv, "=")
		cfg.Args[k] = v
	}

	fn, ok := props.Registry[cfg.Prop]
	if !ok {
		fmt.Fprintln(os.Stderr, "unknown property", cfg.Prop)
		os.Exit(rt.ExitHarnessBug)
	}
	r := rt.New(cfg)
	fn(r)
	r.Finish()
}
