//go:build verif

package codec

import (
	"github.com/pentops/j5/lib/j5reflect"
	"github.com/pentops/j5/lib/j5schema"
)

// VerifNewCodecWithCache builds a codec exactly like NewCodec but over a schema
// cache the monitor can also query directly (to observe which schema instance
// each concurrent caller obtained). Verification shim, DESIGN.md §2.1.
func VerifNewCodecWithCache(cache *j5schema.SchemaCache, opts ...CodecOption) *Codec {
	cc := NewCodec(opts...)
	cc.refl = j5reflect.NewWithCache(cache)
	return cc
}
